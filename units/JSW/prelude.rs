// ---- spec side of JSW (C02: "statement separators and var hoisting") ----
/// the first k strings joined with `sep`
spec fn join(v: Seq<String>, sep: Seq<char>, k: int) -> Seq<char>
    decreases k,
{
    if k <= 0 { Seq::empty() } else if k == 1 { v[0]@ } else { join(v, sep, k - 1) + sep + v[k - 1]@ }
}
/// THE shape of a top scope: one `var a,b,c` for all hoisted declarations, then the statements, everything separated by `;`
/// and nothing after the last one
spec fn program(decls: Seq<String>, subs: Seq<String>) -> Seq<char> {
    let d = seq!['v', 'a', 'r', ' '] + join(decls, seq![','], decls.len() as int);
    let s = join(subs, seq![';'], subs.len() as int);
    if decls.len() > 0 { if subs.len() > 0 { d + seq![';'] + s } else { d } } else { s }
}
spec fn var_kw() -> Seq<char> { seq!['v', 'a', 'r', ' '] }
spec fn decl_part(decls: Seq<String>) -> Seq<char> { if decls.len() > 0 { var_kw() + join(decls, seq![','], decls.len() as int) } else { Seq::empty() } }
/// what has been written after k statements
spec fn prog_upto(decls: Seq<String>, subs: Seq<String>, k: int) -> Seq<char> {
    if k <= 0 { decl_part(decls) } else if decls.len() > 0 { decl_part(decls) + seq![';'] + join(subs, seq![';'], k) } else { join(subs, seq![';'], k) }
}
proof fn lemma_prog_all(decls: Seq<String>, subs: Seq<String>)
    ensures prog_upto(decls, subs, subs.len() as int) == program(decls, subs),
{
    if subs.len() == 0 && decls.len() == 0 { assert(join(subs, seq![';'], 0) =~= Seq::<char>::empty()); }
}
/// writing statement k (with a `;` in front unless it is the very first thing written)
proof fn lemma_prog_step(t0: Seq<char>, decls: Seq<String>, subs: Seq<String>, k: int)
    requires 0 <= k < subs.len(),
    ensures ({
        let first = decls.len() == 0 && k == 0;
        t0 + prog_upto(decls, subs, k + 1) == (if first { t0 + prog_upto(decls, subs, k) + subs[k]@ } else { t0 + prog_upto(decls, subs, k) + seq![';'] + subs[k]@ })
    }),
{
    let sc = seq![';'];
    let d = decl_part(decls);
    let x = subs[k]@;
    if k == 0 {
        if decls.len() == 0 { assert(t0 + x =~= t0 + Seq::<char>::empty() + x); }
        else { assert(t0 + (d + sc + x) =~= t0 + d + sc + x); }
    } else {
        let j = join(subs, sc, k);
        if decls.len() == 0 { assert(t0 + (j + sc + x) =~= t0 + j + sc + x); }
        else { assert(t0 + (d + sc + (j + sc + x)) =~= t0 + (d + sc + j) + sc + x); }
    }
}
proof fn lemma_decl_step(t0: Seq<char>, decls: Seq<String>, k: int)
    requires 0 <= k < decls.len(),
    ensures ({
        let v = var_kw();
        let c = seq![','];
        t0 + v + join(decls, c, k + 1) == (if k == 0 { t0 + v + join(decls, c, 0) + decls[k]@ } else { t0 + v + join(decls, c, k) + c + decls[k]@ })
    }),
{
    let v = var_kw();
    let c = seq![','];
    let x = decls[k]@;
    if k == 0 { assert(t0 + v + x =~= t0 + v + Seq::<char>::empty() + x); }
    else { assert(t0 + v + (join(decls, c, k) + c + x) =~= t0 + v + join(decls, c, k) + c + x); }
}
