// ---- spec side of PATH: the textbook stack definition of path normalisation (written from the
// ---- property statement: "`.`/`..` segments normalised", "resolved against the directory of the
// ---- referring template, or the root when it starts with `/`") ----
pub open spec fn step(acc: Seq<Seq<char>>, seg: Seq<char>) -> Seq<Seq<char>> {
    if seg == "."@ { acc } else if seg == ".."@ { if acc.len() > 0 { acc.drop_last() } else { acc } } else { acc.push(seg) }
}
pub open spec fn fold_segs(acc: Seq<Seq<char>>, segs: Seq<Seq<char>>) -> Seq<Seq<char>>
    decreases segs.len(),
{
    if segs.len() == 0 { acc } else { fold_segs(step(acc, segs[0]), segs.skip(1)) }
}
pub open spec fn no_segs() -> Seq<Seq<char>> { Seq::<Seq<char>>::empty() }
pub open spec fn normalize_spec(p: Seq<char>) -> Seq<char> {
    join_spec(fold_segs(no_segs(), split_spec(p, '/')), "/"@)
}
/// directory of a normalised segment list: everything but the last segment
pub open spec fn dir_of(segs: Seq<Seq<char>>) -> Seq<Seq<char>> {
    if segs.len() > 0 { segs.drop_last() } else { segs }
}
pub open spec fn resolve_spec(base: Seq<char>, rel: Seq<char>) -> Seq<char> {
    if rel.len() > 0 && rel[0] == '/' {
        join_spec(fold_segs(no_segs(), split_spec(rel.skip(1), '/')), "/"@)
    } else {
        join_spec(fold_segs(dir_of(fold_segs(no_segs(), split_spec(base, '/'))), split_spec(rel, '/')), "/"@)
    }
}

pub proof fn lemma_fold_step(acc: Seq<Seq<char>>, all: Seq<Seq<char>>, i: int)
    requires 0 <= i < all.len(),
    ensures fold_segs(acc, all.skip(i)) == fold_segs(step(acc, all[i]), all.skip(i + 1)),
{
    assert(all.skip(i).skip(1) =~= all.skip(i + 1));
}
pub proof fn lemma_views_push(v: Seq<&str>, s: &str)
    ensures views(v.push(s)) == views(v).push(s@),
{
    assert(views(v.push(s)) =~= views(v).push(s@));
}
pub proof fn lemma_views_drop_last(v: Seq<&str>)
    requires v.len() > 0,
    ensures views(v.drop_last()) == views(v).drop_last(),
{
    assert(views(v.drop_last()) =~= views(v).drop_last());
}

// ---- lemmas over the specification (the statements C13 makes about the resolver) ----
pub open spec fn no_dots(v: Seq<Seq<char>>) -> bool {
    forall|i: int| 0 <= i < v.len() ==> #[trigger] v[i] != "."@ && v[i] != ".."@
}
/// L1: no `.` / `..` segment survives normalisation
pub proof fn lemma_fold_no_dots(acc: Seq<Seq<char>>, segs: Seq<Seq<char>>)
    requires no_dots(acc),
    ensures no_dots(fold_segs(acc, segs)),
    decreases segs.len(),
{
    if segs.len() > 0 {
        lemma_fold_no_dots(step(acc, segs[0]), segs.skip(1));
    }
}
/// L2: a root-relative reference does not depend on the referring file
pub proof fn lemma_root_relative_ignores_base(b1: Seq<char>, b2: Seq<char>, rel: Seq<char>)
    requires rel.len() > 0 && rel[0] == '/',
    ensures resolve_spec(b1, rel) == resolve_spec(b2, rel), resolve_spec(b1, rel) == normalize_spec(rel.skip(1)),
{
}
/// L5: `..` at the root is absorbed (never escapes above the root, never fails)
pub proof fn lemma_dotdot_at_root(segs: Seq<Seq<char>>)
    ensures fold_segs(no_segs(), seq![".."@] + segs) == fold_segs(no_segs(), segs),
{
    reveal_strlit("."); reveal_strlit("..");
    let s = seq![".."@] + segs;
    assert(s.skip(1) =~= segs);
    assert(s[0] == ".."@);
    assert(step(no_segs(), ".."@) == no_segs());
}
