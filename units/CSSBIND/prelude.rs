// ---- CSSBIND: the binding constructor must hand its arguments to from_css unchanged (the empty prefix included: `.a` -> `.--a`),
// everything it has no parameter for stays at its default ----
struct VxSst { path: String, css: String, options: StyleSheetOptions }
#[verifier::external_body]
fn vx_from_css(path: &str, css: &str, options: StyleSheetOptions) -> (r: VxSst)
    ensures r.path@ == path@, r.css@ == css@, r.options == options,
{ unimplemented!() }
impl StyleSheetOptions {
    #[verifier::external_body]
    fn vx_default() -> (r: Self)
        ensures r.class_prefix is None, r.class_prefix_sign is None, r.import_sign is None, r.convert_host == false, r.host_is is None,
    { unimplemented!() }
}
