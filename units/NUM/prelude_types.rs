pub struct VxParseFloatError { _x: u8 }
/// what `str::parse::<f64>()` returns for a text (A4: total, a function of the text)
pub uninterp spec fn f64_of_text(t: Seq<char>) -> Option<f64>;
/// stand-in for `s.parse::<f64>()`
#[verifier::external_body]
pub fn vx_parse_f64(s: &str) -> (r: Result<f64, VxParseFloatError>)
    ensures (r matches Ok(v) ==> f64_of_text(s@) == Some(v)), (r is Err ==> f64_of_text(s@) is None),
{
    unimplemented!()
}
/// the f64 value of `acc * base + d as f64` (A8: a function of the operands; rounding not modelled)
pub uninterp spec fn f_mul_add(acc: f64, base: f64, d: int) -> f64;
#[verifier::external_body]
pub fn vx_f64_mul_add(acc: f64, base: f64, d: i64) -> (r: f64)
    ensures r == f_mul_add(acc, base, d as int),
{
    acc * base + d as f64
}
