pub struct VxParseFloatError { _x: u8 }
/// stand-in for `s.parse::<f64>()` (A4: total)
#[verifier::external_body]
pub fn vx_parse_f64(s: &str) -> (r: Result<f64, VxParseFloatError>)
{
    unimplemented!()
}
