// ---- spec side of NUM ----
spec fn is_dig(c: char) -> bool { '0' <= c && c <= '9' }
spec fn is_oct(c: char) -> bool { '0' <= c && c <= '7' }
spec fn is_hex(c: char) -> bool { is_dig(c) || ('a' <= c && c <= 'f') || ('A' <= c && c <= 'F') }
spec fn is_ident_char_spec(c: char) -> bool {
    c == '_' || c == '$' || ('a' <= c && c <= 'z') || ('A' <= c && c <= 'Z') || is_dig(c)
}
/// what a scanner may do to the cursor: same text, same whitespace mode, warnings only appended
spec fn scan_frame(new: &ParseState, old: &ParseState) -> bool {
    new.wf() && new.whole_str == old.whole_str && new.auto@ == old.auto@ && old.warnings@.is_prefix_of(new.warnings@)
}
proof fn lemma_boff_monotone(s: Seq<char>, i: int, j: int)
    requires 0 <= i <= j,
    ensures boff(s, i) <= boff(s, j), boff(s, i) >= 0,
    decreases j,
{
    if j > i { lemma_boff_monotone(s, i, j - 1); } else if i > 0 { lemma_boff_monotone(s, i - 1, i - 1); }
}
proof fn lemma_prefix_push<T>(a: Seq<T>, b: Seq<T>, x: T)
    requires a.is_prefix_of(b),
    ensures a.is_prefix_of(b.push(x)),
{
    assert(a =~= b.push(x).subrange(0, a.len() as int)) by {
        assert(a =~= b.subrange(0, a.len() as int));
    }
}
// ---- value side (C03 "number literals in every accepted radix and magnitude", C16 literal location) ----
spec fn dig_val(c: char) -> int {
    if is_dig(c) { c as int - '0' as int } else if 'a' <= c && c <= 'f' { c as int - 'a' as int + 10 } else if 'A' <= c && c <= 'F' { c as int - 'A' as int + 10 } else { 0 }
}
/// mathematical value of a digit string in a base
spec fn ival(s: Seq<char>, base: int) -> int
    decreases s.len(),
{
    if s.len() == 0 { 0 } else { ival(s.drop_last(), base) * base + dig_val(s.last()) }
}
/// the f64 obtained by folding the digits left to right, starting from 0.0 (what the fallback accumulator computes)
spec fn fval(s: Seq<char>, base: f64) -> f64
    decreases s.len(),
{
    if s.len() == 0 { 0f64 } else { f_mul_add(fval(s.drop_last(), base), base, dig_val(s.last())) }
}
spec fn all_dig(s: Seq<char>) -> bool { forall|i: int| 0 <= i < s.len() ==> is_dig(#[trigger] s[i]) }
spec fn all_oct(s: Seq<char>) -> bool { forall|i: int| 0 <= i < s.len() ==> is_oct(#[trigger] s[i]) }
spec fn all_hex(s: Seq<char>) -> bool { forall|i: int| 0 <= i < s.len() ==> is_hex(#[trigger] s[i]) }
/// the integer accumulator: Some(value) while the value fits i64, None from the first overflow on
spec fn acc_of(s: Seq<char>, base: int) -> Option<i64> {
    if ival(s, base) <= i64::MAX { Some(ival(s, base) as i64) } else { None }
}
spec fn lit_is(e: Expression, iv: Option<i64>, fv: f64) -> bool {
    match iv {
        Some(v) => (e matches Expression::LitInt { value, .. } && value == v),
        None => (e matches Expression::LitFloat { value, .. } && value == fv),
    }
}
/// THE value contract: which literal the text `t` (the characters the scanner consumed) denotes
spec fn num_lit(e: Expression, t: Seq<char>) -> bool {
    if t.len() >= 2 && t[0] == '0' && is_oct(t[1]) {
        all_oct(t.skip(1)) && lit_is(e, acc_of(t.skip(1), 8), fval(t.skip(1), 8f64))
    } else if t.len() >= 2 && t[0] == '0' && t[1] == 'x' {
        t.len() >= 3 && all_hex(t.skip(2)) && lit_is(e, acc_of(t.skip(2), 16), fval(t.skip(2), 16f64))
    } else if all_dig(t) && ival(t, 10) <= i64::MAX {
        t.len() >= 1 && (e matches Expression::LitInt { value, .. } && value == ival(t, 10))
    } else {
        (e matches Expression::LitFloat { value, .. } && f64_of_text(t) == Some(value))
    }
}
spec fn lit_loc(e: Expression) -> Range<Position> {
    match e {
        Expression::LitInt { location, .. } => location,
        Expression::LitFloat { location, .. } => location,
        _ => arbitrary(),
    }
}
proof fn lemma_ival_nonneg(s: Seq<char>, base: int)
    requires base > 0,
    ensures ival(s, base) >= 0,
    decreases s.len(),
{
    if s.len() > 0 { lemma_ival_nonneg(s.drop_last(), base); assert(ival(s.drop_last(), base) * base >= 0) by (nonlinear_arith) requires ival(s.drop_last(), base) >= 0, base > 0; }
}
/// one more digit: the value, the float fold and the "all digits" predicate extend as expected
proof fn lemma_push_digit(s: Seq<char>, c: char, base: int, fb: f64)
    requires base > 0,
    ensures
        ival(s.push(c), base) == ival(s, base) * base + dig_val(c),
        fval(s.push(c), fb) == f_mul_add(fval(s, fb), fb, dig_val(c)),
        ival(s.push(c), base) >= ival(s, base) || ival(s, base) < 0,
{
    assert(s.push(c).drop_last() =~= s);
    assert(s.push(c).last() == c);
    lemma_ival_nonneg(s, base);
    assert(ival(s, base) * base >= ival(s, base)) by (nonlinear_arith) requires ival(s, base) >= 0, base >= 1;
}
/// the cursor moved from i to j while the scanner's text started at a
proof fn lemma_move(src: Seq<char>, a: int, i: int, j: int, l0: int, c0: int)
    requires 0 <= a <= i <= j <= src.len(),
    ensures
        src.subrange(a, j) =~= src.subrange(a, i) + src.subrange(i, j),
        adv_line(l0, src.subrange(a, j)) == adv_line(adv_line(l0, src.subrange(a, i)), src.subrange(i, j)),
        adv_col(c0, src.subrange(a, j)) == adv_col(adv_col(c0, src.subrange(a, i)), src.subrange(i, j)),
        j == i + 1 ==> src.subrange(a, j) =~= src.subrange(a, i).push(src[i]),
        i == j ==> src.subrange(a, j) =~= src.subrange(a, i),
{
    lemma_adv_split(l0, c0, src.subrange(a, i), src.subrange(i, j));
}
proof fn lemma_not_all_dig(src: Seq<char>, a: int, k: int, j: int)
    requires 0 <= a <= k < j <= src.len(), !is_dig(src[k]),
    ensures !all_dig(src.subrange(a, j)),
{
    assert(src.subrange(a, j)[k - a] == src[k]);
}
proof fn lemma_all_push(s: Seq<char>, c: char)
    ensures
        all_dig(s.push(c)) == (all_dig(s) && is_dig(c)),
        all_oct(s.push(c)) == (all_oct(s) && is_oct(c)),
        all_hex(s.push(c)) == (all_hex(s) && is_hex(c)),
{
    assert(s.push(c)[s.len() as int] == c);
    assert forall|i: int| 0 <= i < s.len() implies s.push(c)[i] == s[i] by {}
    if all_dig(s.push(c)) { assert forall|i: int| 0 <= i < s.len() implies is_dig(#[trigger] s[i]) by { assert(s.push(c)[i] == s[i]); } }
    if all_oct(s.push(c)) { assert forall|i: int| 0 <= i < s.len() implies is_oct(#[trigger] s[i]) by { assert(s.push(c)[i] == s[i]); } }
    if all_hex(s.push(c)) { assert forall|i: int| 0 <= i < s.len() implies is_hex(#[trigger] s[i]) by { assert(s.push(c)[i] == s[i]); } }
}
