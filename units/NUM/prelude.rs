// ---- spec side of NUM ----
spec fn is_dig(c: char) -> bool { '0' <= c && c <= '9' }
spec fn is_oct(c: char) -> bool { '0' <= c && c <= '7' }
spec fn is_hex(c: char) -> bool { is_dig(c) || ('a' <= c && c <= 'f') || ('A' <= c && c <= 'F') }
spec fn is_ident_char_spec(c: char) -> bool {
    c == '_' || c == '$' || ('a' <= c && c <= 'z') || ('A' <= c && c <= 'Z') || is_dig(c)
}
/// what a scanner may do to the cursor: same text, same whitespace mode, warnings only appended
spec fn scan_frame(new: &ParseState, old: &ParseState) -> bool {
    new.wf() && new.whole_str == old.whole_str && new.auto@ == old.auto@ && old.warnings@.is_prefix_of(new.warnings@)
}
proof fn lemma_boff_monotone(s: Seq<char>, i: int, j: int)
    requires 0 <= i <= j,
    ensures boff(s, i) <= boff(s, j), boff(s, i) >= 0,
    decreases j,
{
    if j > i { lemma_boff_monotone(s, i, j - 1); } else if i > 0 { lemma_boff_monotone(s, i - 1, i - 1); }
}
proof fn lemma_prefix_push<T>(a: Seq<T>, b: Seq<T>, x: T)
    requires a.is_prefix_of(b),
    ensures a.is_prefix_of(b.push(x)),
{
    assert(a =~= b.push(x).subrange(0, a.len() as int)) by {
        assert(a =~= b.subrange(0, a.len() as int));
    }
}
