// ---- spec side of EMITST: the WXML text of an expression tree, written from the parser's grammar ----
// The grammar chain (parse/expr.rs: parse_cond -> parse_logic_or -> ... -> parse_multiply -> parse_reverse ->
// parse_member -> parse_lit) fixes, for every form, the level at which it is parsed; every binary operator is
// left-associative: its left operand is parsed at the operator's own level, its right operand one level tighter.
// Printing is faithful iff a sub-expression is parenthesised exactly when its level is looser than what the
// position accepts.  This spec says exactly that; it is not derived from the printer.
spec fn pred(l: ExpressionLevel) -> ExpressionLevel {
    match l {
        ExpressionLevel::Cond => ExpressionLevel::LogicOr,
        ExpressionLevel::LogicOr => ExpressionLevel::LogicAnd,
        ExpressionLevel::LogicAnd => ExpressionLevel::BitOr,
        ExpressionLevel::BitOr => ExpressionLevel::BitXor,
        ExpressionLevel::BitXor => ExpressionLevel::BitAnd,
        ExpressionLevel::BitAnd => ExpressionLevel::Eq,
        ExpressionLevel::Eq => ExpressionLevel::Comparison,
        ExpressionLevel::Comparison => ExpressionLevel::Shift,
        ExpressionLevel::Shift => ExpressionLevel::Plus,
        ExpressionLevel::Plus => ExpressionLevel::Multiply,
        ExpressionLevel::Multiply => ExpressionLevel::Unary,
        ExpressionLevel::Unary => ExpressionLevel::Member,
        ExpressionLevel::Member => ExpressionLevel::Lit,
        ExpressionLevel::Lit => ExpressionLevel::Lit,
    }
}
/// binary operators: (level of the parse function that builds them, lexeme)
spec fn binop(e: Expression) -> Option<(ExpressionLevel, Seq<char>)> {
    match e {
        Expression::Multiply { .. } => Some((ExpressionLevel::Multiply, "*"@)),
        Expression::Divide { .. } => Some((ExpressionLevel::Multiply, "/"@)),
        Expression::Remainer { .. } => Some((ExpressionLevel::Multiply, "%"@)),
        Expression::Plus { .. } => Some((ExpressionLevel::Plus, "+"@)),
        Expression::Minus { .. } => Some((ExpressionLevel::Plus, "-"@)),
        Expression::LeftShift { .. } => Some((ExpressionLevel::Shift, "<<"@)),
        Expression::RightShift { .. } => Some((ExpressionLevel::Shift, ">>"@)),
        Expression::UnsignedRightShift { .. } => Some((ExpressionLevel::Shift, ">>>"@)),
        Expression::Lt { .. } => Some((ExpressionLevel::Comparison, "<"@)),
        Expression::Gt { .. } => Some((ExpressionLevel::Comparison, ">"@)),
        Expression::Lte { .. } => Some((ExpressionLevel::Comparison, "<="@)),
        Expression::Gte { .. } => Some((ExpressionLevel::Comparison, ">="@)),
        Expression::InstanceOf { .. } => Some((ExpressionLevel::Comparison, " instanceof "@)),
        Expression::Eq { .. } => Some((ExpressionLevel::Eq, "=="@)),
        Expression::Ne { .. } => Some((ExpressionLevel::Eq, "!="@)),
        Expression::EqFull { .. } => Some((ExpressionLevel::Eq, "==="@)),
        Expression::NeFull { .. } => Some((ExpressionLevel::Eq, "!=="@)),
        Expression::BitAnd { .. } => Some((ExpressionLevel::BitAnd, "&"@)),
        Expression::BitXor { .. } => Some((ExpressionLevel::BitXor, "^"@)),
        Expression::BitOr { .. } => Some((ExpressionLevel::BitOr, "|"@)),
        Expression::LogicAnd { .. } => Some((ExpressionLevel::LogicAnd, "&&"@)),
        Expression::LogicOr { .. } => Some((ExpressionLevel::LogicOr, "||"@)),
        Expression::NullishCoalescing { .. } => Some((ExpressionLevel::LogicOr, "??"@)),
        _ => None,
    }
}
/// prefix operators (all parsed by parse_reverse at level Unary); word operators and signs carry blanks so that
/// they cannot fuse with a neighbouring token
spec fn unop(e: Expression) -> Option<Seq<char>> {
    match e {
        Expression::Reverse { .. } => Some("!"@),
        Expression::BitReverse { .. } => Some("~"@),
        Expression::Positive { .. } => Some(" +"@),
        Expression::Negative { .. } => Some(" -"@),
        Expression::TypeOf { .. } => Some(" typeof "@),
        Expression::Void { .. } => Some(" void "@),
        _ => None,
    }
}
/// grammar level of each form
spec fn lvl(e: Expression) -> ExpressionLevel {
    if binop(e).is_some() { binop(e).unwrap().0 }
    else if unop(e).is_some() { ExpressionLevel::Unary }
    else {
        match e {
            Expression::Cond { .. } => ExpressionLevel::Cond,
            Expression::StaticMember { .. } | Expression::DynamicMember { .. } | Expression::FuncCall { .. } => ExpressionLevel::Member,
            Expression::ToStringWithoutUndefined { .. } => ExpressionLevel::Member,
            _ => ExpressionLevel::Lit,
        }
    }
}
spec fn gt(a: ExpressionLevel, b: ExpressionLevel) -> bool { level_rank(a) > level_rank(b) }

/// no ToStringWithoutUndefined node anywhere (it is not source syntax; Value::stringify_write peels it off)
spec fn printable(e: Expression) -> bool
    decreases e,
{
    match e {
        Expression::ToStringWithoutUndefined { .. } => false,
        Expression::ScopeRef { .. } | Expression::DataField { .. } | Expression::LitUndefined { .. } | Expression::LitNull { .. }
        | Expression::LitStr { .. } | Expression::LitInt { .. } | Expression::LitFloat { .. } | Expression::LitBool { .. } => true,
        Expression::LitObj { fields, .. } => printable_obj(fields@, 0),
        Expression::LitArr { fields, .. } => printable_arr(fields@, 0),
        Expression::StaticMember { obj, .. } => printable(*obj),
        Expression::DynamicMember { obj, field_name, .. } => printable(*obj) && printable(*field_name),
        Expression::FuncCall { func, args, .. } => printable(*func) && printable_list(args@, 0),
        Expression::Reverse { value, .. } | Expression::BitReverse { value, .. } | Expression::Positive { value, .. }
        | Expression::Negative { value, .. } | Expression::TypeOf { value, .. } | Expression::Void { value, .. } => printable(*value),
        Expression::Multiply { left, right, .. } | Expression::Divide { left, right, .. } | Expression::Remainer { left, right, .. }
        | Expression::Plus { left, right, .. } | Expression::Minus { left, right, .. } | Expression::LeftShift { left, right, .. }
        | Expression::RightShift { left, right, .. } | Expression::UnsignedRightShift { left, right, .. }
        | Expression::Lt { left, right, .. } | Expression::Gt { left, right, .. } | Expression::Lte { left, right, .. }
        | Expression::Gte { left, right, .. } | Expression::InstanceOf { left, right, .. } | Expression::Eq { left, right, .. }
        | Expression::Ne { left, right, .. } | Expression::EqFull { left, right, .. } | Expression::NeFull { left, right, .. }
        | Expression::BitAnd { left, right, .. } | Expression::BitXor { left, right, .. } | Expression::BitOr { left, right, .. }
        | Expression::LogicAnd { left, right, .. } | Expression::LogicOr { left, right, .. }
        | Expression::NullishCoalescing { left, right, .. } => printable(*left) && printable(*right),
        Expression::Cond { cond, true_br, false_br, .. } => printable(*cond) && printable(*true_br) && printable(*false_br),
    }
}
spec fn printable_list(v: Seq<Expression>, i: int) -> bool
    decreases v, v.len() - i,
{
    if 0 <= i < v.len() { printable(v[i]) && printable_list(v, i + 1) } else { true }
}
spec fn printable_obj(v: Seq<ObjectFieldKind>, i: int) -> bool
    decreases v, v.len() - i,
{
    if 0 <= i < v.len() {
        (match v[i] { ObjectFieldKind::Named { value, .. } => printable(value), ObjectFieldKind::Spread { value, .. } => printable(value) }) && printable_obj(v, i + 1)
    } else { true }
}
spec fn printable_arr(v: Seq<ArrayFieldKind>, i: int) -> bool
    decreases v, v.len() - i,
{
    if 0 <= i < v.len() {
        (match v[i] { ArrayFieldKind::Normal { value } => printable(value), ArrayFieldKind::Spread { value, .. } => printable(value), ArrayFieldKind::EmptySlot => true }) && printable_arr(v, i + 1)
    } else { true }
}

/// The printed text, as the fold the printer performs: `emit(e, accept, names, acc)` is the output after writing
/// e -- in a position that accepts forms up to level `accept` -- onto what was written before (`acc`).
/// A sub-expression is parenthesised exactly when its grammar level is looser than the position accepts.
spec fn emit(e: Expression, accept: ExpressionLevel, names: Seq<Seq<char>>, acc: Seq<char>) -> Seq<char>
    decreases e, 1int,
{
    if gt(lvl(e), accept) { emit_body(e, names, acc + "("@) + ")"@ } else { emit_body(e, names, acc) }
}
spec fn nm(names: Seq<Seq<char>>, index: int) -> Seq<char> {
    if 0 <= index < names.len() { names[index] } else { invalid_scope_name() }
}
spec fn emit_body(e: Expression, names: Seq<Seq<char>>, acc: Seq<char>) -> Seq<char>
    decreases e, 0int,
{
    match e {
        Expression::ScopeRef { index, .. } => acc + nm(names, index as int),
        Expression::DataField { name, .. } => acc + name@,
        Expression::ToStringWithoutUndefined { .. } => acc,
        Expression::LitUndefined { .. } => acc + "undefined"@,
        Expression::LitNull { .. } => acc + "null"@,
        Expression::LitStr { value, .. } => acc + js_lit(value@),
        Expression::LitInt { value, .. } => acc + display_i64(value),
        Expression::LitFloat { value, .. } => acc + display_f64(value),
        Expression::LitBool { value, .. } => if value { acc + "true"@ } else { acc + "false"@ },
        Expression::LitObj { fields, .. } => obj_upto(fields@, fields@.len() as int, names, acc + "{"@) + "}"@,
        Expression::LitArr { fields, .. } => arr_upto(fields@, fields@.len() as int, names, acc + "["@) + "]"@,
        // a number literal in object position is parenthesised (`1.a` is not an expression: the `.` continues the number)
        Expression::StaticMember { obj, field_name, .. } =>
            if *obj is LitInt || *obj is LitFloat { emit(*obj, ExpressionLevel::Member, names, acc + "("@) + ")"@ + "."@ + field_name@ }
            else { emit(*obj, ExpressionLevel::Member, names, acc) + "."@ + field_name@ },
        Expression::DynamicMember { obj, field_name, .. } =>
            emit(*field_name, ExpressionLevel::Cond, names, emit(*obj, ExpressionLevel::Member, names, acc) + "["@) + "]"@,
        Expression::FuncCall { func, args, .. } =>
            list_upto(args@, args@.len() as int, names, emit(*func, ExpressionLevel::Member, names, acc) + "("@) + ")"@,
        Expression::Reverse { value, .. } | Expression::BitReverse { value, .. } | Expression::Positive { value, .. }
        | Expression::Negative { value, .. } | Expression::TypeOf { value, .. } | Expression::Void { value, .. } =>
            emit(*value, ExpressionLevel::Unary, names, acc + unop(e).unwrap()),
        Expression::Multiply { left, right, .. } | Expression::Divide { left, right, .. } | Expression::Remainer { left, right, .. }
        | Expression::Plus { left, right, .. } | Expression::Minus { left, right, .. } | Expression::LeftShift { left, right, .. }
        | Expression::RightShift { left, right, .. } | Expression::UnsignedRightShift { left, right, .. }
        | Expression::Lt { left, right, .. } | Expression::Gt { left, right, .. } | Expression::Lte { left, right, .. }
        | Expression::Gte { left, right, .. } | Expression::InstanceOf { left, right, .. } | Expression::Eq { left, right, .. }
        | Expression::Ne { left, right, .. } | Expression::EqFull { left, right, .. } | Expression::NeFull { left, right, .. }
        | Expression::BitAnd { left, right, .. } | Expression::BitXor { left, right, .. } | Expression::BitOr { left, right, .. }
        | Expression::LogicAnd { left, right, .. } | Expression::LogicOr { left, right, .. }
        | Expression::NullishCoalescing { left, right, .. } =>
            // left operand at the operator's own level, right operand one level tighter (left-associative grammar)
            emit(*right, pred(binop(e).unwrap().0), names, emit(*left, binop(e).unwrap().0, names, acc) + binop(e).unwrap().1),
        // cond ? a : b -- parse_cond reads the condition with parse_logic_or and both branches with parse_cond
        Expression::Cond { cond, true_br, false_br, .. } =>
            emit(*false_br, ExpressionLevel::Cond, names,
                emit(*true_br, ExpressionLevel::Cond, names, emit(*cond, ExpressionLevel::LogicOr, names, acc) + "?"@) + ":"@),
    }
}
spec fn sep(k: int, acc: Seq<char>) -> Seq<char> { if k > 0 { acc + ","@ } else { acc } }
spec fn list_upto(v: Seq<Expression>, k: int, names: Seq<Seq<char>>, acc: Seq<char>) -> Seq<char>
    decreases v, k,
{
    if k <= 0 || k > v.len() { acc } else { emit(v[k - 1], ExpressionLevel::Cond, names, sep(k - 1, list_upto(v, k - 1, names, acc))) }
}
spec fn is_shortcut(name: Seq<char>, value: Expression, names: Seq<Seq<char>>) -> bool {
    match value {
        Expression::ScopeRef { index, .. } => nm(names, index as int) == name,
        Expression::DataField { name: x, .. } => x@ == name,
        _ => false,
    }
}
spec fn obj_field(f: ObjectFieldKind, names: Seq<Seq<char>>, acc: Seq<char>) -> Seq<char>
    decreases f,
{
    match f {
        ObjectFieldKind::Named { name, value, .. } =>
            if is_shortcut(name@, value, names) { acc + name@ } else { emit(value, ExpressionLevel::Cond, names, acc + name@ + ":"@) },
        ObjectFieldKind::Spread { value, .. } => emit(value, ExpressionLevel::Cond, names, acc + "..."@),
    }
}
spec fn obj_upto(v: Seq<ObjectFieldKind>, k: int, names: Seq<Seq<char>>, acc: Seq<char>) -> Seq<char>
    decreases v, k,
{
    if k <= 0 || k > v.len() { acc } else { obj_field(v[k - 1], names, sep(k - 1, obj_upto(v, k - 1, names, acc))) }
}
spec fn arr_field(v: Seq<ArrayFieldKind>, i: int, names: Seq<Seq<char>>, acc: Seq<char>) -> Seq<char>
    decreases v, 0int,
{
    if i < 0 || i >= v.len() { acc } else {
        match v[i] {
            ArrayFieldKind::Normal { value } => emit(value, ExpressionLevel::Cond, names, acc),
            ArrayFieldKind::Spread { value, .. } => emit(value, ExpressionLevel::Cond, names, acc + "..."@),
            // a hole prints nothing; a trailing hole needs one more comma, or `[a,]` would drop it
            ArrayFieldKind::EmptySlot => if i == v.len() - 1 { acc + ","@ } else { acc },
        }
    }
}
spec fn arr_upto(v: Seq<ArrayFieldKind>, k: int, names: Seq<Seq<char>>, acc: Seq<char>) -> Seq<char>
    decreases v, k + 1,
{
    if k <= 0 || k > v.len() { acc } else { arr_field(v, k - 1, names, sep(k - 1, arr_upto(v, k - 1, names, acc))) }
}
proof fn lemma_rank_bounds(l: ExpressionLevel)
    ensures 0 <= level_rank(l) <= level_rank(ExpressionLevel::Cond),
{
}
proof fn lemma_printable_list(v: Seq<Expression>, i: int, j: int)
    requires printable_list(v, i), 0 <= i <= j < v.len(),
    ensures printable(v[j]),
    decreases j - i,
{
    if i < j { lemma_printable_list(v, i + 1, j); }
}
proof fn lemma_printable_obj(v: Seq<ObjectFieldKind>, i: int, j: int)
    requires printable_obj(v, i), 0 <= i <= j < v.len(),
    ensures match v[j] { ObjectFieldKind::Named { value, .. } => printable(value), ObjectFieldKind::Spread { value, .. } => printable(value) },
    decreases j - i,
{
    if i < j { lemma_printable_obj(v, i + 1, j); }
}
proof fn lemma_printable_arr(v: Seq<ArrayFieldKind>, i: int, j: int)
    requires printable_arr(v, i), 0 <= i <= j < v.len(),
    ensures match v[j] { ArrayFieldKind::Normal { value } => printable(value), ArrayFieldKind::Spread { value, .. } => printable(value), ArrayFieldKind::EmptySlot => true },
    decreases j - i,
{
    if i < j { lemma_printable_arr(v, i + 1, j); }
}

// ---- spec side of Value::stringify_write: the text of a static / bound / mixed value ----
// The template parser (Value::parse_until_before) builds, for text that mixes literal pieces and `{{ e }}` bindings,
// a left-leaning chain `Plus(Plus(piece, piece), piece)` whose pieces are `LitStr` (a literal piece) or
// `ToStringWithoutUndefined(e)` (a binding); a lone binding is `e` itself.  Printing is faithful iff each literal piece
// is written back as escaped text, each binding as `{{` e `}}`, in order -- and a `Plus` the user wrote inside one
// binding (`{{ 'a' + b }}`: an operand that is not a piece) stays one binding.  A value that is a single blank,
// non-empty string literal stays a binding: as bare text the parser would drop it.
spec fn is_mixed(e: Expression) -> bool
    decreases e,
{
    match e {
        Expression::ToStringWithoutUndefined { .. } | Expression::LitStr { .. } => true,
        Expression::Plus { left, right, .. } => is_mixed(*left) && is_mixed(*right),
        _ => false,
    }
}
spec fn bound(e: Expression, names: Seq<Seq<char>>, acc: Seq<char>) -> Seq<char> {
    emit(e, ExpressionLevel::Cond, names, acc + "{{"@) + "}}"@
}
spec fn split_out(e: Expression, names: Seq<Seq<char>>, acc: Seq<char>) -> Seq<char>
    decreases e,
{
    match e {
        Expression::LitStr { value, .. } => acc + esc_body(value@),
        Expression::ToStringWithoutUndefined { value, .. } => bound(*value, names, acc),
        Expression::Plus { left, right, .. } =>
            if is_mixed(*left) && is_mixed(*right) { split_out(*right, names, split_out(*left, names, acc)) } else { bound(e, names, acc) },
        _ => bound(e, names, acc),
    }
}
/// what split_expression can print: every binding it reaches is free of ToStringWithoutUndefined nodes
spec fn split_printable(e: Expression) -> bool
    decreases e,
{
    match e {
        Expression::LitStr { .. } => true,
        Expression::ToStringWithoutUndefined { value, .. } => printable(*value),
        Expression::Plus { left, right, .. } =>
            if is_mixed(*left) && is_mixed(*right) { split_printable(*left) && split_printable(*right) } else { printable(e) },
        _ => printable(e),
    }
}
spec fn value_printable(v: Value) -> bool {
    match v {
        Value::Static { .. } => true,
        Value::Dynamic { expression, .. } => split_printable(*expression),
    }
}
spec fn value_out(v: Value, names: Seq<Seq<char>>, acc: Seq<char>) -> Seq<char> {
    match v {
        Value::Static { value, .. } => acc + esc_body(value@),
        Value::Dynamic { expression, .. } =>
            if (*expression matches Expression::LitStr { value, .. } && value@.len() > 0 && blank(value@)) { bound(*expression, names, acc) }
            else { split_out(*expression, names, acc) },
    }
}
