// ---- CompactString equality: compact_str's `impl<T: AsRef<str> + ?Sized> PartialEq<T> for CompactString`
// ---- compares `self.as_str() == other.as_ref()`, i.e. the character sequences (ASSUMED)
impl<'a> PartialEq<&'a CompactString> for CompactString {
    #[verifier::external_body]
    fn eq(&self, other: &&'a CompactString) -> (r: bool)
    {
        self.inner == other.inner
    }
}
impl<'a> vstd::std_specs::cmp::PartialEqSpecImpl<&'a CompactString> for CompactString {
    open spec fn obeys_eq_spec() -> bool { true }
    open spec fn eq_spec(&self, other: &&'a CompactString) -> bool { self@ == other@ }
}
// ---- std iterator chains over a slice, as stand-ins (ASSUMED: exactly std's semantics of the chain) ----
/// `s.iter().enumerate().rev().find_map(|(i, x)| BODY)`: Enumerate<slice::Iter> is double-ended and exact-size, `rev()`
/// yields (len-1, &s[len-1]), .., (0, &s[0]); `find_map` calls the closure on them in that order and returns the first
/// `Some`.  So: the result is what the closure returned at the GREATEST index where it returned `Some`, every call at a
/// greater index returned `None`; `None` if every call returned `None`.  (The tuple parameter is passed as two arguments.)
#[verifier::external_body]
fn vx_enumerate_rev_find_map<T, R, F: Fn(usize, &T) -> Option<R>>(s: &[T], f: F) -> (r: Option<R>)
    requires forall|i: int| 0 <= i < s@.len() ==> f.requires((i as usize, &#[trigger] s@[i])),
    ensures
        match r {
            Some(v) => exists|i: int| 0 <= i < s@.len() && f.ensures((i as usize, &#[trigger] s@[i]), Some(v))
                && forall|j: int| i < j < s@.len() ==> f.ensures((j as usize, &#[trigger] s@[j]), None),
            None => forall|j: int| 0 <= j < s@.len() ==> f.ensures((j as usize, &#[trigger] s@[j]), None),
        },
{
    s.iter().enumerate().rev().find_map(|(i, x)| f(i, x))
}
/// `s.iter().enumerate().find_map(|(i, x)| BODY)` (no `rev()`): the closure is called on (0, &s[0]), (1, &s[1]), ..;
/// the result is what it returned at the SMALLEST index where it returned `Some`.
#[verifier::external_body]
fn vx_enumerate_find_map<T, R, F: Fn(usize, &T) -> Option<R>>(s: &[T], f: F) -> (r: Option<R>)
    requires forall|i: int| 0 <= i < s@.len() ==> f.requires((i as usize, &#[trigger] s@[i])),
    ensures
        match r {
            Some(v) => exists|i: int| 0 <= i < s@.len() && f.ensures((i as usize, &#[trigger] s@[i]), Some(v))
                && forall|j: int| 0 <= j < i ==> f.ensures((j as usize, &#[trigger] s@[j]), None),
            None => forall|j: int| 0 <= j < s@.len() ==> f.ensures((j as usize, &#[trigger] s@[j]), None),
        },
{
    s.iter().enumerate().find_map(|(i, x)| f(i, x))
}
/// #[derive(Clone)] of core::ops::Range<Idx> clones both fields (ASSUMED: that is what the derive expands to)
pub assume_specification<Idx: Clone> [<Range<Idx> as Clone>::clone] (r: &Range<Idx>) -> (o: Range<Idx>)
    ensures cloned(r.start, o.start), cloned(r.end, o.end);

/// ASSUMED (std docs of bool::then_some): `Some(t)` if the bool is true, `None` otherwise (the argument is evaluated eagerly)
pub assume_specification<T> [bool::then_some] (b: bool, t: T) -> (r: Option<T>)
    ensures r == (if b { Some(t) } else { None::<T> });

// ---- spec side, written from the property: "the nearest enclosing scope that introduces that name ... inner scopes
// ---- shadow outer ones"; the stack's LAST element is the innermost scope
/// the innermost scope of the stack that introduces `name` (searching from the END of the stack), if any
spec fn innermost(scopes: Seq<(CompactString, Range<Position>)>, name: Seq<char>) -> Option<int>
    decreases scopes.len(),
{
    if scopes.len() == 0 {
        None
    } else if scopes.last().0@ == name {
        Some(scopes.len() - 1)
    } else {
        innermost(scopes.drop_last(), name)
    }
}
/// what `innermost` means: the index it names introduces the name and no scope further in does; None iff no scope does
proof fn lemma_innermost(scopes: Seq<(CompactString, Range<Position>)>, name: Seq<char>)
    ensures
        match innermost(scopes, name) {
            Some(i) => 0 <= i < scopes.len() && scopes[i].0@ == name
                && forall|j: int| i < j < scopes.len() ==> (#[trigger] scopes[j]).0@ != name,
            None => forall|j: int| 0 <= j < scopes.len() ==> (#[trigger] scopes[j]).0@ != name,
        },
    decreases scopes.len(),
{
    if scopes.len() > 0 && scopes.last().0@ != name {
        lemma_innermost(scopes.drop_last(), name);
        let d = scopes.drop_last();
        assert forall|j: int| 0 <= j < d.len() implies d[j] == scopes[j] by {}
    }
}
/// the contract of the slice, from the property statement
spec fn lookup_post(old_e: Expression, new_e: Expression, scopes: Seq<(CompactString, Range<Position>)>, converted: bool) -> bool {
    match old_e {
        Expression::DataField { name, location } => match innermost(scopes, name@) {
            Some(i) => converted && new_e == (Expression::ScopeRef { location: location, index: i as usize }),
            None => !converted && new_e == old_e,
        },
        _ => !converted && new_e == old_e,
    }
}
/// scope `i` of the stack introduces `name`
spec fn introduces(scopes: Seq<(CompactString, Range<Position>)>, i: int, name: Seq<char>) -> bool {
    0 <= i < scopes.len() && scopes[i].0@ == name
}
/// the same contract with "innermost" spelled out by quantifiers (no recursive definition to trust): if some scope
/// introduces the name, the identifier becomes a reference to a scope that introduces it such that no scope further in
/// (greater index) does, with the identifier's own location; otherwise nothing changes
spec fn lookup_post_q(old_e: Expression, new_e: Expression, scopes: Seq<(CompactString, Range<Position>)>, converted: bool) -> bool {
    match old_e {
        Expression::DataField { name, location } =>
            if exists|i: int| introduces(scopes, i, name@) {
                converted && exists|i: int| #[trigger] introduces(scopes, i, name@)
                    && (forall|j: int| i < j ==> !introduces(scopes, j, name@))
                    && new_e == (Expression::ScopeRef { location: location, index: i as usize })
            } else {
                !converted && new_e == old_e
            },
        _ => !converted && new_e == old_e,
    }
}
/// the two formulations agree
proof fn lemma_lookup_post_q(old_e: Expression, new_e: Expression, scopes: Seq<(CompactString, Range<Position>)>, converted: bool)
    requires lookup_post(old_e, new_e, scopes, converted),
    ensures lookup_post_q(old_e, new_e, scopes, converted),
{
    if let Expression::DataField { name, location } = old_e {
        lemma_innermost(scopes, name@);
        match innermost(scopes, name@) {
            Some(i) => {
                assert(introduces(scopes, i, name@));
                assert forall|j: int| i < j implies !introduces(scopes, j, name@) by {
                    if j < scopes.len() { assert(scopes[j].0@ != name@); }
                }
            }
            None => {
                assert forall|i: int| !introduces(scopes, i, name@) by {
                    if 0 <= i < scopes.len() { assert(scopes[i].0@ != name@); }
                }
            }
        }
    }
}
