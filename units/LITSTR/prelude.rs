// ---- spec side of LITSTR: value of a WXML expression string literal (escape table as in ECMAScript:
// ---- \r \n \t \b \f \v \0, \xHH, \uHHHH; any other escaped character denotes itself) ----
spec fn hexv(c: char) -> int {
    if '0' <= c && c <= '9' { c as int - '0' as int }
    else if 'a' <= c && c <= 'f' { c as int - 'a' as int + 10 }
    else if 'A' <= c && c <= 'F' { c as int - 'A' as int + 10 }
    else { -1 }
}
spec fn hex_run(s: Seq<char>, i: int, n: int) -> int
    decreases n,
{
    if n <= 0 { 0 } else if i + n - 1 >= s.len() || hexv(s[i + n - 1]) < 0 || hex_run(s, i, n - 1) < 0 { -1 } else { hex_run(s, i, n - 1) * 16 + hexv(s[i + n - 1]) }
}
spec fn prepend(a: Seq<char>, o: Option<Seq<char>>) -> Option<Seq<char>> {
    match o { Some(t) => Some(a + t), None => None }
}
/// value of the literal body starting at s[i], up to the closing quote q; None: unterminated or an escape the
/// parser reports as illegal
spec fn lit_body(s: Seq<char>, i: int, q: char) -> Option<Seq<char>>
    decreases s.len() - i,
{
    if i < 0 || i >= s.len() { None }
    else if s[i] == q { Some(Seq::<char>::empty()) }
    else if s[i] == '\\' {
        if i + 1 >= s.len() { None } else {
            let e = s[i + 1];
            if e == 'r' { prepend(seq!['\r'], lit_body(s, i + 2, q)) }
            else if e == 'n' { prepend(seq!['\n'], lit_body(s, i + 2, q)) }
            else if e == 't' { prepend(seq!['\t'], lit_body(s, i + 2, q)) }
            else if e == 'b' { prepend(seq!['\u{8}'], lit_body(s, i + 2, q)) }
            else if e == 'f' { prepend(seq!['\u{c}'], lit_body(s, i + 2, q)) }
            else if e == 'v' { prepend(seq!['\u{b}'], lit_body(s, i + 2, q)) }
            else if e == '0' { prepend(seq!['\0'], lit_body(s, i + 2, q)) }
            else if e == 'x' {
                if hex_run(s, i + 2, 2) >= 0 { prepend(seq![hex_run(s, i + 2, 2) as char], lit_body(s, i + 4, q)) } else { None }
            }
            else if e == 'u' {
                if hex_run(s, i + 2, 4) >= 0 && is_scalar(hex_run(s, i + 2, 4)) { prepend(seq![hex_run(s, i + 2, 4) as char], lit_body(s, i + 6, q)) } else { None }
            }
            else { prepend(seq![e], lit_body(s, i + 2, q)) }
        }
    }
    else { prepend(seq![s[i]], lit_body(s, i + 1, q)) }
}
spec fn scan_frame(new: &ParseState, old: &ParseState) -> bool {
    new.wf() && new.whole_str == old.whole_str && new.auto@ == old.auto@ && old.warnings@.is_prefix_of(new.warnings@)
}
proof fn lemma_prepend_assoc(a: Seq<char>, c: char, o: Option<Seq<char>>)
    ensures prepend(a, prepend(seq![c], o)) == prepend(a.push(c), o),
{
    if o.is_some() { assert(a + (seq![c] + o.unwrap()) =~= a.push(c) + o.unwrap()); }
}
spec fn pow16(k: int) -> int
    decreases k,
{
    if k <= 0 { 1 } else { 16 * pow16(k - 1) }
}
proof fn lemma_pow16_small(k: int)
    requires 0 <= k <= 4,
    ensures pow16(k) <= 65536, pow16(k) >= 1,
{
    reveal_with_fuel(pow16, 6);
}
/// the parsed literal is a LitStr whose value is the decoded body that starts after the opening quote at `start`
spec fn lit_ok(e: Expression, s: Seq<char>, start: int) -> bool {
    0 <= start < s.len() && match e {
        Expression::LitStr { value, .. } => lit_body(s, start + 1, s[start]) == Some(value@),
        _ => false,
    }
}
spec fn all_hex_from(s: Seq<char>, i: int) -> bool { forall|k: int| i <= k < s.len() ==> hexv(#[trigger] s[k]) >= 0 }
/// a run of hex digits up to the end of input contains no closing quote: the literal is unterminated
proof fn lemma_hex_tail_unterminated(s: Seq<char>, i: int, q: char)
    requires all_hex_from(s, i), hexv(q) < 0, 0 <= i,
    ensures lit_body(s, i, q) == None::<Seq<char>>,
    decreases s.len() - i,
{
    if i < s.len() {
        assert(hexv(s[i]) >= 0);
        lemma_hex_tail_unterminated(s, i + 1, q);
    }
}
proof fn lemma_prepend_empty(o: Option<Seq<char>>)
    ensures prepend(Seq::<char>::empty(), o) == o,
{
    if o.is_some() { assert(Seq::<char>::empty() + o.unwrap() =~= o.unwrap()); }
}
proof fn lemma_prepend_done(a: Seq<char>)
    ensures prepend(a, Some(Seq::<char>::empty())) == Some(a),
{
    assert(a + Seq::<char>::empty() =~= a);
}

spec fn str_loc(e: Expression) -> Range<Position> {
    match e {
        Expression::LitStr { location, .. } => location,
        _ => arbitrary(),
    }
}
