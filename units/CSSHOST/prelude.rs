// ---- unit CSSHOST: stand-ins and spec side of the :host detection ----
impl<'i, 't, 'a> StepParser<'i, 't, 'a> {
    /// cssparser::Parser::expect_colon (through DerefMut): the next non-whitespace, non-comment token must be a colon (A5)
    #[verifier::external_body]
    fn expect_colon(&mut self) -> (r: Result<(), VxParseErr>)
        requires old(self).wf(),
        ensures final(self).wf(), final(self).items@ == old(self).items@,
            ({
                let j = first_non_ws(old(self).items@, old(self).cur@);
                &&& (j < old(self).items@.len() && old(self).items@[j].tok is Colon) ==> r.is_ok() && final(self).cur@ == j + 1
                &&& !(j < old(self).items@.len() && old(self).items@[j].tok is Colon) ==> r.is_err()
            }),
    { unimplemented!() }
    /// cssparser::Parser::new_custom_error (through Deref): builds an error at the current position
    #[verifier::external_body]
    fn new_custom_error(&self, e: ()) -> (r: VxParseErr)
    { unimplemented!() }
}
/// derived PartialEq of cssparser::Token
#[verifier::external_body]
fn vx_tok_ne(a: &Token, b: &Token) -> (r: bool)
    ensures r == (tokv(*a) != tokv(*b)),
{ unimplemented!() }
// Written from the property (C17): a rule is a :host rule when its prelude starts with `:host` (ASCII case-insensitive,
// as identifier or as function `:host(`); it is converted exactly when `:host` -- the identifier -- is the WHOLE prelude
// (nothing but whitespace up to the rule's `{`), and is dropped with a warning when it is combined with anything else.
spec fn host_name(n: Seq<char>) -> bool { lower(n) == lower("host"@) }
spec fn is_host_tok(t: TokV) -> bool { match t { TokV::Ident(n) => host_name(n), TokV::Function(n) => host_name(n), _ => false } }
spec fn all_ws(items: Seq<BItem>, a: int, b: int) -> bool { forall|i: int| a <= i < b ==> (#[trigger] items[i]).tok is WhiteSpace }
spec fn no_curly(items: Seq<BItem>, a: int, b: int) -> bool { forall|i: int| a <= i < b ==> !((#[trigger] items[i]).tok is CurlyBracketBlock) }
proof fn lemma_fnw_all(items: Seq<BItem>, c: int)
    requires 0 <= c,
    ensures all_ws(items, c, first_non_ws(items, c)), c <= first_non_ws(items, c) || c >= items.len(), first_non_ws(items, c) <= items.len(),
        first_non_ws(items, c) < items.len() ==> !(items[first_non_ws(items, c)].tok is WhiteSpace),
    decreases items.len() - c,
{
    if c < items.len() && items[c].tok is WhiteSpace {
        lemma_fnw_all(items, c + 1);
        assert forall|i: int| c <= i < first_non_ws(items, c) implies (#[trigger] items[i]).tok is WhiteSpace by { if i > c { } }
    }
}
