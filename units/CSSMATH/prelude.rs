// ---- spec side of CSSMATH: the CSS math functions (css-values-4 section 10), whose names are ASCII case-insensitive ----
spec fn is_math_name(n: Seq<char>) -> bool {
    n == "calc"@ || n == "min"@ || n == "max"@ || n == "clamp"@ || n == "round"@ || n == "mod"@ || n == "rem"@ || n == "sin"@ || n == "cos"@
    || n == "tan"@ || n == "asin"@ || n == "acos"@ || n == "atan"@ || n == "atan2"@ || n == "pow"@ || n == "sqrt"@ || n == "hypot"@ || n == "log"@
    || n == "exp"@ || n == "abs"@ || n == "sign"@
}
