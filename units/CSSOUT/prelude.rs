// ---- spec side of CSSOUT ----
spec fn out_wf(o: &StyleSheetOutput) -> bool { o.utf16_len as int == u16len(o.s@) }
spec fn sep_seq(b: bool) -> Seq<char> { if b { seq![' '] } else { Seq::<char>::empty() } }
spec fn name_of(src: Option<Token>) -> Option<Seq<char>> {
    match src { Some(t) => Some(css_text(t)), None => None }
}
/// what `append_token` must do (C08: a separator exactly when the serializer's table demands one; C19: one entry,
/// generated column = UTF-16 length of everything written before the token text, separator included)
spec fn token_appended(new: &StyleSheetOutput, old: &StyleSheetOutput, token: StepToken, src: Option<Token>) -> bool {
    let sep = needs_sep(old.prev_ser_type, ser_type(token.token));
    &&& new.s@ == old.s@ + sep_seq(sep) + out_text(token.token)
    &&& new.prev_ser_type == ser_type(token.token)
    &&& new.source_id == old.source_id
    &&& new.source_map.entries@ == old.source_map.entries@.push(MapEntry {
            dst_line: 0,
            dst_col: (u16len(old.s@) + if sep { 1int } else { 0int }) as u32,
            src_line: token.position.line,
            src_col: token.position.utf16_col,
            source: Some(old.source_id),
            name: name_of(src),
        })
    &&& out_wf(new)
}
proof fn lemma_u16len_push(s: Seq<char>, c: char)
    ensures u16len(s.push(c)) == u16len(s) + utf16_len(c),
{
    assert(s.push(c).drop_last() =~= s);
}
proof fn lemma_u16len_append(a: Seq<char>, b: Seq<char>)
    ensures u16len(a + b) == u16len(a) + u16len(b), u16len(b) >= 0,
    decreases b.len(),
{
    if b.len() == 0 {
        assert(a + b =~= a);
    } else {
        assert((a + b).drop_last() =~= a + b.drop_last());
        lemma_u16len_append(a, b.drop_last());
    }
}
proof fn lemma_boff_append(a: Seq<char>, b: Seq<char>, i: int)
    requires 0 <= i <= a.len(),
    ensures boff(a + b, i) == boff(a, i),
    decreases i,
{
    if i > 0 { lemma_boff_append(a, b, i - 1); }
}
/// the tail written after byte offset `start = |old|` is exactly what was appended
proof fn lemma_tail(old: Seq<char>, added: Seq<char>)
    ensures
        is_boundary(old + added, boff(old, old.len() as int)),
        forall|i: int| 0 <= i <= (old + added).len() && boff(old + added, i) == boff(old, old.len() as int) ==> (old + added).skip(i) == added,
{
    let all = old + added;
    lemma_boff_append(old, added, old.len() as int);
    assert forall|i: int| 0 <= i <= all.len() && boff(all, i) == boff(old, old.len() as int) implies all.skip(i) == added by {
        lemma_boff_strict(all, i, old.len() as int);
        assert(all.skip(old.len() as int) =~= added);
    }
}
/// boff is strictly monotone, hence injective
proof fn lemma_boff_strict(s: Seq<char>, i: int, j: int)
    requires 0 <= i, 0 <= j, boff(s, i) == boff(s, j),
    ensures i == j,
{
    if i < j { lemma_boff_lt(s, i, j); } else if j < i { lemma_boff_lt(s, j, i); }
}
proof fn lemma_boff_lt(s: Seq<char>, i: int, j: int)
    requires 0 <= i < j,
    ensures boff(s, i) < boff(s, j),
    decreases j,
{
    if j - 1 > i { lemma_boff_lt(s, i, j - 1); }
}
