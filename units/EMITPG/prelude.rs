// ---- writer stand-ins (need the extracted JsIdent) ----
impl VxDisp for JsIdent { closed spec fn disp(&self) -> Seq<char> { self.name@ } }
pub struct JsExprWriter { pub t: Ghost<Seq<char>> }
impl VxSink for JsExprWriter {
    open spec fn text(&self) -> Seq<char> { self.t@ }
    #[verifier::external_body]
    fn vx_w0(&mut self, f: &str) -> (r: Result<(), TmplError>) { unimplemented!() }
    #[verifier::external_body]
    fn vx_w1<A: VxDisp>(&mut self, f: &str, a: &A) -> (r: Result<(), TmplError>) { unimplemented!() }
    #[verifier::external_body]
    fn vx_w1n<A: VxDisp>(&mut self, f: &str, a: &A) -> (r: Result<(), TmplError>) { unimplemented!() }
    #[verifier::external_body]
    fn vx_w2<A: VxDisp, B: VxDisp>(&mut self, f: &str, a: &A, b: &B) -> (r: Result<(), TmplError>) { unimplemented!() }
}
pub uninterp spec fn priv_name(n: nat) -> Seq<char>;
/// JsFunctionScopeWriter as seen by the expression generator: the statements hoisted so far and the private-identifier counter
pub struct JsFunctionScopeWriter { pub stmts: Ghost<Seq<Seq<char>>>, pub next_priv: Ghost<nat> }
impl JsFunctionScopeWriter {
    #[verifier::external_body]
    fn gen_private_ident(&mut self) -> (r: JsIdent)
        ensures r.name@ == priv_name(old(self).next_priv@), final(self).next_priv@ == old(self).next_priv@ + 1, final(self).stmts@ == old(self).stmts@,
    { unimplemented!() }
    /// runs f on a fresh expression writer and appends what it wrote as one statement
    #[verifier::external_body]
    fn expr_stmt<R, F: FnOnce(&mut JsExprWriter) -> Result<R, TmplError>>(&mut self, f: F) -> (r: Result<R, TmplError>)
        requires forall|p: &mut JsExprWriter| p.t@ == Seq::<char>::empty() ==> f.requires((p,)),
        ensures
            final(self).next_priv@ == old(self).next_priv@,
            exists|p: &mut JsExprWriter| p.t@ == Seq::<char>::empty() && f.ensures((p,), r) && final(self).stmts@ == old(self).stmts@.push(final(p).t@),
    { unimplemented!() }
}

// ---- spec side of EMITPG: the JavaScript written for a binding expression, from ECMAScript's grammar ----
// JavaScript's binary operators form the same left-associative precedence chain as the template grammar
// (ECMA-262 13.6-13.13: Multiplicative > Additive > Shift > Relational(incl. instanceof) > Equality > BitAND > BitXOR
// > BitOR > LogicalAND > LogicalOR/Coalesce > Conditional).  The emitted text is transparent iff every operand is
// parenthesised exactly when the class of its emitted form is looser than its position accepts: own class on the
// left of a left-associative operator, the next tighter class on the right.
spec fn pred(l: ExpressionLevel) -> ExpressionLevel {
    match l {
        ExpressionLevel::Cond => ExpressionLevel::LogicOr,
        ExpressionLevel::LogicOr => ExpressionLevel::LogicAnd,
        ExpressionLevel::LogicAnd => ExpressionLevel::BitOr,
        ExpressionLevel::BitOr => ExpressionLevel::BitXor,
        ExpressionLevel::BitXor => ExpressionLevel::BitAnd,
        ExpressionLevel::BitAnd => ExpressionLevel::Eq,
        ExpressionLevel::Eq => ExpressionLevel::Comparison,
        ExpressionLevel::Comparison => ExpressionLevel::Shift,
        ExpressionLevel::Shift => ExpressionLevel::Plus,
        ExpressionLevel::Plus => ExpressionLevel::Multiply,
        ExpressionLevel::Multiply => ExpressionLevel::Unary,
        ExpressionLevel::Unary => ExpressionLevel::Member,
        ExpressionLevel::Member => ExpressionLevel::Lit,
        ExpressionLevel::Lit => ExpressionLevel::Lit,
    }
}
/// template operator -> (JavaScript precedence class, JavaScript lexeme of the SAME operator)
spec fn binop(e: Expression) -> Option<(ExpressionLevel, Seq<char>)> {
    match e {
        Expression::Multiply { .. } => Some((ExpressionLevel::Multiply, "*"@)),
        Expression::Divide { .. } => Some((ExpressionLevel::Multiply, "/"@)),
        Expression::Remainer { .. } => Some((ExpressionLevel::Multiply, "%"@)),
        Expression::Plus { .. } => Some((ExpressionLevel::Plus, "+"@)),
        Expression::Minus { .. } => Some((ExpressionLevel::Plus, "-"@)),
        Expression::LeftShift { .. } => Some((ExpressionLevel::Shift, "<<"@)),
        Expression::RightShift { .. } => Some((ExpressionLevel::Shift, ">>"@)),
        Expression::UnsignedRightShift { .. } => Some((ExpressionLevel::Shift, ">>>"@)),
        Expression::Lt { .. } => Some((ExpressionLevel::Comparison, "<"@)),
        Expression::Gt { .. } => Some((ExpressionLevel::Comparison, ">"@)),
        Expression::Lte { .. } => Some((ExpressionLevel::Comparison, "<="@)),
        Expression::Gte { .. } => Some((ExpressionLevel::Comparison, ">="@)),
        Expression::InstanceOf { .. } => Some((ExpressionLevel::Comparison, " instanceof "@)),
        Expression::Eq { .. } => Some((ExpressionLevel::Eq, "=="@)),
        Expression::Ne { .. } => Some((ExpressionLevel::Eq, "!="@)),
        Expression::EqFull { .. } => Some((ExpressionLevel::Eq, "==="@)),
        Expression::NeFull { .. } => Some((ExpressionLevel::Eq, "!=="@)),
        Expression::BitAnd { .. } => Some((ExpressionLevel::BitAnd, "&"@)),
        Expression::BitXor { .. } => Some((ExpressionLevel::BitXor, "^"@)),
        Expression::BitOr { .. } => Some((ExpressionLevel::BitOr, "|"@)),
        Expression::LogicAnd { .. } => Some((ExpressionLevel::LogicAnd, "&&"@)),
        Expression::LogicOr { .. } => Some((ExpressionLevel::LogicOr, "||"@)),
        _ => None,
    }
}
spec fn unop(e: Expression) -> Option<Seq<char>> {
    match e {
        Expression::Reverse { .. } => Some("!"@),
        Expression::BitReverse { .. } => Some("~"@),
        Expression::Positive { .. } => Some(" +"@),
        Expression::Negative { .. } => Some(" -"@),
        Expression::TypeOf { .. } => Some(" typeof "@),
        Expression::Void { .. } => Some(" void "@),
        _ => None,
    }
}
/// precedence class of the JavaScript text emitted for each form: an identifier is primary; `D.x`, `X(a).b`, `X(a)[i]`,
/// `P(f)(..)`, `Y(..)`, object/array literals and their `Object.assign(..)` / `[].concat(..)` forms are member/call
/// expressions; `$t?a:b` and the lowering of `??` (`$t!=null?$t:b`) are conditional expressions
spec fn jlvl(e: Expression) -> ExpressionLevel {
    if binop(e).is_some() { binop(e).unwrap().0 }
    else if unop(e).is_some() { ExpressionLevel::Unary }
    else {
        match e {
            Expression::Cond { .. } | Expression::NullishCoalescing { .. } => ExpressionLevel::Cond,
            Expression::ScopeRef { .. } | Expression::LitUndefined { .. } | Expression::LitNull { .. } | Expression::LitStr { .. }
            | Expression::LitInt { .. } | Expression::LitFloat { .. } | Expression::LitBool { .. } => ExpressionLevel::Lit,
            _ => ExpressionLevel::Member,
        }
    }
}
spec fn gt(a: ExpressionLevel, b: ExpressionLevel) -> bool { level_rank(a) > level_rank(b) }

/// every ScopeRef inside e names an existing scope variable
spec fn scoped(e: Expression, n: int) -> bool
    decreases e,
{
    match e {
        Expression::ScopeRef { index, .. } => (index as int) < n,
        Expression::DataField { .. } | Expression::LitUndefined { .. } | Expression::LitNull { .. }
        | Expression::LitStr { .. } | Expression::LitInt { .. } | Expression::LitFloat { .. } | Expression::LitBool { .. } => true,
        Expression::ToStringWithoutUndefined { value, .. } => scoped(*value, n),
        Expression::LitObj { fields, .. } => scoped_obj(fields@, 0, n),
        Expression::LitArr { fields, .. } => scoped_arr(fields@, 0, n),
        Expression::StaticMember { obj, .. } => scoped(*obj, n),
        Expression::DynamicMember { obj, field_name, .. } => scoped(*obj, n) && scoped(*field_name, n),
        Expression::FuncCall { func, args, .. } => scoped(*func, n) && scoped_list(args@, 0, n),
        Expression::Reverse { value, .. } | Expression::BitReverse { value, .. } | Expression::Positive { value, .. }
        | Expression::Negative { value, .. } | Expression::TypeOf { value, .. } | Expression::Void { value, .. } => scoped(*value, n),
        Expression::Multiply { left, right, .. } | Expression::Divide { left, right, .. } | Expression::Remainer { left, right, .. }
        | Expression::Plus { left, right, .. } | Expression::Minus { left, right, .. } | Expression::LeftShift { left, right, .. }
        | Expression::RightShift { left, right, .. } | Expression::UnsignedRightShift { left, right, .. }
        | Expression::Lt { left, right, .. } | Expression::Gt { left, right, .. } | Expression::Lte { left, right, .. }
        | Expression::Gte { left, right, .. } | Expression::InstanceOf { left, right, .. } | Expression::Eq { left, right, .. }
        | Expression::Ne { left, right, .. } | Expression::EqFull { left, right, .. } | Expression::NeFull { left, right, .. }
        | Expression::BitAnd { left, right, .. } | Expression::BitXor { left, right, .. } | Expression::BitOr { left, right, .. }
        | Expression::LogicAnd { left, right, .. } | Expression::LogicOr { left, right, .. }
        | Expression::NullishCoalescing { left, right, .. } => scoped(*left, n) && scoped(*right, n),
        Expression::Cond { cond, true_br, false_br, .. } => scoped(*cond, n) && scoped(*true_br, n) && scoped(*false_br, n),
    }
}
spec fn scoped_list(v: Seq<Expression>, i: int, n: int) -> bool
    decreases v, v.len() - i,
{
    if 0 <= i < v.len() { scoped(v[i], n) && scoped_list(v, i + 1, n) } else { true }
}
spec fn scoped_obj(v: Seq<ObjectFieldKind>, i: int, n: int) -> bool
    decreases v, v.len() - i,
{
    if 0 <= i < v.len() {
        (match v[i] { ObjectFieldKind::Named { value, .. } => scoped(value, n), ObjectFieldKind::Spread { value, .. } => scoped(value, n) }) && scoped_obj(v, i + 1, n)
    } else { true }
}
spec fn scoped_arr(v: Seq<ArrayFieldKind>, i: int, n: int) -> bool
    decreases v, v.len() - i,
{
    if 0 <= i < v.len() {
        (match v[i] { ArrayFieldKind::Normal { value } => scoped(value, n), ArrayFieldKind::Spread { value, .. } => scoped(value, n), ArrayFieldKind::EmptySlot => true }) && scoped_arr(v, i + 1, n)
    } else { true }
}

/// generator state: the value text written so far, the statements hoisted in front of it, the private-identifier counter
pub struct PgSt { pub text: Seq<char>, pub stmts: Seq<Seq<char>>, pub next: nat }
spec fn wr(st: PgSt, t: Seq<char>) -> PgSt { PgSt { text: st.text + t, ..st } }
spec fn var_name(vars: Seq<Seq<char>>, i: int) -> Seq<char> { if 0 <= i < vars.len() { vars[i] } else { Seq::<char>::empty() } }
/// `var $t=<e>` hoisted in front: allocates $t, evaluates e (class Cond) into a fresh buffer, appends the statement; returns ($t, state)
spec fn hoist(e: Expression, vars: Seq<Seq<char>>, st: PgSt) -> (Seq<char>, PgSt)
    decreases e, 2int,
{
    let ident = priv_name(st.next);
    let inner = pg(e, ExpressionLevel::Cond, vars, PgSt { text: Seq::<char>::empty(), stmts: st.stmts, next: st.next + 1 });
    (ident, PgSt { text: st.text, stmts: inner.stmts.push(fmt2("var {}={}"@, ident, inner.text)), next: inner.next })
}
/// the state after writing e in a position that accepts JavaScript forms up to class `allow`
spec fn pg(e: Expression, allow: ExpressionLevel, vars: Seq<Seq<char>>, st: PgSt) -> PgSt
    decreases e, 1int,
{
    if gt(jlvl(e), allow) { wr(pg_body(e, vars, wr(st, fmt0("("@))), fmt0(")"@)) } else { pg_body(e, vars, st) }
}
spec fn pg_body(e: Expression, vars: Seq<Seq<char>>, st: PgSt) -> PgSt
    decreases e, 0int,
{
    match e {
        Expression::ScopeRef { index, .. } => wr(st, fmt1("{}"@, var_name(vars, index as int))),
        Expression::DataField { name, .. } => wr(st, fmt1("D.{}"@, name@)),
        Expression::ToStringWithoutUndefined { value, .. } => wr(pg(*value, ExpressionLevel::Cond, vars, wr(st, fmt0("Y("@))), fmt0(")"@)),
        Expression::LitUndefined { .. } => wr(st, fmt0("undefined"@)),
        Expression::LitNull { .. } => wr(st, fmt0("null"@)),
        Expression::LitStr { value, .. } => wr(st, fmt1("{}"@, js_lit(value@))),
        Expression::LitInt { value, .. } => wr(st, fmt1("{}"@, display_i64(value))),
        Expression::LitFloat { value, .. } => wr(st, fmt1("{}"@, lit_float(value))),
        Expression::LitBool { value, .. } => wr(st, fmt1("{}"@, if value { "true"@ } else { "false"@ })),
        Expression::LitObj { fields, .. } => {
            let a = obj_upto(fields@, fields@.len() as int, vars, ObjAcc { st: PgSt { text: Seq::<char>::empty(), ..st }, sep: false, assign: false });
            PgSt { text: st.text + fmt1(if a.assign { "Object.assign({{{}}})"@ } else { "{{{}}}"@ }, a.st.text), stmts: a.st.stmts, next: a.st.next }
        }
        Expression::LitArr { fields, .. } => {
            let a = arr_upto(fields@, fields@.len() as int, vars, ObjAcc { st: PgSt { text: Seq::<char>::empty(), ..st }, sep: false, assign: false });
            PgSt { text: st.text + fmt1(if a.assign { "[].concat([{}])"@ } else { "[{}]"@ }, a.st.text), stmts: a.st.stmts, next: a.st.next }
        }
        // null-safe member access: X(obj).name
        Expression::StaticMember { obj, field_name, .. } => wr(pg(*obj, ExpressionLevel::Cond, vars, wr(st, fmt0("X("@))), fmt1(").{}"@, field_name@)),
        // X(obj)[$i] with `var $i=<index>` hoisted
        Expression::DynamicMember { obj, field_name, .. } => {
            let (ident, s1) = hoist(*field_name, vars, st);
            wr(pg(*obj, ExpressionLevel::Cond, vars, wr(s1, fmt0("X("@))), fmt1(")[{}]"@, ident))
        }
        // plain-function call through the callable-or-noop helper: P(f)(a,b,..)
        Expression::FuncCall { func, args, .. } =>
            wr(list_upto(args@, args@.len() as int, vars, wr(pg(*func, ExpressionLevel::Cond, vars, wr(st, fmt0("P("@))), fmt0(")("@))), fmt0(")"@)),
        Expression::Reverse { value, .. } | Expression::BitReverse { value, .. } | Expression::Positive { value, .. }
        | Expression::Negative { value, .. } | Expression::TypeOf { value, .. } | Expression::Void { value, .. } =>
            pg(*value, ExpressionLevel::Unary, vars, wr(st, fmt0(unop(e).unwrap()))),
        Expression::Multiply { left, right, .. } | Expression::Divide { left, right, .. } | Expression::Remainer { left, right, .. }
        | Expression::Plus { left, right, .. } | Expression::Minus { left, right, .. } | Expression::LeftShift { left, right, .. }
        | Expression::RightShift { left, right, .. } | Expression::UnsignedRightShift { left, right, .. }
        | Expression::Lt { left, right, .. } | Expression::Gt { left, right, .. } | Expression::Lte { left, right, .. }
        | Expression::Gte { left, right, .. } | Expression::InstanceOf { left, right, .. } | Expression::Eq { left, right, .. }
        | Expression::Ne { left, right, .. } | Expression::EqFull { left, right, .. } | Expression::NeFull { left, right, .. }
        | Expression::BitAnd { left, right, .. } | Expression::BitXor { left, right, .. } | Expression::BitOr { left, right, .. }
        | Expression::LogicAnd { left, right, .. } | Expression::LogicOr { left, right, .. } =>
            pg(*right, pred(binop(e).unwrap().0), vars, wr(pg(*left, binop(e).unwrap().0, vars, st), fmt0(binop(e).unwrap().1))),
        // a ?? b  ==>  var $t=a  ...  $t!=null?$t:b   (nullish test, not truthiness)
        Expression::NullishCoalescing { left, right, .. } => {
            let (ident, s1) = hoist(*left, vars, st);
            pg(*right, ExpressionLevel::Cond, vars, wr(s1, fmt1n("{ident}!=null?{ident}:"@, ident)))
        }
        // c ? a : b  ==>  var $t=c  ...  $t?a:b
        Expression::Cond { cond, true_br, false_br, .. } => {
            let (ident, s1) = hoist(*cond, vars, st);
            pg(*false_br, ExpressionLevel::Cond, vars, wr(pg(*true_br, ExpressionLevel::Cond, vars, wr(s1, fmt1("{}?"@, ident))), fmt0(":"@)))
        }
    }
}
spec fn sepw(k: int, st: PgSt) -> PgSt { if k > 0 { wr(st, fmt0(","@)) } else { st } }
spec fn list_upto(v: Seq<Expression>, k: int, vars: Seq<Seq<char>>, st: PgSt) -> PgSt
    decreases v, k,
{
    if k <= 0 || k > v.len() { st } else { pg(v[k - 1], ExpressionLevel::Cond, vars, sepw(k - 1, list_upto(v, k - 1, vars, st))) }
}
/// fold state of the object / array literal loops: buffer state, "a comma is due before the next item", "a spread was seen"
pub struct ObjAcc { pub st: PgSt, pub sep: bool, pub assign: bool }
spec fn obj_field(f: ObjectFieldKind, vars: Seq<Seq<char>>, a: ObjAcc) -> ObjAcc
    decreases f,
{
    match f {
        // name:value   (comma first when an item precedes)
        ObjectFieldKind::Named { name, value, .. } => {
            let s0 = if a.sep { wr(a.st, fmt0(","@)) } else { a.st };
            ObjAcc { st: pg(value, ExpressionLevel::Cond, vars, wr(s0, fmt1("{}:"@, name@))), sep: true, assign: a.assign }
        }
        // ...value  ==>  close the current literal, pass X(value) as the next Object.assign argument, reopen
        ObjectFieldKind::Spread { value, .. } =>
            ObjAcc { st: wr(pg(value, ExpressionLevel::Cond, vars, wr(a.st, fmt0("}},X("@))), fmt0("),{{"@)), sep: false, assign: true },
    }
}
spec fn obj_upto(v: Seq<ObjectFieldKind>, k: int, vars: Seq<Seq<char>>, a: ObjAcc) -> ObjAcc
    decreases v, k,
{
    if k <= 0 || k > v.len() { a } else { obj_field(v[k - 1], vars, obj_upto(v, k - 1, vars, a)) }
}
spec fn arr_field(f: ArrayFieldKind, vars: Seq<Seq<char>>, a: ObjAcc) -> ObjAcc
    decreases f,
{
    match f {
        ArrayFieldKind::Normal { value } => {
            let s0 = if a.sep { wr(a.st, fmt0(","@)) } else { a.st };
            ObjAcc { st: pg(value, ExpressionLevel::Cond, vars, s0), sep: true, assign: a.assign }
        }
        // ...value  ==>  close the current array, pass value as the next concat argument, reopen
        ArrayFieldKind::Spread { value, .. } =>
            ObjAcc { st: wr(pg(value, ExpressionLevel::Cond, vars, wr(a.st, fmt0("],"@))), fmt0(",["@)), sep: false, assign: true },
        // a hole is an elision: the comma that ends it (after the separator that is due, if any)
        ArrayFieldKind::EmptySlot => {
            let s0 = if a.sep { wr(a.st, fmt0(","@)) } else { a.st };
            ObjAcc { st: wr(s0, fmt0(","@)), sep: false, assign: a.assign }
        }
    }
}
spec fn arr_upto(v: Seq<ArrayFieldKind>, k: int, vars: Seq<Seq<char>>, a: ObjAcc) -> ObjAcc
    decreases v, k,
{
    if k <= 0 || k > v.len() { a } else { arr_field(v[k - 1], vars, arr_upto(v, k - 1, vars, a)) }
}
spec fn vars_of(scopes: Seq<ScopeVar>) -> Seq<Seq<char>> { scopes.map_values(|s: ScopeVar| s.var.name@) }
spec fn st_of(value: Seq<char>, w: &JsFunctionScopeWriter) -> PgSt { PgSt { text: value, stmts: w.stmts@, next: w.next_priv@ } }
proof fn lemma_rank_bounds(l: ExpressionLevel)
    ensures 0 <= level_rank(l) <= level_rank(ExpressionLevel::Cond),
{
}
proof fn lemma_scoped_list(v: Seq<Expression>, i: int, j: int, n: int)
    requires scoped_list(v, i, n), 0 <= i <= j < v.len(),
    ensures scoped(v[j], n),
    decreases j - i,
{
    if i < j { lemma_scoped_list(v, i + 1, j, n); }
}
proof fn lemma_scoped_obj(v: Seq<ObjectFieldKind>, i: int, j: int, n: int)
    requires scoped_obj(v, i, n), 0 <= i <= j < v.len(),
    ensures match v[j] { ObjectFieldKind::Named { value, .. } => scoped(value, n), ObjectFieldKind::Spread { value, .. } => scoped(value, n) },
    decreases j - i,
{
    if i < j { lemma_scoped_obj(v, i + 1, j, n); }
}
proof fn lemma_scoped_arr(v: Seq<ArrayFieldKind>, i: int, j: int, n: int)
    requires scoped_arr(v, i, n), 0 <= i <= j < v.len(),
    ensures match v[j] { ArrayFieldKind::Normal { value } => scoped(value, n), ArrayFieldKind::Spread { value, .. } => scoped(value, n), ArrayFieldKind::EmptySlot => true },
    decreases j - i,
{
    if i < j { lemma_scoped_arr(v, i + 1, j, n); }
}
