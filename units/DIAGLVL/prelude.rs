// ---- spec side of DIAGLVL.  Levels as integers: Note 1 < Warn 2 < Error 3 < Fatal 4 (the declaration order of ParseErrorLevel).
// doc_level: the documented level of every diagnostic kind (A2).  The structural defects the property names:
//   missing end tag -> MissingEndTag (Warn); unterminated tag -> IncompleteTag (Fatal); unterminated `{{` -> MissingExpressionEnd (Fatal);
//   trailing garbage in a binding -> UnexpectedExpressionCharacter (Fatal); unknown wx: directive / attribute prefix ->
//   InvalidAttributePrefix (Warn); duplicated attribute -> DuplicatedAttribute (Warn); children under a childless element ->
//   ChildNodesNotAllowed (Error); missing src / module / is -> MissingSourcePath, MissingModuleName (Error) ----
spec fn lvl(l: ParseErrorLevel) -> int {
    match l { ParseErrorLevel::Note => 1, ParseErrorLevel::Warn => 2, ParseErrorLevel::Error => 3, ParseErrorLevel::Fatal => 4 }
}
spec fn doc_level(k: ParseErrorKind) -> int {
    match k {
        ParseErrorKind::UnexpectedCharacter => 4, ParseErrorKind::UnexpectedExpressionCharacter => 4, ParseErrorKind::UnknownMetaTag => 1,
        ParseErrorKind::MissingExpressionEnd => 4, ParseErrorKind::IllegalEntity => 3, ParseErrorKind::IncompleteTag => 4,
        ParseErrorKind::MissingEndTag => 2, ParseErrorKind::IllegalNamePrefix => 2, ParseErrorKind::InvalidAttributePrefix => 2,
        ParseErrorKind::InvalidAttributeName => 2, ParseErrorKind::InvalidAttributeValue => 1, ParseErrorKind::InvalidAttribute => 2,
        ParseErrorKind::DuplicatedAttribute => 2, ParseErrorKind::DuplicatedName => 1, ParseErrorKind::AvoidUppercaseLetters => 1,
        ParseErrorKind::UnexpectedWhitespace => 1, ParseErrorKind::MissingAttributeValue => 1, ParseErrorKind::DataBindingNotAllowed => 1,
        ParseErrorKind::InvalidIdentifier => 4, ParseErrorKind::InvalidScopeName => 1, ParseErrorKind::ChildNodesNotAllowed => 3,
        ParseErrorKind::IllegalEscapeSequence => 3, ParseErrorKind::IncompleteConditionExpression => 4, ParseErrorKind::UnmatchedBracket => 4,
        ParseErrorKind::UnmatchedParenthesis => 4, ParseErrorKind::MissingModuleName => 3, ParseErrorKind::MissingSourcePath => 3,
        ParseErrorKind::UnsupportedSyntax => 3, ParseErrorKind::ShouldQuoted => 2, ParseErrorKind::EmptyExpression => 2,
        ParseErrorKind::InvalidEndTag => 2,
    }
}
