// ---- spec side of CSSTR ----
spec fn is_opener(t: TokV) -> bool { t is CurlyBracketBlock || t is SquareBracketBlock || t is ParenthesisBlock || t is Function }
spec fn closer_of(t: TokV) -> TokV {
    match t { TokV::CurlyBracketBlock => TokV::CloseCurlyBracket, TokV::SquareBracketBlock => TokV::CloseSquareBracket, _ => TokV::CloseParenthesis }
}
spec fn emit_of(token: StepToken, src: Option<Token>, keep: bool) -> OutOp {
    OutOp::Tok(Emit { tok: tokv(token.token), pos: token.position, src: opt_tokv(src), keep_space: keep })
}
impl StyleSheetTransformer {
    /// the output currently written to
    spec fn cur(&self) -> StyleSheetOutput { if self.using_low_priority { self.low_priority_output } else { self.normal_output } }
    /// `self` is `old` with one more operation on the current output and nothing else changed
    spec fn pushed(&self, old: &Self, op: OutOp) -> bool {
        &&& self.using_low_priority == old.using_low_priority && self.options == old.options && self.path == old.path
        &&& self.warnings == old.warnings && self.cur_at_rule_stacks == old.cur_at_rule_stacks
        &&& self.cur().ops@ == old.cur().ops@.push(op)
        &&& (old.using_low_priority ==> self.normal_output == old.normal_output)
        &&& (!old.using_low_priority ==> self.low_priority_output == old.low_priority_output)
    }
}
/// the at-rule wrappers opened in the low-priority output: `prelude{` for every enclosing at-rule, outermost first
spec fn opens(stack: Seq<String>, k: int) -> Seq<OutOp>
    decreases k,
{
    if k <= 0 { Seq::empty() } else { opens(stack, k - 1).push(OutOp::Raw(stack[k - 1]@)).push(OutOp::Raw(seq!['{'])) }
}
spec fn closes(k: int) -> Seq<OutOp>
    decreases k,
{
    if k <= 0 { Seq::empty() } else { closes(k - 1).push(OutOp::Raw(seq!['}'])) }
}
// ---- the tail of the @import rewrite (C18) ----
/// the closers of the wrapper blocks, innermost (last pushed) first
spec fn rev_closes(stack: Seq<StepToken<'static>>, k: int) -> Seq<OutOp>
    decreases k,
{
    if k <= 0 || k > stack.len() { Seq::empty() } else { rev_closes(stack, k - 1).push(emit_of(stack[stack.len() - k], None, false)) }
}
