// ---- spec side of ELSCOPE (C05): which scope stack each binding value / child is resolved against ----
/// a binding value was resolved against exactly the stack `sc` (static values have nothing to resolve)
/// `dis` (C07): the value sits where the binding map cannot reach (structural position or inside a dynamic subtree):
/// then it gets NO binding-map keys (its fields were disabled instead); otherwise it gets its keys
spec fn val_ok(v: Value, sc: Seq<Seq<char>>, dis: bool) -> bool {
    match v {
        Value::Dynamic { expression, binding_map_keys, .. } => expression.resolved@ == Some(sc) && binding_map_keys.is_some() == !dis,
        Value::Static { .. } => true,
    }
}
/// as the parser leaves a value: no binding-map keys yet
spec fn val_fresh(v: Value) -> bool {
    match v { Value::Dynamic { binding_map_keys, .. } => binding_map_keys is None, Value::Static { .. } => true }
}
spec fn oval_ok(v: Option<Value>, sc: Seq<Seq<char>>, dis: bool) -> bool {
    match v { Some(x) => val_ok(x, sc, dis), None => true }
}
spec fn pval_ok(v: Option<(Range<Position>, Value)>, sc: Seq<Seq<char>>, dis: bool) -> bool {
    match v { Some(x) => val_ok(x.1, sc, dis), None => true }
}
spec fn oval_fresh(v: Option<Value>) -> bool { match v { Some(x) => val_fresh(x), None => true } }
spec fn pval_fresh(v: Option<(Range<Position>, Value)>) -> bool { match v { Some(x) => val_fresh(x.1), None => true } }
spec fn attrs_ok(s: Seq<Attribute>, sc: Seq<Seq<char>>, dis: bool) -> bool {
    forall|i: int| 0 <= i < s.len() ==> oval_ok(#[trigger] s[i].value, sc, dis)
}
spec fn attrs_fresh(s: Seq<Attribute>) -> bool {
    forall|i: int| 0 <= i < s.len() ==> oval_fresh(#[trigger] s[i].value)
}
spec fn nattrs_ok(s: Seq<NormalAttribute>, sc: Seq<Seq<char>>, dis: bool) -> bool {
    forall|i: int| 0 <= i < s.len() ==> oval_ok(#[trigger] s[i].value, sc, dis)
}
spec fn nattrs_fresh(s: Seq<NormalAttribute>) -> bool {
    forall|i: int| 0 <= i < s.len() ==> oval_fresh(#[trigger] s[i].value)
}
spec fn evs_ok(s: Seq<EventBinding>, sc: Seq<Seq<char>>, dis: bool) -> bool {
    forall|i: int| 0 <= i < s.len() ==> oval_ok(#[trigger] s[i].value, sc, dis)
}
spec fn evs_fresh(s: Seq<EventBinding>) -> bool {
    forall|i: int| 0 <= i < s.len() ==> oval_fresh(#[trigger] s[i].value)
}
spec fn common_ok(c: CommonElementAttributes, sc: Seq<Seq<char>>, dis: bool) -> bool {
    &&& pval_ok(c.id, sc, dis)
    &&& pval_ok(c.slot, sc, dis)
    &&& evs_ok(c.event_bindings@, sc, dis)
    &&& attrs_ok(c.data@, sc, dis)
    &&& attrs_ok(c.marks@, sc, dis)
}
spec fn common_fresh(c: CommonElementAttributes) -> bool {
    pval_fresh(c.id) && pval_fresh(c.slot) && evs_fresh(c.event_bindings@) && attrs_fresh(c.data@) && attrs_fresh(c.marks@)
}
spec fn class_ok(c: ClassAttribute, sc: Seq<Seq<char>>, dis: bool) -> bool {
    match c { ClassAttribute::String(_, v) => val_ok(v, sc, dis), _ => true }
}
spec fn style_ok(c: StyleAttribute, sc: Seq<Seq<char>>, dis: bool) -> bool {
    match c { StyleAttribute::String(_, v) => val_ok(v, sc, dis), _ => true }
}
spec fn class_fresh(c: ClassAttribute) -> bool { match c { ClassAttribute::String(_, v) => val_fresh(v), _ => true } }
spec fn style_fresh(c: StyleAttribute) -> bool { match c { StyleAttribute::String(_, v) => val_fresh(v), _ => true } }
spec fn branch_vals_ok(s: Seq<(Range<Position>, Value, Vec<Node>)>, sc: Seq<Seq<char>>) -> bool {
    forall|i: int| 0 <= i < s.len() ==> val_ok((#[trigger] s[i]).1, sc, true)
}
spec fn branch_vals_fresh(s: Seq<(Range<Position>, Value, Vec<Node>)>) -> bool {
    forall|i: int| 0 <= i < s.len() ==> val_fresh((#[trigger] s[i]).1)
}
/// every binding value that belongs to the element itself (not to its children).  `dis`: the element is inside a
/// dynamic subtree.  Structural values (the slot of a <block>, the wx:for list, wx:if conditions, template is/data,
/// slot name and slot values) are out of the binding map's reach wherever they occur.
spec fn values_ok(k: ElementKind, sc: Seq<Seq<char>>, dis: bool) -> bool {
    match k {
        ElementKind::Normal { attributes, class, style, change_attributes, common, .. } =>
            nattrs_ok(attributes@, sc, dis) && class_ok(class, sc, dis) && style_ok(style, sc, dis) && attrs_ok(change_attributes@, sc, dis) && common_ok(common, sc, dis),
        ElementKind::Pure { slot, .. } => pval_ok(slot, sc, true),
        ElementKind::For { list, .. } => val_ok(list.1, sc, true),
        ElementKind::If { branches, .. } => branch_vals_ok(branches@, sc),
        ElementKind::TemplateRef { target, data } => val_ok(target.1, sc, true) && val_ok(data.1, sc, true),
        ElementKind::Slot { name, values, common } => val_ok(name.1, sc, true) && attrs_ok(values@, sc, true) && common_ok(common, sc, dis),
        ElementKind::Include { .. } => true,
    }
}
spec fn values_fresh(k: ElementKind) -> bool {
    match k {
        ElementKind::Normal { attributes, class, style, change_attributes, common, .. } =>
            nattrs_fresh(attributes@) && class_fresh(class) && style_fresh(style) && attrs_fresh(change_attributes@) && common_fresh(common),
        ElementKind::Pure { slot, .. } => pval_fresh(slot),
        ElementKind::For { list, .. } => val_fresh(list.1),
        ElementKind::If { branches, .. } => branch_vals_fresh(branches@),
        ElementKind::TemplateRef { target, data } => val_fresh(target.1) && val_fresh(data.1),
        ElementKind::Slot { name, values, common } => val_fresh(name.1) && attrs_fresh(values@) && common_fresh(common),
        ElementKind::Include { .. } => true,
    }
}
/// wx:for, wx:if, template-is, include and slot start a subtree the binding map cannot reach
spec fn self_dynamic(k: ElementKind) -> bool { !(k is Normal || k is Pure) }
spec fn sv_names(s: Seq<StaticAttribute>) -> Seq<Seq<char>> {
    Seq::new(s.len(), |i: int| s[i].value.name@)
}
/// the `slot:` value names an element introduces, in attribute order
spec fn slot_names(k: ElementKind) -> Seq<Seq<char>> {
    match k {
        ElementKind::Normal { common, .. } => sv_names(common.slot_value_refs@),
        ElementKind::Slot { common, .. } => sv_names(common.slot_value_refs@),
        ElementKind::Pure { slot_value_refs, .. } => sv_names(slot_value_refs@),
        _ => Seq::empty(),
    }
}
/// THE scoping contract (property C05): the element's own values see the enclosing stack plus its slot values; the
/// children of a wx:for additionally see item, then index (the list expression does not); every other child sees
/// what the element's values see; nothing an element pushes survives it (siblings get the same `sc`).
spec fn node_ok(n: Node, sc: Seq<Seq<char>>, dis: bool) -> bool
    decreases n,
{
    match n {
        Node::Text(v) => val_ok(v, sc, dis),
        Node::Element(e) => el_ok(e, sc, dis),
        _ => true,
    }
}
spec fn el_ok(e: Element, sc: Seq<Seq<char>>, dis: bool) -> bool
    decreases e,
{
    let sc1 = sc + slot_names(e.kind);
    let d1 = dis || self_dynamic(e.kind);
    values_ok(e.kind, sc1, d1) && match e.kind {
        ElementKind::Normal { children, .. } => nodes_ok(children@, sc1, d1),
        ElementKind::Pure { children, .. } => nodes_ok(children@, sc1, d1),
        ElementKind::For { children, item_name, index_name, .. } => nodes_ok(children@, sc1.push(item_name.1.name@).push(index_name.1.name@), d1),
        ElementKind::If { branches, else_branch } => branches_ok(branches@, sc1, d1) && (match else_branch { Some(x) => nodes_ok(x.1@, sc1, d1), None => true }),
        _ => true,
    }
}
spec fn nodes_ok(s: Seq<Node>, sc: Seq<Seq<char>>, dis: bool) -> bool
    decreases s,
{
    forall|i: int| 0 <= i < s.len() ==> node_ok(#[trigger] s[i], sc, dis)
}
spec fn branches_ok(s: Seq<(Range<Position>, Value, Vec<Node>)>, sc: Seq<Seq<char>>, dis: bool) -> bool
    decreases s,
{
    forall|i: int| 0 <= i < s.len() ==> nodes_ok((#[trigger] s[i]).2@, sc, dis)
}
/// the tree as the parser leaves it: no value has binding-map keys yet
spec fn node_fresh(n: Node) -> bool
    decreases n,
{
    match n { Node::Text(v) => val_fresh(v), Node::Element(e) => el_fresh(e), _ => true }
}
spec fn el_fresh(e: Element) -> bool
    decreases e,
{
    values_fresh(e.kind) && match e.kind {
        ElementKind::Normal { children, .. } => nodes_fresh(children@),
        ElementKind::Pure { children, .. } => nodes_fresh(children@),
        ElementKind::For { children, .. } => nodes_fresh(children@),
        ElementKind::If { branches, else_branch } => branches_fresh(branches@) && (match else_branch { Some(x) => nodes_fresh(x.1@), None => true }),
        _ => true,
    }
}
spec fn nodes_fresh(s: Seq<Node>) -> bool
    decreases s,
{
    forall|i: int| 0 <= i < s.len() ==> node_fresh(#[trigger] s[i])
}
spec fn branches_fresh(s: Seq<(Range<Position>, Value, Vec<Node>)>) -> bool
    decreases s,
{
    forall|i: int| 0 <= i < s.len() ==> nodes_fresh((#[trigger] s[i]).2@)
}
/// what every function of the analysis leaves alone
spec fn sas_frame(new: &ScopeAnalyzeState, old: &ScopeAnalyzeState) -> bool {
    new.scopes@ == old.scopes@ && new.inside_dynamic_tree == old.inside_dynamic_tree
}
spec fn slot_refs(k: ElementKind) -> Seq<StaticAttribute> {
    match k {
        ElementKind::Normal { common, .. } => common.slot_value_refs@,
        ElementKind::Slot { common, .. } => common.slot_value_refs@,
        ElementKind::Pure { slot_value_refs, .. } => slot_value_refs@,
        _ => Seq::empty(),
    }
}
/// what visiting the element's own values leaves alone: the variant, the children, the names it introduces
spec fn own_frame(new: ElementKind, old: ElementKind) -> bool {
    match (new, old) {
        (ElementKind::Normal { children: c1, common: m1, .. }, ElementKind::Normal { children: c0, common: m0, .. }) => c1 == c0 && m1.slot_value_refs == m0.slot_value_refs,
        (ElementKind::Pure { children: c1, slot_value_refs: s1, .. }, ElementKind::Pure { children: c0, slot_value_refs: s0, .. }) => c1 == c0 && s1 == s0,
        (ElementKind::For { children: c1, item_name: i1, index_name: x1, .. }, ElementKind::For { children: c0, item_name: i0, index_name: x0, .. }) => c1 == c0 && i1 == i0 && x1 == x0,
        (ElementKind::If { branches: b1, else_branch: e1 }, ElementKind::If { branches: b0, else_branch: e0 }) => e1 == e0 && b1@.len() == b0@.len() && (forall|j: int| 0 <= j < b1@.len() ==> (#[trigger] b1@[j]).2 == b0@[j].2),
        (ElementKind::TemplateRef { .. }, ElementKind::TemplateRef { .. }) => true,
        (ElementKind::Slot { common: m1, .. }, ElementKind::Slot { common: m0, .. }) => m1.slot_value_refs == m0.slot_value_refs,
        (ElementKind::Include { .. }, ElementKind::Include { .. }) => true,
        _ => false,
    }
}
/// the dynamic-tree nesting counter cannot overflow: counter + nesting depth of the node fits usize
spec fn depth(n: Node) -> nat
    decreases n,
{
    match n { Node::Element(e) => edepth(e), _ => 0 }
}
spec fn edepth(e: Element) -> nat
    decreases e,
{
    1 + match e.kind {
        ElementKind::Normal { children, .. } => ndepth(children@, children@.len() as int),
        ElementKind::Pure { children, .. } => ndepth(children@, children@.len() as int),
        ElementKind::For { children, .. } => ndepth(children@, children@.len() as int),
        ElementKind::If { branches, else_branch } => {
            let a = bdepth(branches@, branches@.len() as int);
            let b = match else_branch { Some(x) => ndepth(x.1@, x.1@.len() as int), None => 0 };
            if a > b { a } else { b }
        }
        _ => 0,
    }
}
spec fn ndepth(s: Seq<Node>, k: int) -> nat
    decreases s, k,
{
    if k <= 0 || k > s.len() { 0 } else { let a = depth(s[k - 1]); let b = ndepth(s, k - 1); if a > b { a } else { b } }
}
spec fn bdepth(s: Seq<(Range<Position>, Value, Vec<Node>)>, k: int) -> nat
    decreases s, k,
{
    if k <= 0 || k > s.len() { 0 } else { let a = ndepth(s[k - 1].2@, s[k - 1].2@.len() as int); let b = bdepth(s, k - 1); if a > b { a } else { b } }
}
spec fn fits(n: Node, idt: int) -> bool { idt + depth(n) <= usize::MAX }
spec fn efits(e: Element, idt: int) -> bool { idt + edepth(e) <= usize::MAX }
proof fn lemma_ndepth(s: Seq<Node>, k: int, j: int)
    requires 0 <= j < k <= s.len(),
    ensures depth(s[j]) <= ndepth(s, k),
    decreases k,
{
    if j < k - 1 { lemma_ndepth(s, k - 1, j); }
}
proof fn lemma_bdepth(s: Seq<(Range<Position>, Value, Vec<Node>)>, k: int, j: int)
    requires 0 <= j < k <= s.len(),
    ensures ndepth(s[j].2@, s[j].2@.len() as int) <= bdepth(s, k),
    decreases k,
{
    if j < k - 1 { lemma_bdepth(s, k - 1, j); }
}
/// state of a children loop: the first i children are done, the others are untouched
spec fn kids_inv(cur: Seq<Node>, orig: Seq<Node>, i: int, sc: Seq<Seq<char>>, dis: bool) -> bool {
    &&& cur.len() == orig.len()
    &&& 0 <= i <= cur.len()
    &&& forall|j: int| 0 <= j < i ==> node_ok(#[trigger] cur[j], sc, dis)
    &&& forall|j: int| i <= j < cur.len() ==> #[trigger] cur[j] == orig[j]
    &&& nodes_fresh(orig)
}
proof fn lemma_names_push(s: Seq<(CompactString, Range<Position>)>, x: (CompactString, Range<Position>))
    ensures names(s.push(x)) =~= names(s).push(x.0@),
{
}
proof fn lemma_names_take(s: Seq<(CompactString, Range<Position>)>, n: int)
    requires 0 <= n <= s.len(),
    ensures names(s.take(n)) =~= names(s).take(n),
{
}
proof fn lemma_bdepth_eq(a: Seq<(Range<Position>, Value, Vec<Node>)>, b: Seq<(Range<Position>, Value, Vec<Node>)>, k: int)
    requires a.len() == b.len(), forall|j: int| 0 <= j < a.len() ==> (#[trigger] a[j]).2 == b[j].2,
    ensures bdepth(a, k) == bdepth(b, k),
    decreases k,
{
    if 0 < k <= a.len() { lemma_bdepth_eq(a, b, k - 1); }
}
spec fn if_branches(k: ElementKind) -> Seq<(Range<Position>, Value, Vec<Node>)> {
    match k { ElementKind::If { branches, .. } => branches@, _ => Seq::empty() }
}
// ---- the second round of Template::parse: where the analysis starts ----
spec fn script_name(s: Script) -> Seq<char> {
    match s { Script::Inline { module_name, .. } => module_name.name@, Script::GlobalRef { module_name, .. } => module_name.name@ }
}
spec fn script_names(s: Seq<Script>) -> Seq<Seq<char>> { Seq::new(s.len(), |i: int| script_name(s[i])) }
/// ASSUMED (iterator adapters): `scripts.iter().map(|x| (x.module_name().name.clone(), x.module_name().location())).collect()`
#[verifier::external_body]
fn vx_script_scopes(scripts: &Vec<Script>) -> (r: Vec<(CompactString, Range<Position>)>)
    ensures names(r@) == script_names(scripts@),
{ unimplemented!() }
spec fn nodes_fit(s: Seq<Node>, idt: int) -> bool { forall|j: int| 0 <= j < s.len() ==> fits(#[trigger] s[j], idt) }
