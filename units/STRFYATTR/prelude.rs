// ---- spec side of STRFYATTR, written from C14 (the printed attribute re-parses to the same attribute: one blank,
// ---- [prefix `:`] name, and -- only when there is something to print -- `="` value `"` / `=` quoted string) and C16
// ---- (each name token registered where it is written, mapped to the given location, with the given spelling) ----
/// an empty static string: the only value whose attribute is printed bare (`<div hidden>`); a binding is never empty
spec fn value_empty(v: Value) -> bool {
    match v { Value::Static { value, .. } => value@.len() == 0, Value::Dynamic { .. } => false }
}
/// the name token: the name as text AND as source spelling, at the name's location
spec fn name_tok(name: Seq<char>, loc: Range<Position>) -> Piece { Piece::Token { text: name, name: Some(name), loc } }
spec fn opt_prefix(prefix: Option<(&str, &Range<Position>)>) -> Option<(Seq<char>, Range<Position>)> {
    match prefix { Some((p, l)) => Some((p@, *l)), None => None }
}
/// blank, [prefix token (no name) `:`], name token
spec fn attr_head(prefix: Option<(Seq<char>, Range<Position>)>, name: Piece) -> Seq<Piece> {
    seq![Piece::Text(" "@)]
        + (match prefix { Some((p, l)) => seq![Piece::Token { text: p, name: None, loc: l }, Piece::Text(":"@)], None => Seq::<Piece>::empty() })
        + seq![name]
}
/// `="` value `"` when a value is printed
spec fn value_part(v: Option<Value>) -> Seq<Piece> {
    match v { Some(v) => seq![Piece::Text("=\""@), Piece::Val(v), Piece::Text("\""@)], None => Seq::<Piece>::empty() }
}
/// `=` and the quoted string exactly when the string is non-empty
spec fn static_part(v: StrName) -> Seq<Piece> {
    if v.name@.len() > 0 { seq![Piece::Text("="@), Piece::Quoted { name: v.name@, loc: v.location }] } else { Seq::<Piece>::empty() }
}
/// which value is printed: with respect_none_value every given value (even an empty one); otherwise a non-empty one
spec fn printed_value(value: Option<&Value>, respect_none_value: bool) -> Option<Value> {
    match value {
        None => None,
        Some(v) => if respect_none_value || !value_empty(*v) { Some(*v) } else { None },
    }
}
/// the first k segments of a custom attribute name (`a:b:c`): each a name token, a `:` in front of every segment but the first
spec fn custom_names(names: Seq<Ident>, k: int) -> Seq<Piece>
    decreases k,
{
    if k <= 0 { Seq::<Piece>::empty() } else {
        custom_names(names, k - 1)
            + (if k - 1 > 0 { seq![Piece::Text(":"@)] } else { Seq::<Piece>::empty() })
            + seq![name_tok(names[k - 1].name@, names[k - 1].location)]
    }
}
spec fn opt_value(value: Option<&Value>) -> Option<Value> { match value { Some(v) => Some(*v), None => None } }
