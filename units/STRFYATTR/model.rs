// ---- stand-ins for the attribute writers of stringify/tag.rs (unit STRFYATTR) ----
// The Stringifier as a RECORDING SINK: the ordered log of the pieces written (refines the text-only stand-in of unit
// EMITST by keeping, for each token, its source spelling and source location -- the arguments of the source-map entry
// that the real write_token registers at the current output position, unit STRFYPOS) and the scope names in force.
#[derive(Debug)]
pub struct VxFmtError { _x: u8 }
/// parse::tag::BindingMapKeys is not read by the printer
pub struct BindingMapKeys { _x: u8 }
impl CompactString {
    #[verifier::external_body]
    fn as_str(&self) -> (r: &str)
        ensures r@ == self@,
    { unimplemented!() }
    #[verifier::external_body]
    fn is_empty(&self) -> (r: bool)
        ensures r == (self@.len() == 0),
    { unimplemented!() }
    #[verifier::external_body]
    fn len(&self) -> (r: usize)
        ensures (r == 0) == (self@.len() == 0),
    { unimplemented!() }
}
enum Piece {
    /// write_str(s): plain text, no source-map entry
    Text(Seq<char>),
    /// write_token(dest, source_text, location) / write_ident: `text` written, one source-map entry at the output position
    /// where the text starts, mapped to the start of `loc`, named `name` (STRFYPOS: write_token, write_ident)
    Token { text: Seq<char>, name: Option<Seq<char>>, loc: Range<Position> },
    /// write_str_name_quoted(n): `"` + escape_html_quote(n.name) + `"`, the inner text a token named n.name at n.location (STRFYPOS)
    Quoted { name: Seq<char>, loc: Range<Position> },
    /// value.stringify_write(stringifier): the text unit EMITST proves for Value::stringify_write (value_out)
    Val(Value),
}
struct Stringifier { log: Ghost<Seq<Piece>>, names: Ghost<Seq<Seq<char>>> }
spec fn ostr(o: Option<&str>) -> Option<Seq<char>> { match o { Some(s) => Some(s@), None => None } }
impl Stringifier {
    #[verifier::external_body]
    fn write_str(&mut self, s: &str) -> (r: Result<(), VxFmtError>)
        ensures r.is_ok(), final(self).names@ == old(self).names@, final(self).log@ == old(self).log@.push(Piece::Text(s@)),
    { unimplemented!() }
    #[verifier::external_body]
    fn write_token(&mut self, dest_text: &str, source_text: Option<&str>, location: &Range<Position>) -> (r: Result<(), VxFmtError>)
        ensures r.is_ok(), final(self).names@ == old(self).names@,
            final(self).log@ == old(self).log@.push(Piece::Token { text: dest_text@, name: ostr(source_text), loc: *location }),
    { unimplemented!() }
    #[verifier::external_body]
    fn write_ident(&mut self, n: &Ident, need_name: bool) -> (r: Result<(), VxFmtError>)
        ensures r.is_ok(), final(self).names@ == old(self).names@,
            final(self).log@ == old(self).log@.push(Piece::Token { text: n.name@, name: (if need_name { Some(n.name@) } else { None }), loc: n.location }),
    { unimplemented!() }
    #[verifier::external_body]
    fn write_str_name_quoted(&mut self, n: &StrName) -> (r: Result<(), VxFmtError>)
        ensures r.is_ok(), final(self).names@ == old(self).names@,
            final(self).log@ == old(self).log@.push(Piece::Quoted { name: n.name@, loc: n.location }),
    { unimplemented!() }
}
impl Value {
    /// `impl Stringify for Value` (verified against the text-only sink in unit EMITST): here one piece
    #[verifier::external_body]
    fn stringify_write(&self, stringifier: &mut Stringifier) -> (r: Result<(), VxFmtError>)
        ensures r.is_ok(), final(stringifier).names@ == old(stringifier).names@,
            final(stringifier).log@ == old(stringifier).log@.push(Piece::Val(*self)),
    { unimplemented!() }
}
/// bool::then_some
fn vx_then_some<T>(c: bool, x: T) -> (r: Option<T>)
    ensures r == (if c { Some(x) } else { None::<T> }),
{ if c { Some(x) } else { None } }
