// ---- spec side of NEXTENT (C12: "static strings reach the runtime character for character": which source text is an
// ---- entity, and that it is replaced by exactly what entities::decode gives for exactly that text) ----
spec fn is_dig(c: char) -> bool { '0' <= c && c <= '9' }
spec fn is_hexd(c: char) -> bool { is_dig(c) || ('a' <= c && c <= 'f') || ('A' <= c && c <= 'F') }
spec fn is_alpha(c: char) -> bool { ('a' <= c && c <= 'z') || ('A' <= c && c <= 'Z') }
/// class 2: the characters of an entity name after its first letter (letters and digits: `&frac12;`)
spec fn is_namec(c: char) -> bool { is_alpha(c) || is_dig(c) }
spec fn in_cls(c: char, cls: int) -> bool { if cls == 0 { is_hexd(c) } else if cls == 1 { is_dig(c) } else { is_namec(c) } }
/// from k on: class characters up to a `;` -- the index just after the `;`, or -1
spec fn scan(t: Seq<char>, k: int, cls: int) -> int
    decreases t.len() - k,
{
    if k < 0 || k >= t.len() { -1 } else if t[k] == ';' { k + 1 } else if in_cls(t[k], cls) { scan(t, k + 1, cls) } else { -1 }
}
/// length of the character-reference SHAPE at the start of t (`&#x` hex* `;` | `&#` digit digit* `;` | `&` letter (letter|digit)* `;`), or -1
spec fn ent_end(t: Seq<char>) -> int {
    if t.len() < 2 || t[0] != '&' { -1 }
    else if t[1] == '#' {
        if t.len() < 3 { -1 } else if t[2] == 'x' { scan(t, 3, 0) } else if is_dig(t[2]) { scan(t, 3, 1) } else { -1 }
    } else if is_alpha(t[1]) { scan(t, 2, 2) } else { -1 }
}
/// THE contract: the value appended and the number of characters consumed for the remaining text t
spec fn ent_value(t: Seq<char>) -> Seq<char> {
    let e = ent_end(t);
    if e > 0 && decode_spec(t.take(e)).is_some() { decode_spec(t.take(e)).unwrap() } else if t.len() > 0 { t.take(1) } else { Seq::empty() }
}
spec fn ent_len(t: Seq<char>) -> int {
    let e = ent_end(t);
    if e > 0 && decode_spec(t.take(e)).is_some() { e } else if t.len() > 0 { 1 } else { 0 }
}
spec fn scan_frame(new: &ParseState, old: &ParseState) -> bool {
    new.wf() && new.whole_str == old.whole_str && new.auto@ == old.auto@ && old.warnings@.is_prefix_of(new.warnings@)
}
/// class characters from a to k: scanning from a is scanning from k
proof fn lemma_scan_run(t: Seq<char>, a: int, k: int, cls: int)
    requires 0 <= a <= k <= t.len(), forall|j: int| a <= j < k ==> in_cls(#[trigger] t[j], cls) && t[j] != ';',
    ensures scan(t, a, cls) == scan(t, k, cls),
    decreases k - a,
{
    if a < k { lemma_scan_run(t, a + 1, k, cls); }
}
proof fn lemma_scan_bound(t: Seq<char>, k: int, cls: int)
    requires 0 <= k,
    ensures scan(t, k, cls) == -1 || (k < scan(t, k, cls) <= t.len()),
    decreases t.len() - k,
{
    if k < t.len() && t[k] != ';' && in_cls(t[k], cls) { lemma_scan_bound(t, k + 1, cls); }
}
/// the characters of a reference shape are ASCII (precondition of entities::decode)
proof fn lemma_shape_ascii(t: Seq<char>, a: int, k: int, cls: int)
    requires 0 <= a <= k <= t.len(), forall|j: int| a <= j < k ==> (in_cls(#[trigger] t[j], cls) || t[j] == ';'),
    ensures forall|j: int| a <= j < k ==> (#[trigger] t[j] as u32) < 0x80,
{
}
proof fn lemma_prefix_push<T>(a: Seq<T>, b: Seq<T>, x: T)
    requires a.is_prefix_of(b),
    ensures a.is_prefix_of(b.push(x)),
{
    assert(a =~= b.push(x).subrange(0, a.len() as int)) by { assert(a =~= b.subrange(0, a.len() as int)); }
}
proof fn lemma_boff_mono(s: Seq<char>, i: int, j: int)
    requires 0 <= i <= j,
    ensures boff(s, i) <= boff(s, j), boff(s, i) >= 0,
    decreases j,
{
    if j > i { lemma_boff_mono(s, i, j - 1); } else if i > 0 { lemma_boff_mono(s, i - 1, i - 1); }
}
