// ---- spec side of ENT: HTML character references (written from the property: "numeric character
// ---- references decode to exactly their code point or are rejected") ----
pub open spec fn all_ascii(s: Seq<char>) -> bool { forall|i: int| 0 <= i < s.len() ==> (#[trigger] s[i] as u32) < 0x80 }
pub open spec fn num_ref(body: Seq<char>, radix: int) -> Option<Seq<char>> {
    let b = radix_body(body);
    if b.len() > 0 && all_digits(b, radix) && digits_value(b, radix) <= u32::MAX && is_scalar(digits_value(b, radix)) {
        Some(seq![digits_value(b, radix) as char])
    } else { None }
}
pub open spec fn decode_spec(e: Seq<char>) -> Option<Seq<char>> {
    if e.len() < 1 || e.last() != ';' { None }
    else if e.len() > 4 && e[1] == '#' && e[2] == 'x' { num_ref(e.subrange(3, e.len() - 1), 16) }
    else if e.len() > 3 && e[1] == '#' { num_ref(e.subrange(2, e.len() - 1), 10) }
    else { named_entity(e) }
}
pub proof fn lemma_ascii_boff(s: Seq<char>, i: int)
    requires all_ascii(s), 0 <= i <= s.len(),
    ensures boff(s, i) == i,
    decreases i,
{
    if i > 0 { lemma_ascii_boff(s, i - 1); }
}
pub proof fn lemma_ascii_boundaries(s: Seq<char>)
    requires all_ascii(s),
    ensures
        forall|i: int| 0 <= i <= s.len() ==> #[trigger] boff(s, i) == i,
        forall|b: int| 0 <= b <= s.len() ==> #[trigger] is_boundary(s, b),
{
    assert forall|i: int| 0 <= i <= s.len() implies #[trigger] boff(s, i) == i by { lemma_ascii_boff(s, i); }
    assert forall|b: int| 0 <= b <= s.len() implies #[trigger] is_boundary(s, b) by { lemma_ascii_boff(s, b); }
}
