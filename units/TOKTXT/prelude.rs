// ---- spec side of TOKTXT: written from C10 ("integers ... exactly") and C08 ("no token merged, split, dropped,
// ---- duplicated"; here: the unit of a dimension is written once, after the number) ----
/// the numeric fields of a Number / Dimension token
spec fn num_fields(t: TokV) -> Option<(bool, f32, Option<i32>)> {
    match t {
        TokV::Number { has_sign, value, int_value } => Some((has_sign, value, int_value)),
        TokV::Dimension { has_sign, value, int_value, unit } => Some((has_sign, value, int_value)),
        _ => None,
    }
}
/// cssparser's text of the bare number with the token's numeric fields
spec fn num_css(t: TokV) -> Seq<char> {
    match num_fields(t) {
        Some(f) => css(TokV::Number { has_sign: f.0, value: f.1, int_value: f.2 }),
        None => Seq::<char>::empty(),
    }
}
/// cssparser's text of the token with that numeric prefix removed
spec fn unit_part(t: TokV) -> Seq<char> { css(t).skip(num_css(t).len() as int) }
/// the integer a Number / Dimension carries exactly: present, non-zero (zero and negative zero stay cssparser's
/// business), and equal to the float the token carries
spec fn exact_int(t: TokV) -> Option<i32> {
    match num_fields(t) {
        Some(f) => match f.2 {
            Some(i) => if i != 0 && i32_is_f32(i, f.1) { Some(i) } else { None },
            None => None,
        },
        None => None,
    }
}
/// an explicit `+` is kept for a positive integer; a negative one brings its own `-`
spec fn int_sign(t: TokV, i: i32) -> Seq<char> {
    match num_fields(t) {
        Some(f) => if f.0 && i > 0 { seq!['+'] } else { Seq::<char>::empty() },
        None => Seq::<char>::empty(),
    }
}
/// the text `write_token_text` must append for a token
spec fn token_text(t: TokV) -> Seq<char> {
    match exact_int(t) {
        // (b) C10: the written digits denote EXACTLY i; C08: then the unit, once
        Some(i) => int_sign(t, i) + dec_i32(i) + unit_part(t),
        // (a) not a number, (c) the float path: cssparser's text unchanged
        None => css(t),
    }
}
/// what the unit part is, as far as the assumed facts about cssparser allow (A5)
spec fn unit_part_known(t: TokV) -> bool {
    &&& t is Number ==> unit_part(t) == Seq::<char>::empty()
    &&& t is Dimension ==> unit_part(t) == unit_css(t->unit) && css(t) == num_css(t) + unit_part(t)
}
/// the contract, by cases (`=~=` is equality of sequences).  Append-only: what was there stays, one text is added
spec fn appended(new: Seq<char>, old: Seq<char>, t: TokV) -> bool { new =~= old + token_text(t) }
/// (b) an integer the token carries exactly: optional `+`, the digits that denote exactly i, then the unit part
spec fn wrote_exact_int(new: Seq<char>, old: Seq<char>, t: TokV) -> bool {
    match exact_int(t) {
        Some(i) => new =~= old + int_sign(t, i) + dec_i32(i) + unit_part(t) && dec_denotes(dec_i32(i)) == i,
        None => true,
    }
}
/// (a) not a number; (c) non-integer, zero, or an int_value that disagrees with value: cssparser's text
spec fn wrote_css(new: Seq<char>, old: Seq<char>, t: TokV) -> bool {
    exact_int(t) is None ==> new =~= old + css(t)
}
/// the value a decimal spelling denotes (positional notation; an optional leading `-`)
spec fn digit_val(c: char) -> int { c as int - '0' as int }
spec fn dec_val(s: Seq<char>) -> int
    decreases s.len(),
{
    if s.len() == 0 { 0 } else { dec_val(s.drop_last()) * 10 + digit_val(s.last()) }
}
spec fn dec_denotes(s: Seq<char>) -> int {
    if s.len() > 0 && s[0] == '-' { -dec_val(s.skip(1)) } else { dec_val(s) }
}
proof fn lemma_dec_nat_val(n: nat)
    ensures dec_val(dec_nat(n)) == n, dec_nat(n).len() >= 1, dec_nat(n)[0] != '-',
    decreases n,
{
    if n < 10 {
        assert(dec_nat(n) =~= seq![dec_digit(n as int)]);
        assert(dec_nat(n).drop_last() =~= Seq::<char>::empty());
        assert(dec_val(dec_nat(n).drop_last()) == 0);
    } else {
        lemma_dec_nat_val(n / 10);
        let p = dec_nat(n / 10);
        let d = dec_digit((n % 10) as int);
        assert(dec_nat(n) == p.push(d));
        assert(p.push(d).drop_last() =~= p);
        assert(p.push(d).last() == d);
        assert(p.push(d)[0] == p[0]);
    }
}
/// the spelling written for an i32 denotes exactly that integer (so `dec_i32` is injective)
proof fn lemma_dec_i32_denotes(i: i32)
    ensures dec_denotes(dec_i32(i)) == i,
{
    if i < 0 {
        let m = (-(i as int)) as nat;
        lemma_dec_nat_val(m);
        assert(dec_i32(i) == seq!['-'] + dec_nat(m));
        assert((seq!['-'] + dec_nat(m)).skip(1) =~= dec_nat(m));
        assert((seq!['-'] + dec_nat(m))[0] == '-');
    } else {
        lemma_dec_nat_val(i as nat);
    }
}
/// the numeric prefix ends inside the token's text, on a character boundary; what follows it is the unit part
proof fn lemma_unit_part(t: TokV)
    requires t is Number || t is Dimension,
    ensures
        unit_part_known(t),
        css(t) == num_css(t) + unit_part(t),
        is_boundary(css(t), boff(num_css(t), num_css(t).len() as int)),
        boff(num_css(t), num_css(t).len() as int) <= boff(css(t), css(t).len() as int),
        forall|k: int| #![trigger boff(css(t), k)] 0 <= k <= css(t).len() && boff(css(t), k) == boff(num_css(t), num_css(t).len() as int) ==> css(t).skip(k) == unit_part(t),
{
    let n = num_css(t);
    match t {
        TokV::Number { has_sign, value, int_value } => {
            assert(css(t) == n);
            assert(css(t).skip(n.len() as int) =~= Seq::<char>::empty());
            assert(css(t) =~= n + unit_part(t));
        }
        TokV::Dimension { has_sign, value, int_value, unit } => {
            axiom_css_dimension(has_sign, value, int_value, unit);
            assert(css(t) == n + unit_css(unit));
            assert((n + unit_css(unit)).skip(n.len() as int) =~= unit_css(unit));
        }
        _ => {}
    }
    let u = unit_part(t);
    lemma_boff_append(n, u, n.len() as int);
    if n.len() < css(t).len() { lemma_boff_lt(css(t), n.len() as int, css(t).len() as int); }
    assert forall|k: int| #![trigger boff(css(t), k)] 0 <= k <= css(t).len() && boff(css(t), k) == boff(n, n.len() as int) implies css(t).skip(k) == u by {
        lemma_boff_strict(css(t), k, n.len() as int);
    }
}
proof fn lemma_boff_append(a: Seq<char>, b: Seq<char>, i: int)
    requires 0 <= i <= a.len(),
    ensures boff(a + b, i) == boff(a, i),
    decreases i,
{
    if i > 0 { lemma_boff_append(a, b, i - 1); }
}
/// boff is strictly monotone, hence injective
proof fn lemma_boff_strict(s: Seq<char>, i: int, j: int)
    requires 0 <= i, 0 <= j, boff(s, i) == boff(s, j),
    ensures i == j,
{
    if i < j { lemma_boff_lt(s, i, j); } else if j < i { lemma_boff_lt(s, j, i); }
}
proof fn lemma_boff_lt(s: Seq<char>, i: int, j: int)
    requires 0 <= i < j,
    ensures boff(s, i) < boff(s, j),
    decreases j,
{
    if j - 1 > i { lemma_boff_lt(s, i, j - 1); }
}
