// ---- TOKTXT: assumed model of cssparser's Token and its serializer (A5), of `Display for i32` (A3) and of the one
// ---- f32 comparison (A8).  Same shape as vx/prelude/cssmodel2.rs (which has no `Number`, and cannot be included next to
// ---- a second `Token`); the variants this function distinguishes -- Number, Dimension -- carry cssparser's own fields.
#[derive(Debug)]
pub struct VxFmtError { _x: u8 }

pub assume_specification [String::len] (s: &String) -> (r: usize)
    ensures r as int == boff(s@, s@.len() as int);

pub struct CowRcStr<'i> { pub s: &'i str }
impl<'i> View for CowRcStr<'i> {
    type V = Seq<char>;
    open spec fn view(&self) -> Seq<char> { self.s@ }
}
pub enum Token<'i> {
    Ident(CowRcStr<'i>),
    AtKeyword(CowRcStr<'i>),
    Function(CowRcStr<'i>),
    Delim(char),
    Number { has_sign: bool, value: f32, int_value: Option<i32> },
    Percentage { has_sign: bool, unit_value: f32, int_value: Option<i32> },
    Dimension { has_sign: bool, value: f32, int_value: Option<i32>, unit: CowRcStr<'i> },
    WhiteSpace(&'i str),
    Comment(&'i str),
    CurlyBracketBlock,
    SquareBracketBlock,
    ParenthesisBlock,
    CloseCurlyBracket,
    CloseSquareBracket,
    CloseParenthesis,
    Semicolon,
    Comma,
    Other(u32),
}
/// the lifetime-free value of a token
pub enum TokV {
    Ident(Seq<char>), AtKeyword(Seq<char>), Function(Seq<char>), Delim(char),
    Number { has_sign: bool, value: f32, int_value: Option<i32> },
    Percentage { has_sign: bool, unit_value: f32, int_value: Option<i32> },
    Dimension { has_sign: bool, value: f32, int_value: Option<i32>, unit: Seq<char> },
    WhiteSpace(Seq<char>), Comment(Seq<char>),
    CurlyBracketBlock, SquareBracketBlock, ParenthesisBlock, CloseCurlyBracket, CloseSquareBracket, CloseParenthesis, Semicolon, Comma, Other(u32),
}
pub open spec fn tokv(t: Token) -> TokV {
    match t {
        Token::Ident(s) => TokV::Ident(s@),
        Token::AtKeyword(s) => TokV::AtKeyword(s@),
        Token::Function(s) => TokV::Function(s@),
        Token::Delim(c) => TokV::Delim(c),
        Token::Number { has_sign, value, int_value } => TokV::Number { has_sign, value, int_value },
        Token::Percentage { has_sign, unit_value, int_value } => TokV::Percentage { has_sign, unit_value, int_value },
        Token::Dimension { has_sign, value, int_value, unit } => TokV::Dimension { has_sign, value, int_value, unit: unit@ },
        Token::WhiteSpace(s) => TokV::WhiteSpace(s@),
        Token::Comment(s) => TokV::Comment(s@),
        Token::CurlyBracketBlock => TokV::CurlyBracketBlock,
        Token::SquareBracketBlock => TokV::SquareBracketBlock,
        Token::ParenthesisBlock => TokV::ParenthesisBlock,
        Token::CloseCurlyBracket => TokV::CloseCurlyBracket,
        Token::CloseSquareBracket => TokV::CloseSquareBracket,
        Token::CloseParenthesis => TokV::CloseParenthesis,
        Token::Semicolon => TokV::Semicolon,
        Token::Comma => TokV::Comma,
        Token::Other(k) => TokV::Other(k),
    }
}
/// ASSUMED (A5): the text cssparser's `ToCss for Token` produces -- uninterpreted: nothing is known about it except
/// the prefix fact `axiom_css_dimension` below.  In particular NOTHING relates it to `dec_int`: for an integer of seven
/// or more digits the two differ (`2147483647` is printed `2147480000` by cssparser's 6-significant-digit float printer).
pub uninterp spec fn css(t: TokV) -> Seq<char>;
/// ASSUMED (A5): how cssparser spells the unit of a dimension (serialize_identifier, or the `\65 ` escape for units that
/// would read as an exponent) -- a function of the unit alone
pub uninterp spec fn unit_css(unit: Seq<char>) -> Seq<char>;
/// ASSUMED (A5, cssparser 0.34 serializer.rs `impl ToCss for Token`): the arms for `Number` and `Dimension` both start
/// with `write_numeric(value, int_value, has_sign, dest)`; `Number` writes nothing else, `Dimension` then writes the unit
#[verifier::external_body]
pub proof fn axiom_css_dimension(has_sign: bool, value: f32, int_value: Option<i32>, unit: Seq<char>)
    ensures css(TokV::Dimension { has_sign, value, int_value, unit })
        == css(TokV::Number { has_sign, value, int_value }) + unit_css(unit),
{
}
impl<'i> Token<'i> {
    /// ASSUMED (A5): appends the serialisation; Ok on a String sink (`fmt::Write for String` never fails, and cssparser
    /// only propagates the sink's errors)
    #[verifier::external_body]
    pub fn to_css(&self, dest: &mut String) -> (r: Result<(), VxFmtError>)
        ensures r.is_ok(), final(dest)@ == old(dest)@ + css(tokv(*self)),
    { unimplemented!() }
    /// ASSUMED (A5): `ToCss::to_css_string` is `to_css` into a fresh String
    #[verifier::external_body]
    pub fn to_css_string(&self) -> (r: String)
        ensures r@ == css(tokv(*self)),
    { unimplemented!() }
}
/// decimal digit
pub open spec fn dec_digit(d: int) -> char { (('0' as u8) + (d as u8)) as char }
/// decimal spelling of a natural number, most significant digit first, no leading zeros
pub open spec fn dec_nat(n: nat) -> Seq<char>
    decreases n,
{
    if n < 10 { seq![dec_digit(n as int)] } else { dec_nat(n / 10).push(dec_digit((n % 10) as int)) }
}
/// decimal spelling of a mathematical integer: `-` then the magnitude for negatives (so `-2147483648` needs no care)
pub open spec fn dec_int(i: int) -> Seq<char> {
    if i < 0 { seq!['-'] + dec_nat((-i) as nat) } else { dec_nat(i as nat) }
}
pub open spec fn dec_i32(i: i32) -> Seq<char> { dec_int(i as int) }
/// ASSUMED (A3): `write!(dest, "{}", i)` with `i: i32` on a String sink appends `<i32 as Display>`'s text -- the exact
/// decimal spelling -- and returns Ok
#[verifier::external_body]
pub fn vx_write_i32(dest: &mut String, i: i32) -> (r: Result<(), VxFmtError>)
    ensures r.is_ok(), final(dest)@ == old(dest)@ + dec_i32(i),
{ unimplemented!() }
/// ASSUMED (A8): `(i as f32) == value` is some boolean function of (i, value) -- uninterpreted: "the float the token
/// carries is the integer it carries".  No float arithmetic is needed by this unit.
pub uninterp spec fn i32_is_f32(i: i32, v: f32) -> bool;
#[verifier::external_body]
pub fn vx_i32_as_f32_eq(i: i32, v: f32) -> (r: bool)
    ensures r == i32_is_f32(i, v),
{ (i as f32) == v }
