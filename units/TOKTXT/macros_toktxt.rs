// `write!(dest, "{}", i)` -- the one formatted write of output.rs::write_token_text (R-fmt): a local macro shadows std's;
// the call site stays verbatim and becomes a call of the stand-in for `<i32 as Display>::fmt` into a String sink
#[allow(unused_macros)]
macro_rules! write {
    ($dst:expr, "{}", $a:expr) => { vx_write_i32($dst, $a) };
}
