// ---- stand-ins and spec side of CSSATSTEP: one token of an at-rule's prelude ----
/// byte length of the current output after the events of `log` (StyleSheetOutput::cur_utf8_len, proved in CSSOUT / CSSTR)
pub uninterp spec fn out_len(log: Seq<Ev>) -> usize;
/// the text of the current output between two byte offsets
pub uninterp spec fn out_seg(log: Seq<Ev>, a: usize, b: usize) -> Seq<char>;
/// outputs are append-only (CSSOUT: every append_* extends the string): a longer log has a longer output
#[verifier::external_body]
proof fn axiom_out_len_mono(l0: Seq<Ev>, l1: Seq<Ev>)
    requires l0.is_prefix_of(l1),
    ensures out_len(l0) <= out_len(l1),
{ }
impl StyleSheetTransformer {
    #[verifier::external_body]
    fn cur_output_utf8_len(&self) -> (r: usize)
        ensures r == out_len(self.log@),
    { unimplemented!() }
    /// `&self.s[range]` of the current output: panics unless the range is inside the text written so far
    #[verifier::external_body]
    fn get_output_segment(&self, range: Range<usize>) -> (r: &str)
        requires range.start <= range.end <= out_len(self.log@),
        ensures r@ == out_seg(self.log@, range.start, range.end),
    { unimplemented!() }
    /// proved in unit CSSTR on the real fields: `f` runs with the at-rule's text pushed on cur_at_rule_stacks, which is
    /// popped afterwards
    #[verifier::external_body]
    fn wrap_at_rule_output<R, F: FnOnce(&mut Self, &mut StepParser) -> R>(&mut self, input: &mut StepParser, at_rule_str: String, f: F) -> (r: R)
        requires forall|p: &mut Self, i: &mut StepParser| (p.log@ == old(self).log@.push(Ev::WrapBegin { text: at_rule_str@ }) && *i == *old(input)) ==> f.requires((p, i)),
        ensures
            exists|p: &mut Self, i: &mut StepParser| p.log@ == old(self).log@.push(Ev::WrapBegin { text: at_rule_str@ }) && *i == *old(input)
                && f.ensures((p, i), r)
                && final(self).log@ == final(p).log@.push(Ev::WrapEnd) && *final(input) == *final(i),
    { unimplemented!() }
}
/// `input.parse_nested_block(|nested_input| { parse_rules(&mut StepParser::wrap(nested_input), ss); Ok(()) }).ok()` on the
/// block whose opener was handed out last
#[verifier::external_body]
fn vx_nested_parse_rules(input: &mut StepParser, ss: &mut StyleSheetTransformer)
    requires 0 < old(input).cur@ <= old(input).items@.len(),
    ensures *final(input) == *old(input),
        final(ss).log@ == old(ss).log@.push(Ev::RuleList { inner: old(input).items@[old(input).cur@ - 1].inner }),
{ unimplemented!() }
#[verifier::external_body]
fn vx_str_to_string(s: &str) -> (r: String)
    ensures r@ == s@,
{ unimplemented!() }
// Written from the properties, not from the match:
//  * C08 (`contain_rule_list decides which at-rules hold nested rules`): the `{` block of an at-rule is a rule list
//    exactly when the at-rule is rule-bearing, otherwise a declaration block; it ends the prelude;
//  * C17: around that block the at-rule's own text -- everything written since its at-keyword -- is on the chain of
//    enclosing at-rules (replayed around a converted :host rule), and is taken off afterwards;
//  * C09 (`inside at-rule prelude blocks`): `[..]`, `(..)` and functions of the prelude hold selectors / conditions whose
//    class names are prefixed; `layer(a.b)` holds a dotted layer NAME, not a selector;
//  * C08: every other token is passed on once, unchanged; whitespace between prelude tokens is insignificant; `;` ends an
//    at-rule without a block.
spec fn lower_layer(name: Seq<char>) -> bool { lower(name) == lower("layer"@) }
spec fn at_main(it: BItem, rule_list: bool, wrap_text: Seq<char>) -> Seq<Ev> {
    match it.tok {
        TokV::CurlyBracketBlock =>
            seq![Ev::WrapBegin { text: wrap_text }, Ev::Open { tok: it.tok, pos: it.pos },
                 if rule_list { Ev::RuleList { inner: it.inner } } else { Ev::ValBlock { inner: it.inner, in_calc: None } },
                 Ev::Close { tok: closer_of(it.tok), pos: it.pos }, Ev::WrapEnd],
        TokV::Function(name) =>
            seq![Ev::Open { tok: it.tok, pos: it.pos },
                 if lower_layer(name) { Ev::ValBlock { inner: it.inner, in_calc: None } } else { Ev::SelBlock { inner: it.inner } },
                 Ev::Close { tok: closer_of(it.tok), pos: it.pos }],
        TokV::SquareBracketBlock | TokV::ParenthesisBlock =>
            seq![Ev::Open { tok: it.tok, pos: it.pos }, Ev::SelBlock { inner: it.inner }, Ev::Close { tok: closer_of(it.tok), pos: it.pos }],
        _ => seq![Ev::Tok { tok: it.tok, pos: it.pos, keep_space: false }],
    }
}
/// the prelude goes on after this token
spec fn at_continue(t: TokV) -> bool { !(t is CurlyBracketBlock) && !(t is Semicolon) }
proof fn lemma_fnw(items: Seq<BItem>, c: int)
    ensures ({
        let r = first_non_ws(items, c);
        &&& r <= items.len()
        &&& (0 <= c <= items.len() ==> c <= r)
        &&& (0 <= r < items.len() ==> !(items[r].tok is WhiteSpace) && first_non_ws(items, r) == r)
    }),
    decreases items.len() - c,
{
    if 0 <= c < items.len() && items[c].tok is WhiteSpace { lemma_fnw(items, c + 1); }
}
// ---- parse_rules: the rule-list loop ----
/// the items of a rule list, in order: what was tried on each
pub enum RuleEv { At { first: bool, taken: bool }, Qualified }
pub struct VxRuleLog { pub evs: Ghost<Seq<RuleEv>> }
pub uninterp spec fn at_rule_taken(input: StepParser, n: int) -> bool;
impl StyleSheetTransformer {
    pub uninterp spec fn rules(&self) -> Seq<RuleEv>;
}
/// stand-in for parse_at_rule inside parse_rules: logs the attempt and whether it was the first item of the list
#[verifier::external_body]
fn parse_at_rule(input: &mut StepParser, ss: &mut StyleSheetTransformer, at_file_start: bool) -> (r: bool)
    requires old(input).wf(),
    ensures final(input).wf(), final(ss).rules() == old(ss).rules().push(RuleEv::At { first: at_file_start, taken: r }),
{ unimplemented!() }
#[verifier::external_body]
fn parse_qualified_rule(input: &mut StepParser, ss: &mut StyleSheetTransformer)
    requires old(input).wf(),
    ensures final(input).wf(), final(ss).rules() == old(ss).rules().push(RuleEv::Qualified),
{ unimplemented!() }
/// Written from the properties: every item of a rule list is first offered to the at-rule parser and becomes a qualified
/// rule exactly when that declines (C08: nothing dropped or taken twice); only the FIRST item of the list is at the start
/// of the file (C18: an @import anywhere else is reported as misplaced).
spec fn rules_ok(evs: Seq<RuleEv>) -> bool
    decreases evs.len(),
{
    if evs.len() == 0 { true }
    else {
        match evs.last() {
            RuleEv::Qualified =>
                evs.len() >= 2 && evs[evs.len() - 2] == (RuleEv::At { first: evs.len() == 2, taken: false }) && rules_ok(evs.take(evs.len() - 2)),
            RuleEv::At { first, taken } => taken && first == (evs.len() == 1) && rules_ok(evs.drop_last()),
        }
    }
}
// ---- recovery behind a malformed signed @import (C18 / C01) ----
/// a statement ends with its `;` or with its `{}` block
spec fn ends_stmt(t: TokV) -> bool { t is CurlyBracketBlock || t is Semicolon }
spec fn no_end(items: Seq<BItem>, a: int, b: int) -> bool { forall|i: int| a <= i < b ==> !ends_stmt((#[trigger] items[i]).tok) }
proof fn lemma_fnw_ws(items: Seq<BItem>, c: int)
    requires 0 <= c,
    ensures forall|i: int| c <= i < first_non_ws(items, c) ==> (#[trigger] items[i]).tok is WhiteSpace,
        first_non_ws(items, c) <= items.len(), c <= first_non_ws(items, c) || c >= items.len(),
    decreases items.len() - c,
{
    if c < items.len() && items[c].tok is WhiteSpace {
        lemma_fnw_ws(items, c + 1);
        assert forall|i: int| c <= i < first_non_ws(items, c) implies (#[trigger] items[i]).tok is WhiteSpace by { if i > c { } }
    }
}
