// ---- spec side of CSSATR: the at-rules whose block is a rule list (css-conditional-3/5: @media, @supports, @container; css-cascade-5/6:
// @layer (block form), @scope; css-transitions-2: @starting-style; the legacy @document), names ASCII case-insensitive.
// Every other block at-rule (@font-face, @keyframes, @page, @property, @counter-style, @font-feature-values, vendor-prefixed
// or unknown ones) holds declarations or its own grammar and is passed through the value converter ----
spec fn is_rule_list_name(n: Seq<char>) -> bool {
    n == "media"@ || n == "supports"@ || n == "document"@ || n == "layer"@ || n == "container"@ || n == "scope"@ || n == "starting-style"@
}
