// ---- spec side of VARNAME: written from ECMA-262 (IdentifierName, ReservedWord), not from the code ----
pub open spec fn js_ident_start(c: char) -> bool {
    ('a' <= c && c <= 'z') || ('A' <= c && c <= 'Z') || c == '_' || c == '$'
}
pub open spec fn js_ident_part(c: char) -> bool {
    js_ident_start(c) || ('0' <= c && c <= '9')
}
/// ASCII IdentifierName
pub open spec fn js_ident(s: Seq<char>) -> bool {
    s.len() >= 1 && js_ident_start(s[0]) && forall|i: int| 1 <= i < s.len() ==> js_ident_part(#[trigger] s[i])
}
/// ECMA-262 ReservedWord, plus the words reserved in strict mode code, plus `await`/`enum`,
/// plus the two names that may not be bound in strict mode code (`eval`, `arguments`)
pub open spec fn js_reserved(s: Seq<char>) -> bool {
    s == "break"@ || s == "case"@ || s == "catch"@ || s == "class"@ || s == "const"@ || s == "continue"@
    || s == "debugger"@ || s == "default"@ || s == "delete"@ || s == "do"@ || s == "else"@ || s == "enum"@
    || s == "export"@ || s == "extends"@ || s == "false"@ || s == "finally"@ || s == "for"@ || s == "function"@
    || s == "if"@ || s == "import"@ || s == "in"@ || s == "instanceof"@ || s == "new"@ || s == "null"@
    || s == "return"@ || s == "super"@ || s == "switch"@ || s == "this"@ || s == "throw"@ || s == "true"@
    || s == "try"@ || s == "typeof"@ || s == "var"@ || s == "void"@ || s == "while"@ || s == "with"@
    || s == "yield"@ || s == "let"@ || s == "static"@ || s == "implements"@ || s == "interface"@
    || s == "package"@ || s == "private"@ || s == "protected"@ || s == "public"@ || s == "await"@
    || s == "eval"@ || s == "arguments"@
}
/// the one-letter names `A`..`Z` are kept for the runtime helpers of the generated code
pub open spec fn js_helper_name(s: Seq<char>) -> bool {
    s.len() == 1 && 'A' <= s[0] && s[0] <= 'Z'
}
pub proof fn lemma_reserved_never_ends_with_underscore()
    ensures forall|s: Seq<char>| #[trigger] js_reserved(s) ==> s.len() >= 2 && s.last() != '_' && js_ident(s),
{
    reveal_strlit("break"); reveal_strlit("case"); reveal_strlit("catch"); reveal_strlit("class");
    reveal_strlit("const"); reveal_strlit("continue"); reveal_strlit("debugger"); reveal_strlit("default");
    reveal_strlit("delete"); reveal_strlit("do"); reveal_strlit("else"); reveal_strlit("enum");
    reveal_strlit("export"); reveal_strlit("extends"); reveal_strlit("false"); reveal_strlit("finally");
    reveal_strlit("for"); reveal_strlit("function"); reveal_strlit("if"); reveal_strlit("import");
    reveal_strlit("in"); reveal_strlit("instanceof"); reveal_strlit("new"); reveal_strlit("null");
    reveal_strlit("return"); reveal_strlit("super"); reveal_strlit("switch"); reveal_strlit("this");
    reveal_strlit("throw"); reveal_strlit("true"); reveal_strlit("try"); reveal_strlit("typeof");
    reveal_strlit("var"); reveal_strlit("void"); reveal_strlit("while"); reveal_strlit("with");
    reveal_strlit("yield"); reveal_strlit("let"); reveal_strlit("static"); reveal_strlit("implements");
    reveal_strlit("interface"); reveal_strlit("package"); reveal_strlit("private"); reveal_strlit("protected");
    reveal_strlit("public"); reveal_strlit("await"); reveal_strlit("eval"); reveal_strlit("arguments");
}

// ---- the naming scheme as a mathematical function (little-endian base-63 digits after a base-52 head) ----
spec fn digits63(n: nat) -> Seq<char>
    decreases n,
{
    if n == 0 { Seq::<char>::empty() } else { seq![VAR_NAME_CHARS[(n % 63) as int]] + digits63(n / 63) }
}
spec fn raw_name(id: nat) -> Seq<char> {
    seq![VAR_NAME_START_CHARS[(id % 52) as int]] + digits63(id / 52)
}
spec fn name_spec(id: nat) -> Seq<char> {
    if js_reserved(raw_name(id)) { raw_name(id).push('_') } else { raw_name(id) }
}
