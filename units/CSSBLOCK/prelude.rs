// ---- spec side of CSSBLOCK: what a selector-level token loop must do with one nesting level ----
// Written from the properties, not from the loops: at selector level
//  * C09 -- an identifier is a class name exactly when the token handed out just before it is the delimiter `.`;
//  * C08 -- a run of whitespace is kept as ONE space exactly when it sits between two tokens of the level (not at the
//    start, not at the end, not before the rule's `{`); every other token is passed on once, in order, unchanged;
//  * blocks are opened, converted with the converter their kind calls for, and closed with the matching closer.
spec fn dot() -> TokV { TokV::Delim('.') }
spec fn prev_is_dot(items: Seq<BItem>, start: int, i: int) -> bool { i > start && items[i - 1].tok == dot() }
spec fn prev_is_ws(items: Seq<BItem>, start: int, i: int) -> bool { i > start && items[i - 1].tok is WhiteSpace }
spec fn space_at(pos: Position) -> Ev { Ev::Tok { tok: TokV::WhiteSpace(" "@), pos, keep_space: true } }
/// the space kept before item i
spec fn space_ev(t: TokV, pos: Position, after_ws: bool) -> Seq<Ev> {
    if after_ws && !(t is WhiteSpace) && !(t is CurlyBracketBlock) { seq![space_at(pos)] } else { Seq::empty() }
}
/// inside a nested selector block (`[...]`, `(...)`, `:not(...)`, `calc(...)`)
spec fn sel_main(it: BItem, after_dot: bool) -> Seq<Ev> {
    match it.tok {
        TokV::CurlyBracketBlock | TokV::SquareBracketBlock | TokV::ParenthesisBlock =>
            seq![Ev::Open { tok: it.tok, pos: it.pos }, Ev::SelBlock { inner: it.inner }, Ev::Close { tok: closer_of(it.tok), pos: it.pos }],
        TokV::Function(name) =>
            seq![Ev::Open { tok: it.tok, pos: it.pos },
                 if is_math_name(name) { Ev::ValBlock { inner: it.inner, in_calc: Some(true) } } else { Ev::SelBlock { inner: it.inner } },
                 Ev::Close { tok: closer_of(it.tok), pos: it.pos }],
        TokV::Ident(name) => seq![Ev::Name { name, pos: it.pos, in_class: after_dot }],
        TokV::Dimension { .. } => seq![Ev::Dim { tok: it.tok, pos: it.pos }],
        TokV::WhiteSpace(_) => Seq::empty(),
        _ => seq![Ev::Tok { tok: it.tok, pos: it.pos, keep_space: false }],
    }
}
spec fn sel_ev(items: Seq<BItem>, start: int, i: int) -> Seq<Ev> {
    space_ev(items[i].tok, items[i].pos, prev_is_ws(items, start, i)) + sel_main(items[i], prev_is_dot(items, start, i))
}
spec fn sel_events(items: Seq<BItem>, start: int, k: int) -> Seq<Ev>
    decreases k - start,
{
    if k <= start { Seq::empty() } else { sel_events(items, start, k - 1) + sel_ev(items, start, k - 1) }
}
/// at the top level of a qualified rule's prelude: `{` starts the declaration block (values, not selectors) and ends the prelude
spec fn qr_main(it: BItem, after_dot: bool) -> Seq<Ev> {
    match it.tok {
        TokV::CurlyBracketBlock =>
            seq![Ev::Open { tok: it.tok, pos: it.pos }, Ev::ValBlock { inner: it.inner, in_calc: None }, Ev::Close { tok: closer_of(it.tok), pos: it.pos }],
        TokV::SquareBracketBlock | TokV::ParenthesisBlock | TokV::Function(_) =>
            seq![Ev::Open { tok: it.tok, pos: it.pos }, Ev::SelBlock { inner: it.inner }, Ev::Close { tok: closer_of(it.tok), pos: it.pos }],
        TokV::Ident(name) => seq![Ev::Name { name, pos: it.pos, in_class: after_dot }],
        TokV::WhiteSpace(_) => Seq::empty(),
        _ => seq![Ev::Tok { tok: it.tok, pos: it.pos, keep_space: true }],
    }
}
// ---- value level (declaration blocks, function arguments) ----
//  * C08 -- whitespace is dropped, except inside a math function, where the whitespace next to a `+` or `-` delimiter is
//    kept as ONE space (`calc(1px + 2px)` must not become `calc(1px+2px)`);
//  * a function's arguments are in math mode when the function is a math function or the level already is.
spec fn val_main(it: BItem, in_calc: bool, sign_next: bool, sign_prev: bool) -> Seq<Ev> {
    match it.tok {
        TokV::CurlyBracketBlock | TokV::SquareBracketBlock | TokV::ParenthesisBlock =>
            seq![Ev::Open { tok: it.tok, pos: it.pos }, Ev::ValBlock { inner: it.inner, in_calc: Some(in_calc) }, Ev::Close { tok: closer_of(it.tok), pos: it.pos }],
        TokV::Function(name) =>
            seq![Ev::Open { tok: it.tok, pos: it.pos },
                 Ev::ValBlock { inner: it.inner, in_calc: if in_calc || is_math_name(name) { Some(true) } else { None } },
                 Ev::Close { tok: closer_of(it.tok), pos: it.pos }],
        TokV::Dimension { .. } => seq![Ev::Dim { tok: it.tok, pos: it.pos }],
        TokV::WhiteSpace(_) =>
            if in_calc && (sign_next || sign_prev) { seq![Ev::Tok { tok: TokV::WhiteSpace(" "@), pos: it.pos, keep_space: false }] } else { Seq::empty() },
        _ => seq![Ev::Tok { tok: it.tok, pos: it.pos, keep_space: false }],
    }
}
spec fn val_ev(items: Seq<BItem>, i: int, skip_ws: bool, in_calc: bool) -> Seq<Ev> {
    if skip_ws && items[i].tok is WhiteSpace { Seq::empty() }
    else { val_main(items[i], in_calc, i + 1 < items.len() && is_sign(items[i + 1].tok), i > 0 && is_sign(items[i - 1].tok)) }
}
spec fn val_events(items: Seq<BItem>, k: int, skip_ws: bool, in_calc: bool) -> Seq<Ev>
    decreases k,
{
    if k <= 0 { Seq::empty() } else { val_events(items, k - 1, skip_ws, in_calc) + val_ev(items, k - 1, skip_ws, in_calc) }
}
/// skipped whitespace contributes nothing
proof fn lemma_val_skip(items: Seq<BItem>, a: int, skip_ws: bool, in_calc: bool)
    requires skip_ws, 0 <= a <= items.len(),
    ensures val_events(items, first_non_ws(items, a), skip_ws, in_calc) == val_events(items, a, skip_ws, in_calc),
        a <= first_non_ws(items, a) <= items.len(),
        first_non_ws(items, a) < items.len() ==> !(items[first_non_ws(items, a)].tok is WhiteSpace),
    decreases items.len() - a,
{
    if a < items.len() && items[a].tok is WhiteSpace {
        lemma_val_skip(items, a + 1, skip_ws, in_calc);
        assert(val_events(items, a + 1, skip_ws, in_calc) =~= val_events(items, a, skip_ws, in_calc));
    }
}
// ---- the head of the @import rewrite (C18): the wrappers opened for the import's conditions ----
//  * every block the head opens and does not close itself is a `{` wrapper whose closer is on the stack it hands to the
//    tail, in opening order -- so that the tail (unit CSSTR: comment, then the stack popped) leaves the output balanced.
spec fn dep(e: Ev) -> int { match e { Ev::Open { .. } => 1, Ev::Close { .. } => -1, _ => 0 } }
/// blocks opened and not yet closed
spec fn depth(evs: Seq<Ev>) -> int
    decreases evs.len(),
{
    if evs.len() == 0 { 0 } else { depth(evs.drop_last()) + dep(evs.last()) }
}
broadcast proof fn lemma_depth_push(l: Seq<Ev>, e: Ev)
    ensures #[trigger] depth(l.push(e)) == depth(l) + dep(e),
{
    assert(l.push(e).drop_last() =~= l);
}
spec fn curly_closers(st: Seq<StepToken<'static>>) -> bool {
    forall|k: int| 0 <= k < st.len() ==> tokv(#[trigger] st[k].token) == TokV::CloseCurlyBracket
}
broadcast proof fn lemma_fnw(items: Seq<BItem>, c: int)
    ensures ({
        let r = #[trigger] first_non_ws(items, c);
        &&& r <= items.len()
        &&& (0 <= c <= items.len() ==> c <= r)
        &&& (0 <= r < items.len() ==> !(items[r].tok is WhiteSpace) && first_non_ws(items, r) == r)
    }),
    decreases items.len() - c,
{
    if 0 <= c < items.len() && items[c].tok is WhiteSpace { lemma_fnw(items, c + 1); }
}
