// ---- spec side of SCOPES: positions inside an expression as child-index paths (no structural measure needed) ----
spec fn reach(e: Expression, p: Seq<int>) -> Option<Expression>
    decreases p.len(),
{
    if p.len() == 0 { Some(e) } else {
        let s = slots(e);
        if 0 <= p[0] < s.len() && s[p[0]].is_some() { reach(s[p[0]].unwrap(), p.skip(1)) } else { None }
    }
}
/// the data field named at position p of e, if that position holds a DataField
spec fn field_at(e: Expression, p: Seq<int>) -> Option<Seq<char>> {
    match reach(e, p) { Some(Expression::DataField { name, .. }) => Some(name@), _ => None }
}
/// every data field anywhere inside e is disabled in bmc
spec fn all_disabled(e: Expression, bmc: &BindingMapCollector) -> bool {
    forall|p: Seq<int>| (#[trigger] field_at(e, p)).is_some() ==> bmc.disabled(field_at(e, p).unwrap())
}
/// every data field anywhere inside e is known to bmc (mapped with a slot, or disabled)
spec fn all_known(e: Expression, bmc: &BindingMapCollector) -> bool {
    forall|p: Seq<int>| (#[trigger] field_at(e, p)).is_some() ==> bmc.fm@.contains_key(field_at(e, p).unwrap())
}
spec fn known_mono(new: &BindingMapCollector, old: &BindingMapCollector) -> bool {
    new.monotone(old) && forall|g: Seq<char>| old.fm@.contains_key(g) ==> #[trigger] new.fm@.contains_key(g)
}
proof fn lemma_next_full(s: Seq<Option<Expression>>, i: int)
    requires 0 <= i,
    ensures
        i <= next_full(s, i) || next_full(s, i) == s.len(),
        next_full(s, i) <= s.len(),
        forall|k: int| i <= k < next_full(s, i) && k < s.len() ==> (#[trigger] s[k]).is_none(),
    decreases s.len() - i,
{
    if i < s.len() && s[i].is_none() { lemma_next_full(s, i + 1); }
}
/// positions of e: the root, or a position inside one of its present children
proof fn lemma_reach_child(e: Expression, p: Seq<int>)
    requires p.len() > 0, field_at(e, p).is_some(),
    ensures 0 <= p[0] < slots(e).len(), slots(e)[p[0]].is_some(), field_at(slots(e)[p[0]].unwrap(), p.skip(1)) == field_at(e, p),
{
}
proof fn lemma_mono_trans(a: &BindingMapCollector, b: &BindingMapCollector, c: &BindingMapCollector)
    requires b.monotone(a), c.monotone(b),
    ensures c.monotone(a),
{
    assert forall|g: Seq<char>| a.disabled(g) implies #[trigger] c.disabled(g) by { assert(b.disabled(g)); }
}
proof fn lemma_known_trans(a: &BindingMapCollector, b: &BindingMapCollector, c: &BindingMapCollector)
    requires known_mono(b, a), known_mono(c, b),
    ensures known_mono(c, a),
{
    lemma_mono_trans(a, b, c);
    assert forall|g: Seq<char>| a.fm@.contains_key(g) implies #[trigger] c.fm@.contains_key(g) by { assert(b.fm@.contains_key(g)); }
}
proof fn lemma_all_disabled_mono(e: Expression, b: &BindingMapCollector, c: &BindingMapCollector)
    requires all_disabled(e, b), c.monotone(b),
    ensures all_disabled(e, c),
{
    assert forall|p: Seq<int>| (#[trigger] field_at(e, p)).is_some() implies c.disabled(field_at(e, p).unwrap()) by { assert(b.disabled(field_at(e, p).unwrap())); }
}
proof fn lemma_all_known_mono(e: Expression, b: &BindingMapCollector, c: &BindingMapCollector)
    requires all_known(e, b), known_mono(c, b),
    ensures all_known(e, c),
{
    assert forall|p: Seq<int>| (#[trigger] field_at(e, p)).is_some() implies c.fm@.contains_key(field_at(e, p).unwrap()) by { assert(b.fm@.contains_key(field_at(e, p).unwrap())); }
}
