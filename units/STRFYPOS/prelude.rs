// ---- spec side of STRFYPOS (C16: "maps each emitted token to the start of the source construct ..., names carry the
// ---- source spelling, and output positions are non-decreasing") ----
impl<'s> Stringifier<'s> {
    /// the recorded output position is the position of everything written so far
    spec fn pos_ok(&self) -> bool {
        self.line as int == adv_line(0, self.w.t@) && self.utf16_col as int == adv_col(0, self.w.t@)
    }
    /// writing `t` more keeps the u32 counters in range
    spec fn room(&self, t: Seq<char>) -> bool {
        self.line + count_nl(t) <= u32::MAX && self.utf16_col + u16len(t) <= u32::MAX && u16len(t) <= u32::MAX
    }
}
proof fn lemma_adv_nonneg(line: int, col: int, t: Seq<char>)
    requires col >= 0,
    ensures adv_col(col, t) >= 0, adv_line(line, t) >= line,
    decreases t.len(),
{
    if t.len() > 0 { lemma_adv_nonneg(if t[0] == '\n' { line + 1 } else { line }, if t[0] == '\n' { 0 } else { col + utf16_len(t[0]) }, t.skip(1)); }
}
spec fn invalid_name() -> Seq<char> { "__INVALID_SCOPE_NAME__"@ }
impl<'s> Stringifier<'s> {
    /// the printed name of scope `index` (C14: every ScopeRef is printed through this)
    spec fn scope_text(&self, index: int) -> Seq<char> {
        if 0 <= index < self.scope_names@.len() { self.scope_names@[index]@ } else { invalid_name() }
    }
    spec fn same_but_scopes(&self, old: &Self) -> bool {
        self.w == old.w && self.line == old.line && self.utf16_col == old.utf16_col && self.smb == old.smb
            && self.source_path == old.source_path && self.mangling == old.mangling
    }
}
/// room for a + b means room for a, and after writing a, room for b
proof fn lemma_room_split(line: int, col: int, a: Seq<char>, b: Seq<char>)
    requires line + count_nl(a + b) <= u32::MAX, col + u16len(a + b) <= u32::MAX, u16len(a + b) <= u32::MAX, line >= 0, col >= 0,
    ensures
        line + count_nl(a) <= u32::MAX, col + u16len(a) <= u32::MAX, u16len(a) <= u32::MAX,
        adv_line(line, a) + count_nl(b) <= u32::MAX, adv_col(col, a) + u16len(b) <= u32::MAX, u16len(b) <= u32::MAX,
        adv_line(line, a) >= 0, adv_col(col, a) >= 0,
{
    lemma_count_split(a, b);
    lemma_count_split(Seq::<char>::empty(), a);
    assert(Seq::<char>::empty() + a =~= a);
    lemma_adv_closed(line, col, a);
    if last_nl(a) >= 0 { lemma_last_line(a); }
}
