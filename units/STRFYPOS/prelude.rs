// ---- spec side of STRFYPOS (C16: "maps each emitted token to the start of the source construct ..., names carry the
// ---- source spelling, and output positions are non-decreasing") ----
impl<'s> Stringifier<'s> {
    /// the recorded output position is the position of everything written so far
    spec fn pos_ok(&self) -> bool {
        self.line as int == adv_line(0, self.w.t@) && self.utf16_col as int == adv_col(0, self.w.t@)
    }
    /// writing `t` more keeps the u32 counters in range
    spec fn room(&self, t: Seq<char>) -> bool {
        self.line + count_nl(t) <= u32::MAX && self.utf16_col + u16len(t) <= u32::MAX && u16len(t) <= u32::MAX
    }
}
proof fn lemma_adv_nonneg(line: int, col: int, t: Seq<char>)
    requires col >= 0,
    ensures adv_col(col, t) >= 0, adv_line(line, t) >= line,
    decreases t.len(),
{
    if t.len() > 0 { lemma_adv_nonneg(if t[0] == '\n' { line + 1 } else { line }, if t[0] == '\n' { 0 } else { col + utf16_len(t[0]) }, t.skip(1)); }
}
