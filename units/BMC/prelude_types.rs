// ---- stand-in for HashMap<String, BindingMapField> (A3) ----
pub struct FieldMap { pub m: Ghost<Map<Seq<char>, BindingMapField>> }
pub struct FieldEntry<'a> { pub fm: &'a mut FieldMap, pub key: String }
impl FieldMap {
    #[verifier::external_body]
    pub fn new() -> (r: FieldMap)
        ensures r.m@ == Map::<Seq<char>, BindingMapField>::empty(),
    { unimplemented!() }
    #[verifier::external_body]
    pub fn entry(&mut self, key: String) -> (r: FieldEntry<'_>)
        ensures r.key@ == key@, *r.fm == *old(self), *final(self) == *final(r.fm),
    { unimplemented!() }
    #[verifier::external_body]
    pub fn insert(&mut self, key: String, value: BindingMapField) -> (r: Option<BindingMapField>)
        ensures final(self).m@ == old(self).m@.insert(key@, value),
    { unimplemented!() }
    #[verifier::external_body]
    pub fn get(&self, key: &str) -> (r: Option<&BindingMapField>)
        ensures r.is_some() == self.m@.contains_key(key@), r.is_some() ==> *r.unwrap() == self.m@[key@],
    { unimplemented!() }
}
impl<'a> FieldEntry<'a> {
    #[verifier::external_body]
    pub fn or_insert_with<FF: FnOnce() -> BindingMapField>(self, f: FF) -> (r: &'a mut BindingMapField)
        requires f.requires(()),
        ensures
            old(self.fm).m@.contains_key(self.key@) ==> *r == old(self.fm).m@[self.key@],
            !old(self.fm).m@.contains_key(self.key@) ==> f.ensures((), *r),
            final(self.fm).m@ == old(self.fm).m@.insert(self.key@, *final(r)),
    { unimplemented!() }
}
#[verifier::external_body]
pub fn vx_to_owned(s: &str) -> (r: String)
    ensures r@ == s@,
{ unimplemented!() }
