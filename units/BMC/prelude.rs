// ---- spec side of BMC (C07, second clause: "a field used anywhere the map cannot reach is not advertised at all") ----
impl BindingMapCollector {
    spec fn fm(&self) -> Map<Seq<char>, BindingMapField> { self.fields.m@ }
    spec fn disabled(&self, f: Seq<char>) -> bool { self.fm().contains_key(f) && self.fm()[f] is Disabled }
    /// the runtime is offered binding-map updaters for field f
    spec fn advertised(&self, f: Seq<char>) -> bool {
        !self.overall_disabled && self.fm().contains_key(f) && self.fm()[f] is Mapped
    }
    spec fn count(&self, f: Seq<char>) -> nat {
        if self.fm().contains_key(f) { match self.fm()[f] { BindingMapField::Mapped(n) => n as nat, BindingMapField::Disabled => 0 } } else { 0 }
    }
    /// nothing that was disabled (per field or overall) becomes advertised again
    spec fn monotone(&self, old: &Self) -> bool {
        (old.overall_disabled ==> self.overall_disabled) && forall|g: Seq<char>| old.disabled(g) ==> #[trigger] self.disabled(g)
    }
}
impl BindingMapKeys {
    spec fn key_views(&self) -> Seq<Seq<char>> { self.keys@.map_values(|k: (String, usize)| k.0@) }
}
