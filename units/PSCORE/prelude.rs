// ---- spec side of PSCORE: the position after reading a text (written from the property: "line and UTF-16
// ---- column, across line breaks and non-BMP characters") ----
impl<'s> ParseState<'s> {
    spec fn src(&self) -> Seq<char> { self.whole_str@ }
    /// the cursor is on a character boundary
    spec fn wf(&self) -> bool { is_boundary(self.src(), self.cur_index as int) }
    /// character index of the cursor
    spec fn ci(&self) -> int { choose|i: int| 0 <= i <= self.src().len() && boff(self.src(), i) == self.cur_index }
    spec fn rest(&self) -> Seq<char> { self.src().skip(self.ci()) }
    /// what remains to be read cannot overflow the u32 counters (established by `new`, which truncates the source)
    spec fn fits(&self) -> bool {
        &&& boff(self.src(), self.src().len() as int) <= usize::MAX
        &&& self.line + count_nl(self.rest()) <= u32::MAX
        &&& self.utf16_col + u16len(self.rest()) <= u32::MAX
        &&& u16len(self.rest()) <= u32::MAX
    }
    /// same text, mode and diagnostics; cursor moved forward over `k` characters with the position advanced accordingly
    spec fn advanced(&self, old: &Self, k: int) -> bool {
        &&& self.whole_str == old.whole_str
        &&& self.path == old.path
        &&& self.auto_skip_whitespace == old.auto_skip_whitespace
        &&& self.warnings == old.warnings
        &&& self.wf()
        &&& 0 <= k <= old.rest().len()
        &&& self.ci() == old.ci() + k
        &&& self.line as int == adv_line(old.line as int, old.rest().take(k))
        &&& self.utf16_col as int == adv_col(old.utf16_col as int, old.rest().take(k))
        &&& (old.fits() ==> self.fits())
    }
}

// ---- lemmas ----
proof fn lemma_ci(ps: &ParseState)
    requires ps.wf(),
    ensures 0 <= ps.ci() <= ps.src().len(), boff(ps.src(), ps.ci()) == ps.cur_index,
{
}
proof fn lemma_ci_unique(ps: &ParseState, i: int)
    requires 0 <= i <= ps.src().len(), boff(ps.src(), i) == ps.cur_index,
    ensures ps.wf(), ps.ci() == i,
{
    lemma_boff_inj(ps.src(), i, ps.ci());
}
/// character index of byte offset b in s (meaningful when b is a boundary)
spec fn bi(s: Seq<char>, b: int) -> int { choose|i: int| 0 <= i <= s.len() && boff(s, i) == b }
/// everything skip_bytes needs about the piece it skips, in one place
proof fn lemma_skip_piece(ps: &ParseState, count: int)
    requires ps.wf(), ps.fits(), is_boundary(ps.rest(), count),
    ensures ({
        let r0 = ps.rest();
        let k = bi(r0, count);
        let sk = r0.take(k);
        &&& 0 <= k <= r0.len() && boff(r0, k) == count
        &&& forall|i: int| 0 <= i <= r0.len() && boff(r0, i) == count ==> i == k
        &&& 0 <= ps.ci() && ps.ci() + k <= ps.src().len()
        &&& ps.cur_index + count == boff(ps.src(), ps.ci() + k)
        &&& ps.cur_index + count <= usize::MAX
        &&& ps.src().skip(ps.ci() + k) == r0.skip(k)
        &&& r0 == sk + r0.skip(k)
        &&& count_nl(r0) == count_nl(sk) + count_nl(r0.skip(k)) && count_nl(sk) >= 0 && count_nl(r0.skip(k)) >= 0
        &&& u16len(r0) == u16len(sk) + u16len(r0.skip(k)) && u16len(sk) >= 0 && u16len(r0.skip(k)) >= 0
    }),
{
    let r0 = ps.rest();
    let k = bi(r0, count);
    let sk = r0.take(k);
    lemma_ci(ps);
    assert forall|i: int| 0 <= i <= r0.len() && boff(r0, i) == count implies i == k by { lemma_boff_inj(r0, i, k); }
    lemma_boff_skip(ps.src(), ps.ci(), k);
    lemma_boff_le(ps.src(), ps.ci() + k, ps.src().len() as int);
    assert(ps.src().skip(ps.ci() + k) =~= r0.skip(k));
    assert(r0 =~= sk + r0.skip(k));
    lemma_count_split(sk, r0.skip(k));
    lemma_count_split(Seq::<char>::empty(), sk);
    assert(Seq::<char>::empty() + sk =~= sk);
}

// ---- whitespace skipping as a function of the remaining text ----
spec fn is_tws(c: char) -> bool { c == ' ' || ('\u{9}' <= c && c <= '\u{d}') }
/// number of leading template-whitespace characters of t
spec fn ws_len(t: Seq<char>) -> int
    decreases t.len(),
{
    if t.len() > 0 && is_tws(t[0]) { 1 + ws_len(t.skip(1)) } else { 0 }
}
/// index of the first `*/` in t at or after i, or -1
spec fn comment_end(t: Seq<char>, i: int) -> int
    decreases t.len() - i,
{
    if i < 0 || i + 1 >= t.len() { -1 } else if t[i] == '*' && t[i + 1] == '/' { i } else { comment_end(t, i + 1) }
}
/// number of characters that skip_whitespace_with_js_comments consumes from t
spec fn ws_js_len(t: Seq<char>) -> int
    decreases t.len(),
{
    let j = ws_len(t);
    if j < 0 || j > t.len() { 0 }
    else if j > 0 { j + ws_js_len(t.skip(j)) }
    else if t.len() >= 2 && t[0] == '/' && t[1] == '*' {
        let k = comment_end(t, 2);
        if k < 2 || k + 2 > t.len() { t.len() as int } else { k + 2 + ws_js_len(t.skip(k + 2)) }
    } else { 0 }
}
impl<'s> ParseState<'s> {
    /// how far the automatic whitespace skipping of next/peek*/consume_str moves first
    spec fn auto_len(&self) -> int { if self.auto_skip_whitespace.is_some() { ws_js_len(self.rest()) } else { 0 } }
}
/// call through the stored fn pointer (only skip_whitespace_with_js_comments is ever stored there): ASSUMED to do what
/// that function does
#[verifier::external_body]
fn vx_call_ws(f: WsFn, ps: &mut ParseState) -> (r: Option<Range<Position>>)
    requires old(ps).wf(), old(ps).fits(),
    ensures final(ps).advanced(old(ps), ws_js_len(old(ps).rest())),
{ unimplemented!() }
proof fn lemma_advanced_trans(a: &ParseState, b: &ParseState, c: &ParseState, k1: int, k2: int)
    requires b.advanced(a, k1), c.advanced(b, k2), a.wf(),
    ensures c.advanced(a, k1 + k2),
{
    lemma_ci(a); lemma_ci(b); lemma_ci(c);
    let r = a.rest();
    assert(b.rest() =~= r.skip(k1));
    assert(r.take(k1 + k2) =~= r.take(k1) + b.rest().take(k2));
    lemma_adv_split(a.line as int, a.utf16_col as int, r.take(k1), b.rest().take(k2));
}
/// moving by nothing is a (trivial) advance
proof fn lemma_advanced_refl(a: &ParseState)
    requires a.wf(),
    ensures a.advanced(a, 0),
{
    lemma_ci(a);
    assert(a.rest().take(0) =~= Seq::<char>::empty());
}
/// the facts `next` needs about the single character it steps over
proof fn lemma_one_char(ps: &ParseState)
    requires ps.wf(), ps.fits(), ps.rest().len() > 0,
    ensures ({
        let r0 = ps.rest();
        let c = r0[0];
        &&& is_boundary(r0, boff(r0, 1)) && bi(r0, boff(r0, 1)) == 1 && boff(r0, 1) == utf8_len(c) && boff(r0, 1) >= 1
        &&& r0.take(1) == seq![c]
        &&& adv_line(ps.line as int, seq![c]) == (if c == '\n' { ps.line + 1 } else { ps.line as int })
        &&& adv_col(ps.utf16_col as int, seq![c]) == (if c == '\n' { 0 } else { ps.utf16_col + utf16_len(c) })
        &&& count_nl(seq![c]) == (if c == '\n' { 1int } else { 0int }) && u16len(seq![c]) == utf16_len(c)
        &&& (r0.len() == 1 ==> boff(r0, r0.len() as int) == boff(r0, 1))
    }),
{
    let r0 = ps.rest();
    let c = r0[0];
    assert(boff(r0, 1) == boff(r0, 0) + utf8_len(r0[0]));
    assert(boff(r0, 0) == 0);
    assert forall|i: int| 0 <= i <= r0.len() && #[trigger] boff(r0, i) == boff(r0, 1) implies i == 1 by { lemma_boff_inj(r0, i, 1); }
    assert(r0.take(1) =~= seq![c]);
    reveal_with_fuel(adv_line, 2);
    reveal_with_fuel(adv_col, 2);
    assert(seq![c].skip(1) =~= Seq::<char>::empty());
    assert(seq![c].drop_last() =~= Seq::<char>::empty());
    reveal_with_fuel(count_nl, 2);
    reveal_with_fuel(u16len, 2);
}
proof fn lemma_ws_len(t: Seq<char>, k: int)
    requires 0 <= k <= t.len(), forall|j: int| 0 <= j < k ==> is_tws(#[trigger] t[j]), k == t.len() || !is_tws(t[k]),
    ensures ws_len(t) == k,
    decreases k,
{
    if k > 0 {
        assert(is_tws(t[0]));
        assert forall|j: int| 0 <= j < k - 1 implies is_tws(#[trigger] t.skip(1)[j]) by { assert(t.skip(1)[j] == t[j + 1]); }
        if k < t.len() { assert(t.skip(1)[k - 1] == t[k]); }
        lemma_ws_len(t.skip(1), k - 1);
    }
}
/// bookkeeping of one more whitespace character inside skip_whitespace's loop
proof fn lemma_ws_step(line: int, col: int, r0: Seq<char>, k: int)
    requires 0 <= k < r0.len(),
    ensures
        adv_line(line, r0.take(k + 1)) == (if r0[k] == '\n' { adv_line(line, r0.take(k)) + 1 } else { adv_line(line, r0.take(k)) }),
        adv_col(col, r0.take(k + 1)) == (if r0[k] == '\n' { 0 } else { adv_col(col, r0.take(k)) + utf16_len(r0[k]) }),
        count_nl(r0.skip(k)) == count_nl(r0.skip(k + 1)) + (if r0[k] == '\n' { 1int } else { 0int }),
        u16len(r0.skip(k)) == u16len(r0.skip(k + 1)) + utf16_len(r0[k]),
        count_nl(r0.skip(k + 1)) >= 0, u16len(r0.skip(k + 1)) >= 0,
{
    assert(r0.take(k + 1) =~= r0.take(k).push(r0[k]));
    lemma_adv_push(line, col, r0.take(k), r0[k]);
    assert(r0.skip(k) =~= seq![r0[k]] + r0.skip(k + 1));
    lemma_count_split(seq![r0[k]], r0.skip(k + 1));
    reveal_with_fuel(count_nl, 2);
    reveal_with_fuel(u16len, 2);
    assert(seq![r0[k]].drop_last() =~= Seq::<char>::empty());
}
impl<'s> ParseState<'s> {
    /// the text in front of the cursor after the automatic whitespace skipping
    spec fn auto_rest(&self) -> Seq<char> { self.rest().skip(self.auto_len()) }
}
spec fn none_follows<const N: usize>(excepts: [&str; N], t: Seq<char>) -> bool {
    forall|k: int| 0 <= k < N ==> !(#[trigger] excepts[k])@.is_prefix_of(t)
}
// ---- skip_until_* and the comment skipper ----
proof fn lemma_find_first(t: Seq<char>, u: Seq<char>, i: int)
    requires 0 <= i <= t.len(),
    ensures ({
        let k = find_first(t, u, i);
        &&& (k >= 0 ==> i <= k <= t.len() && u.is_prefix_of(t.skip(k)) && k + u.len() <= t.len())
        &&& (k < 0 ==> forall|j: int| i <= j <= t.len() ==> !u.is_prefix_of(#[trigger] t.skip(j)))
        &&& (k >= 0 ==> forall|j: int| i <= j < k ==> !u.is_prefix_of(#[trigger] t.skip(j)))
    }),
    decreases t.len() - i,
{
    if !u.is_prefix_of(t.skip(i)) && i < t.len() { lemma_find_first(t, u, i + 1); }
}
/// `*/` search of the comment skipper, phrased with find_first
proof fn lemma_comment_end(t: Seq<char>, i: int)
    requires 0 <= i <= t.len(),
    ensures comment_end(t, i) == find_first(t, seq!['*', '/'], i),
    decreases t.len() - i,
{
    let u = seq!['*', '/'];
    if i + 1 >= t.len() {
        assert(!u.is_prefix_of(t.skip(i))) by { if u.is_prefix_of(t.skip(i)) { assert(u.len() <= t.skip(i).len()); } }
        if i < t.len() {
            assert(!u.is_prefix_of(t.skip(i + 1))) by { if u.is_prefix_of(t.skip(i + 1)) { assert(u.len() <= t.skip(i + 1).len()); } }
            reveal_with_fuel(find_first, 3);
        }
    } else {
        if t[i] == '*' && t[i + 1] == '/' {
            assert(u =~= t.skip(i).subrange(0, 2));
        } else {
            if u.is_prefix_of(t.skip(i)) { assert(u[0] == t.skip(i)[0] && u[1] == t.skip(i)[1]); }
            lemma_comment_end(t, i + 1);
        }
    }
}
proof fn lemma_find_shift(t: Seq<char>, u: Seq<char>, i: int, j: int)
    requires 0 <= i, 0 <= j, i + j <= t.len(),
    ensures find_first(t.skip(i), u, j) == (if find_first(t, u, i + j) >= 0 { find_first(t, u, i + j) - i } else { -1 }),
    decreases t.len() - i - j,
{
    assert(t.skip(i).skip(j) =~= t.skip(i + j));
    lemma_find_first(t, u, i + j);
    if !u.is_prefix_of(t.skip(i + j)) && i + j < t.len() { lemma_find_shift(t, u, i, j + 1); }
}
/// one round of the comment skipper on a text that starts with `/*`
proof fn lemma_ws_js_comment(t: Seq<char>)
    requires t.len() >= 2, t[0] == '/', t[1] == '*',
    ensures ({
        let kk = find_first(t.skip(2), seq!['*', '/'], 0);
        &&& ws_len(t) == 0
        &&& (kk >= 0 ==> kk + 4 <= t.len() && ws_js_len(t) == 2 + kk + 2 + ws_js_len(t.skip(2 + kk + 2)))
        &&& (kk < 0 ==> ws_js_len(t) == t.len())
    }),
{
    let u = seq!['*', '/'];
    lemma_comment_end(t, 2);
    lemma_find_shift(t, u, 2, 0);
    lemma_find_first(t, u, 2);
    assert(!is_tws(t[0]));
}
proof fn lemma_ws_js_ws(t: Seq<char>)
    requires ws_len(t) > 0,
    ensures ws_len(t) <= t.len(), ws_js_len(t) == ws_len(t) + ws_js_len(t.skip(ws_len(t))),
{
    lemma_ws_len_bound(t);
}
proof fn lemma_ws_len_bound(t: Seq<char>)
    ensures 0 <= ws_len(t) <= t.len(),
    decreases t.len(),
{
    if t.len() > 0 && is_tws(t[0]) { lemma_ws_len_bound(t.skip(1)); }
}
proof fn lemma_ws_js_none(t: Seq<char>)
    requires ws_len(t) == 0, !(t.len() >= 2 && t[0] == '/' && t[1] == '*'),
    ensures ws_js_len(t) == 0,
{
}
/// no character boundary lies strictly inside the first character
proof fn lemma_first_boundary(t: Seq<char>, b: int)
    requires t.len() > 0, 0 < b < boff(t, 1),
    ensures !is_boundary(t, b),
{
    if is_boundary(t, b) {
        let j = choose|j: int| 0 <= j <= t.len() && boff(t, j) == b;
        assert(boff(t, 0) == 0);
        if j >= 1 { if j > 1 { lemma_boff_lt(t, 1, j); } }
    }
}
#[verifier::external_body]
fn vx_log_error() { }
/// one whitespace round of the comment skipper
proof fn lemma_js_step_ws(o: &ParseState, s1: &ParseState, s2: &ParseState, k: int)
    requires o.wf(), s1.advanced(o, k), s2.advanced(s1, ws_len(s1.rest())), ws_len(s1.rest()) > 0,
    ensures
        s2.advanced(o, k + ws_len(s1.rest())),
        ws_js_len(s1.rest()) == ws_len(s1.rest()) + ws_js_len(s2.rest()),
        s2.rest().len() < s1.rest().len(),
{
    let t = s1.rest();
    lemma_ws_js_ws(t);
    lemma_advanced_trans(o, s1, s2, k, ws_len(t));
    lemma_ci(s2); lemma_ci(s1);
    assert(s2.rest() =~= t.skip(ws_len(t)));
}
/// one comment round: `/*` skipped (s3), then up to and including `*/` or to the end (s4)
proof fn lemma_js_step_comment(o: &ParseState, s2: &ParseState, s3: &ParseState, s4: &ParseState, k: int)
    requires
        o.wf(), s2.advanced(o, k), s2.rest().len() >= 2, s2.rest()[0] == '/', s2.rest()[1] == '*',
        s3.advanced(s2, 2),
        ({
            let kk = find_first(s3.rest(), seq!['*', '/'], 0);
            (kk >= 0 ==> s4.advanced(s3, kk + 2)) && (kk < 0 ==> s4.advanced(s3, s3.rest().len() as int))
        }),
    ensures ({
        let m = ws_js_len(s2.rest()) - ws_js_len(s4.rest());
        &&& m >= 2
        &&& s4.advanced(o, k + m)
        &&& s4.rest().len() < s2.rest().len()
    }),
{
    let t = s2.rest();
    lemma_ws_js_comment(t);
    lemma_ci(s2); lemma_ci(s3); lemma_ci(s4);
    assert(s3.rest() =~= t.skip(2));
    let kk = find_first(t.skip(2), seq!['*', '/'], 0);
    let m = if kk >= 0 { kk + 2 } else { t.skip(2).len() as int };
    lemma_advanced_trans(s2, s3, s4, 2, m);
    lemma_advanced_trans(o, s2, s4, k, 2 + m);
    assert(s4.rest() =~= t.skip(2 + m));
    if kk < 0 { assert(t.skip(2 + m) =~= Seq::<char>::empty()); assert(ws_js_len(Seq::<char>::empty()) == 0); }
}
/// `/*` is two one-byte characters
proof fn lemma_slash_star(t: Seq<char>)
    requires t.len() >= 2, t[0] == '/', t[1] == '*',
    ensures boff(t, 2) == 2, is_boundary(t, 2), bi(t, 2) == 2,
{
    reveal_with_fuel(boff, 3);
    assert(boff(t, 2) == 2);
    assert(is_boundary(t, 2));
    let j = bi(t, 2);
    assert(0 <= j <= t.len() && boff(t, j) == 2);
    lemma_boff_inj(t, j, 2);
}
proof fn lemma_starts_slash_star(t: Seq<char>)
    ensures seq!['/', '*'].is_prefix_of(t) == (t.len() >= 2 && t[0] == '/' && t[1] == '*'),
{
    let u = seq!['/', '*'];
    if u.is_prefix_of(t) { assert(t[0] == u[0] && t[1] == u[1]); }
    else if t.len() >= 2 && t[0] == '/' && t[1] == '*' { assert(u =~= t.subrange(0, 2)); }
}
