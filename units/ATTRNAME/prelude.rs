// ---- unit ATTRNAME: specifications written from the naming convention (property C12) ----
/// ASCII upper-casing of ONE character: 'a'..='z' are shifted by 32, every other character (in particular every
/// non-ASCII character) is itself
pub open spec fn to_ascii_upper(c: char) -> char { if 'a' <= c && c <= 'z' { ((c as u8) - 32u8) as char } else { c } }
/// ASSUMED (A2): char::to_ascii_uppercase
pub assume_specification [char::to_ascii_uppercase] (c: &char) -> (r: char)
    ensures r == to_ascii_upper(*c);
/// ASSUMED (A2): char::to_ascii_lowercase (not used by the code as it stands; given its std semantics so that the
/// spelling `to_ascii_lowercase` fails the postcondition instead of leaving the verifier's vocabulary)
pub assume_specification [char::to_ascii_lowercase] (c: &char) -> (r: char)
    ensures r == lower_char(*c);
/// ASSUMED (A2): the ASCII character-class predicates of `char` (not used by the code as it stands; given their std
/// semantics so that a condition added to the conversion fails the postcondition instead of leaving the verifier's
/// vocabulary -- seed C12-17)
pub assume_specification [char::is_ascii_alphabetic] (c: &char) -> (r: bool)
    ensures r == (('a' <= *c && *c <= 'z') || ('A' <= *c && *c <= 'Z'));
pub assume_specification [char::is_ascii_lowercase] (c: &char) -> (r: bool)
    ensures r == ('a' <= *c && *c <= 'z');
pub assume_specification [char::is_ascii_uppercase] (c: &char) -> (r: bool)
    ensures r == ('A' <= *c && *c <= 'Z');
pub assume_specification [char::is_ascii_digit] (c: &char) -> (r: bool)
    ensures r == ('0' <= *c && *c <= '9');
pub assume_specification [char::is_ascii_alphanumeric] (c: &char) -> (r: bool)
    ensures r == (('a' <= *c && *c <= 'z') || ('A' <= *c && *c <= 'Z') || ('0' <= *c && *c <= '9'));
pub assume_specification [char::is_ascii] (c: &char) -> (r: bool)
    ensures r == ((*c as u32) < 0x80);
impl CompactString {
    /// ASSUMED (A2): compact_str::CompactString::new(s) holds exactly the characters of `s`
    #[verifier::external_body]
    pub fn new(s: &str) -> (r: CompactString)
        ensures r@ == s@,
    { unimplemented!() }
}
/// the character the camel-case name has for the non-dash character at index `i` of the written name: the first
/// non-dash character after a (run of) `-` -- i.e. the one whose predecessor is a `-` -- is ASCII-upper-cased,
/// every other character is copied
pub open spec fn camel_char(s: Seq<char>, i: int) -> char {
    if i > 0 && s[i - 1] == '-' { to_ascii_upper(s[i]) } else { s[i] }
}
/// the convention applied to the first `n` characters: every `-` is dropped, every other character contributes
/// exactly `camel_char`, in order, and nothing else is added
pub open spec fn camel_upto(s: Seq<char>, n: int) -> Seq<char>
    decreases n,
{
    if n <= 0 { Seq::empty() }
    else if s[n - 1] == '-' { camel_upto(s, n - 1) }
    else { camel_upto(s, n - 1).push(camel_char(s, n - 1)) }
}
pub open spec fn camel_spec(s: Seq<char>) -> Seq<char> { camel_upto(s, s.len() as int) }
pub open spec fn has_dash(s: Seq<char>) -> bool { exists|i: int| 0 <= i < s.len() && s[i] == '-' }

/// a name without `-` is unchanged, character for character
pub proof fn lemma_camel_no_dash(s: Seq<char>)
    requires !has_dash(s),
    ensures camel_spec(s) == s,
{
    lemma_camel_no_dash_upto(s, s.len() as int);
    assert(s.take(s.len() as int) =~= s);
}
proof fn lemma_camel_no_dash_upto(s: Seq<char>, n: int)
    requires !has_dash(s), 0 <= n <= s.len(),
    ensures camel_upto(s, n) == s.take(n),
    decreases n,
{
    if n > 0 {
        lemma_camel_no_dash_upto(s, n - 1);
        assert(s[n - 1] != '-');
        if n - 1 > 0 { assert(s[n - 2] != '-'); }
        assert(s.take(n - 1).push(s[n - 1]) =~= s.take(n));
    } else {
        assert(s.take(0) =~= Seq::<char>::empty());
    }
}
/// the converted name never contains a `-`, is never longer than the written name, and every character of it is
/// a character of the written name or the ASCII upper-casing of one (so a non-ASCII character is never altered:
/// to_ascii_upper is the identity outside 'a'..='z')
pub proof fn lemma_camel_chars(s: Seq<char>, n: int)
    requires 0 <= n <= s.len(),
    ensures
        camel_upto(s, n).len() <= n,
        forall|k: int| 0 <= k < camel_upto(s, n).len() ==> (#[trigger] camel_upto(s, n)[k]) != '-',
        forall|k: int| 0 <= k < camel_upto(s, n).len() ==> exists|i: int| 0 <= i < n && s[i] != '-' && (#[trigger] camel_upto(s, n)[k]) == camel_char(s, i),
    decreases n,
{
    if n > 0 {
        lemma_camel_chars(s, n - 1);
        let p = camel_upto(s, n - 1);
        let q = camel_upto(s, n);
        assert forall|k: int| 0 <= k < q.len() implies exists|i: int| 0 <= i < n && s[i] != '-' && (#[trigger] q[k]) == camel_char(s, i) by {
            if k < p.len() {
                assert(q[k] == p[k]);
                let i = choose|i: int| 0 <= i < n - 1 && s[i] != '-' && p[k] == camel_char(s, i);
                assert(0 <= i < n && s[i] != '-' && q[k] == camel_char(s, i));
            } else {
                assert(s[n - 1] != '-' && q[k] == camel_char(s, n - 1));
            }
        }
    }
}

// ---- stand-ins for compact_str::CompactString as used by the two statement slices ----
/// ASSUMED (A2): `CompactString: Deref<Target = str>` yields the same characters (so `&name` coerces to `&str` and
/// `str` methods are reachable through auto-deref exactly as in the crate)
impl core::ops::Deref for CompactString {
    type Target = str;
    #[verifier::external_body]
    fn deref(&self) -> (r: &str)
        ensures r@ == self@,
    { unimplemented!() }
}
/// ASSUMED (A2): `From<&str> for CompactString` / `From<String> for CompactString` (reached through `.into()`)
impl<'a> From<&'a str> for CompactString {
    #[verifier::external_body]
    fn from(s: &'a str) -> (r: CompactString)
        ensures r@ == s@,
    { unimplemented!() }
}
impl From<String> for CompactString {
    #[verifier::external_body]
    fn from(s: String) -> (r: CompactString)
        ensures r@ == s@,
    { unimplemented!() }
}
impl CompactString {
    #[verifier::external_body]
    pub fn as_str(&self) -> (r: &str)
        ensures r@ == self@,
    { unimplemented!() }
    /// ASSUMED (A2): str::strip_prefix (through Deref) with a `&str` pattern: Some(rest) exactly when the text starts
    /// with the pattern, and then `rest` is the text after ONE occurrence of it
    #[verifier::external_body]
    pub fn strip_prefix<'a>(&'a self, prefix: &str) -> (r: Option<&'a str>)
        ensures
            r.is_some() == prefix@.is_prefix_of(self@),
            r.is_some() ==> r.unwrap()@ == self@.skip(prefix@.len() as int),
    { unimplemented!() }
    /// ASSUMED (A2): str::strip_suffix (through Deref) with a `&str` pattern: Some(head) exactly when the text ends
    /// with the pattern, and then `head` is the text before that ONE trailing occurrence
    #[verifier::external_body]
    pub fn strip_suffix<'a>(&'a self, suffix: &str) -> (r: Option<&'a str>)
        ensures
            r.is_some() == suffix@.is_suffix_of(self@),
            r.is_some() ==> r.unwrap()@ == self@.take(self@.len() - suffix@.len()),
    { unimplemented!() }
    /// ASSUMED (A2): str::trim_start_matches / trim_end_matches with a `&str` pattern remove ALL repeated
    /// occurrences (not used by the code as it stands; given their std semantics so that these spellings fail the
    /// postcondition instead of leaving the verifier's vocabulary)
    #[verifier::external_body]
    pub fn trim_start_matches<'a>(&'a self, pat: &str) -> (r: &'a str)
        ensures r@ == trim_start_all(self@, pat@),
    { unimplemented!() }
    #[verifier::external_body]
    pub fn trim_end_matches<'a>(&'a self, pat: &str) -> (r: &'a str)
        ensures r@ == trim_end_all(self@, pat@),
    { unimplemented!() }
}
pub open spec fn trim_start_all(s: Seq<char>, p: Seq<char>) -> Seq<char>
    decreases s.len(),
{
    if p.len() > 0 && p.is_prefix_of(s) { trim_start_all(s.skip(p.len() as int), p) } else { s }
}
pub open spec fn trim_end_all(s: Seq<char>, p: Seq<char>) -> Seq<char>
    decreases s.len(),
{
    if p.len() > 0 && p.is_suffix_of(s) { trim_end_all(s.take(s.len() - p.len()), p) } else { s }
}
/// #[derive(Clone)] of Range<Position> (Position is Copy): the clone is the value
#[verifier::external_body]
fn vx_clone_range(r: &Range<Position>) -> (o: Range<Position>)
    ensures o == *r,
{ r.clone() }
/// char::is_uppercase is the Unicode property `Uppercase`; on ASCII it is exactly 'A'..='Z' (ASSUMED, A2)
pub uninterp spec fn uni_upper(c: char) -> bool;
pub assume_specification [char::is_uppercase] (c: char) -> (r: bool)
    ensures r == uni_upper(c);
#[verifier::external_body]
pub broadcast proof fn axiom_uni_upper_ascii(c: char)
    requires (c as u32) < 0x80,
    ensures #[trigger] uni_upper(c) == ('A' <= c && c <= 'Z'),
{
}
pub open spec fn has_upper(s: Seq<char>) -> bool { exists|i: int| 0 <= i < s.len() && uni_upper(#[trigger] s[i]) }
pub open spec fn has_ascii_upper(s: Seq<char>) -> bool { exists|i: int| 0 <= i < s.len() && 'A' <= (#[trigger] s[i]) && s[i] <= 'Z' }
pub open spec fn all_ascii(s: Seq<char>) -> bool { forall|i: int| 0 <= i < s.len() ==> ((#[trigger] s[i]) as u32) < 0x80 }
/// names are ASCII (Ident::is_start_char / is_following_char), and on ASCII text the two notions coincide
pub proof fn lemma_upper_ascii(s: Seq<char>)
    requires all_ascii(s),
    ensures has_upper(s) == has_ascii_upper(s),
{
    if has_upper(s) {
        let i = choose|i: int| 0 <= i < s.len() && uni_upper(#[trigger] s[i]);
        axiom_uni_upper_ascii(s[i]);
        assert('A' <= s[i] && s[i] <= 'Z');
    }
    if has_ascii_upper(s) {
        let i = choose|i: int| 0 <= i < s.len() && 'A' <= (#[trigger] s[i]) && s[i] <= 'Z';
        axiom_uni_upper_ascii(s[i]);
        assert(uni_upper(s[i]));
    }
}

// ---- the attribute-name convention (C12), as a table over the attribute kinds ----
pub open spec fn data_prefix() -> Seq<char> { seq!['d', 'a', 't', 'a', '-'] }
/// `model:` / `change:` / `worklet:` / `slot:` names are written with dashes and denote the camel-case name
spec fn is_camel_kind(k: AttrPrefixKind) -> bool {
    k is Model || k is Change || k is Worklet || k is SlotDataRef
}
/// the warning the `data-` convention gives for a name with an upper-case letter: at the attribute name's location
spec fn upper_warning(loc: Range<Position>) -> Warning {
    Warning { kind: ParseErrorKind::AvoidUppercaseLetters, start: loc.start, end: loc.end }
}
pub proof fn lemma_lower_idem(s: Seq<char>)
    ensures lower(lower(s)) == lower(s),
{
    assert(lower(lower(s)) =~= lower(s));
}

// ---- worked examples of the convention (proved; they pin the reading of the specification functions) ----
/// `data-data-id`: exactly one `data-` is removed, the inner `data` stays: `dataId`
proof fn example_data_data_id()
    ensures
        data_prefix().is_prefix_of(seq!['d','a','t','a','-','d','a','t','a','-','i','d']),
        camel_spec(lower(seq!['d','a','t','a','-','d','a','t','a','-','i','d'].skip(5))) == seq!['d','a','t','a','I','d'],
{
    let w = seq!['d','a','t','a','-','d','a','t','a','-','i','d'];
    let s = seq!['d','a','t','a','-','i','d'];
    assert(data_prefix() =~= w.subrange(0, 5));
    assert(lower(w.skip(5)) =~= s);
    reveal_with_fuel(camel_upto, 8);
    assert(camel_upto(s, 7) =~= seq!['d','a','t','a','I','d']);
}
/// a run of dashes is dropped as a whole and upper-cases the next character; a trailing dash just disappears;
/// a non-ASCII character after a dash is copied unchanged
proof fn example_dash_runs()
    ensures
        camel_spec(seq!['a','-','-','b','-']) == seq!['a','B'],
        camel_spec(seq!['x','-','\u{e9}','-','1']) == seq!['x','\u{e9}','1'],
{
    reveal_with_fuel(camel_upto, 6);
    assert(camel_upto(seq!['a','-','-','b','-'], 5) =~= seq!['a','B']);
    assert(camel_upto(seq!['x','-','\u{e9}','-','1'], 5) =~= seq!['x','\u{e9}','1']);
}
