// ---- spec side of GROUP (C20: output is a function of the SET of inputs; importing a group = adding its files) ----
impl TmplGroup {
    /// some file of the group needs the script runtime: an external script, or a template with an inline script module
    spec fn needs_scripts(&self) -> bool {
        self.scripts.m@.dom().len() > 0 || !self.scripts.m@.dom().finite() || exists|p: Seq<char>| self.trees.m@.contains_key(p) && (#[trigger] self.trees.m@[p]).has_inline@
    }
    spec fn any_script(&self) -> bool { exists|p: Seq<char>| #[trigger] self.scripts.m@.contains_key(p) }
    spec fn any_inline(&self) -> bool { exists|p: Seq<char>| self.trees.m@.contains_key(p) && (#[trigger] self.trees.m@[p]).has_inline@ }
    /// the flag never under-reports: whatever the history, a group whose files need the script runtime says so
    spec fn flag_ok(&self) -> bool { (self.any_script() || self.any_inline()) ==> self.has_scripts }
    /// ... and for histories that only add files under fresh paths it is exactly that function of the set of files
    spec fn flag_exact(&self) -> bool { self.has_scripts == (self.any_script() || self.any_inline()) }
}
