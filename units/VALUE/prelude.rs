// ---- spec side of VALUE ----
/// the cursor went from `old` to where it is now: same text and mode, diagnostics only appended, position advanced over
/// exactly the text in between
#[verifier::opaque]
spec fn went(new: &ParseState, old: &ParseState) -> bool {
    &&& new.wf() && old.wf()
    &&& new.whole_str == old.whole_str
    &&& new.auto@ == old.auto@
    &&& old.warnings@.is_prefix_of(new.warnings@)
    &&& old.idx@ <= new.idx@ <= old.src().len()
    &&& new.line as int == adv_line(old.line as int, old.src().subrange(old.idx@, new.idx@))
    &&& new.utf16_col as int == adv_col(old.utf16_col as int, old.src().subrange(old.idx@, new.idx@))
    &&& pos_le(old.pos(), new.pos())
}
proof fn lemma_went_refl(a: &ParseState)
    requires a.wf(),
    ensures went(a, a),
{
    reveal(went);
    assert(a.src().subrange(a.idx@, a.idx@) =~= Seq::<char>::empty());
    assert(a.warnings@.is_prefix_of(a.warnings@));
}
proof fn lemma_went_trans(a: &ParseState, b: &ParseState, c: &ParseState)
    requires went(b, a), went(c, b),
    ensures went(c, a),
{
    reveal(went);
    let s = a.src();
    assert(s.subrange(a.idx@, c.idx@) =~= s.subrange(a.idx@, b.idx@) + s.subrange(b.idx@, c.idx@));
    lemma_adv_split(a.line as int, a.utf16_col as int, s.subrange(a.idx@, b.idx@), s.subrange(b.idx@, c.idx@));
    lemma_adv_monotone(a.line as int, a.utf16_col as int, s.subrange(a.idx@, c.idx@));
    assert(a.warnings@.is_prefix_of(c.warnings@)) by {
        assert(a.warnings@ =~= b.warnings@.subrange(0, a.warnings@.len() as int));
        assert(b.warnings@ =~= c.warnings@.subrange(0, b.warnings@.len() as int));
        assert(a.warnings@ =~= c.warnings@.subrange(0, a.warnings@.len() as int));
    }
}
proof fn lemma_moved_went(a: &ParseState, b: &ParseState, j: int)
    requires a.wf(), b.moved_to(a, j),
    ensures went(b, a),
{
    reveal(went);
    assert(a.warnings@.is_prefix_of(b.warnings@));
}
/// ASSUMED: the expression parser moves forward or stays, only appends diagnostics
#[verifier::external_body]
fn vx_parse_expression(ps: &mut ParseState, is_template_data: bool) -> (r: Option<Box<Expression>>)
    requires old(ps).wf(),
    ensures went(final(ps), old(ps)),
        // ASSUMED (NOTE above parse_ident_or_keyword in parse/expr.rs): None is returned only after a diagnostic was recorded
        r.is_none() ==> final(ps).warnings@.len() > old(ps).warnings@.len(),
{ unimplemented!() }
proof fn lemma_prefix_push<T>(a: Seq<T>, b: Seq<T>, x: T)
    requires a.is_prefix_of(b),
    ensures a.is_prefix_of(b.push(x)),
{
    assert(a =~= b.push(x).subrange(0, a.len() as int)) by { assert(a =~= b.subrange(0, a.len() as int)); }
}
/// a diagnostic was appended: still `went`
proof fn lemma_went_warn(a: &ParseState, b: &ParseState, c: &ParseState)
    requires went(b, a), c.wf(), c.whole_str == b.whole_str, c.idx@ == b.idx@, c.line == b.line, c.utf16_col == b.utf16_col, c.auto@ == b.auto@,
        b.warnings@.is_prefix_of(c.warnings@),
    ensures went(c, a),
{
    reveal(went);
    assert(a.warnings@.is_prefix_of(c.warnings@)) by {
        assert(a.warnings@ =~= b.warnings@.subrange(0, a.warnings@.len() as int));
        assert(b.warnings@ =~= c.warnings@.subrange(0, b.warnings@.len() as int));
        assert(a.warnings@ =~= c.warnings@.subrange(0, a.warnings@.len() as int));
    }
}
spec fn two_braces() -> Seq<char> { seq!['{', '{'] }
/// what consume_str's contract gives about the range it returns
proof fn lemma_consumed_range(o: &ParseState, n: &ParseState, r: Range<Position>, k: int)
    requires
        o.wf(), n.moved_to(o, o.auto_idx() + k), k >= 0, o.idx@ <= o.auto_idx(),
        r.end == n.pos(),
        r.start.line as int == adv_line(o.line as int, o.src().subrange(o.idx@, o.auto_idx())),
        r.start.utf16_col as int == adv_col(o.utf16_col as int, o.src().subrange(o.idx@, o.auto_idx())),
    ensures pos_le(r.start, r.end), pos_le(o.pos(), r.start), went(n, o),
{
    reveal(went);
    let s = o.src();
    let a = s.subrange(o.idx@, o.auto_idx());
    let b = s.subrange(o.auto_idx(), o.auto_idx() + k);
    assert(s.subrange(o.idx@, o.auto_idx() + k) =~= a + b);
    lemma_adv_split(o.line as int, o.utf16_col as int, a, b);
    lemma_adv_monotone(o.line as int, o.utf16_col as int, a);
    lemma_adv_monotone(r.start.line as int, r.start.utf16_col as int, b);
    lemma_moved_went(o, n, o.auto_idx() + k);
}
proof fn lemma_auto_idx(o: &ParseState)
    requires o.wf(),
    ensures o.idx@ <= o.auto_idx() <= o.src().len(),
{
    if o.auto@ == 1 { lemma_skip_ws_js_ge(o.src(), o.idx@); }
}
/// one more step, tracked against two origins at once; also spells out what `went` means for the new state
proof fn lemma_chain(o1: &ParseState, o2: &ParseState, a: &ParseState, b: &ParseState)
    requires went(a, o1), went(a, o2), went(b, a),
    ensures
        went(b, o1), went(b, o2),
        b.wf(), b.whole_str == o1.whole_str, b.auto@ == o1.auto@, o1.warnings@.is_prefix_of(b.warnings@), o1.idx@ <= b.idx@, pos_le(o1.pos(), b.pos()),
        o2.idx@ <= b.idx@, pos_le(o2.pos(), b.pos()), a.idx@ <= b.idx@, o1.warnings@.len() <= b.warnings@.len(), a.warnings@.len() <= b.warnings@.len(),
{
    lemma_went_trans(o1, a, b);
    lemma_went_trans(o2, a, b);
    lemma_went_facts(b, o1);
    lemma_went_facts(b, o2);
    lemma_went_facts(b, a);
}
/// `b` is `a` with diagnostics appended (or nothing changed)
proof fn lemma_same_place(a: &ParseState, b: &ParseState)
    requires a.wf(), b.wf(), b.whole_str == a.whole_str, b.idx@ == a.idx@, b.line == a.line, b.utf16_col == a.utf16_col, b.auto@ == a.auto@, a.warnings@.is_prefix_of(b.warnings@),
    ensures went(b, a),
{
    lemma_went_refl(a);
    lemma_went_warn(a, a, b);
}
/// #[derive(Clone)] of Range<Position> (Position is Copy): the clone is the value
#[verifier::external_body]
fn vx_clone_range(r: &Range<Position>) -> (o: Range<Position>)
    ensures o == *r,
{ r.clone() }
/// what `went` says, for use where the definition is hidden
proof fn lemma_went_facts(n: &ParseState, o: &ParseState)
    requires went(n, o),
    ensures
        n.wf(), o.wf(), n.whole_str == o.whole_str, n.auto@ == o.auto@, o.warnings@.is_prefix_of(n.warnings@),
        o.idx@ <= n.idx@ <= o.src().len(), pos_le(o.pos(), n.pos()), o.warnings@.len() <= n.warnings@.len(),
{
    reveal(went);
}
// ---- static text: the pieces parse_next_entity returns (unit NEXTENT defines ent_value / ent_len; opaque here) ----
uninterp spec fn ent_value(t: Seq<char>) -> Seq<char>;
uninterp spec fn ent_len(t: Seq<char>) -> int;
/// ASSUMED here, PROVED in unit NEXTENT (with automatic whitespace skipping off): one reference or one character is
/// consumed and its decoded value returned; diagnostics are only appended; something is consumed unless at the end
#[verifier::external_body]
fn vx_next_entity(ps: &mut ParseState) -> (r: String)
    requires old(ps).wf(),
    ensures
        went(final(ps), old(ps)),
        r@ == ent_value(old(ps).src().skip(old(ps).idx@)),
        final(ps).idx@ == old(ps).idx@ + ent_len(old(ps).src().skip(old(ps).idx@)),
        old(ps).idx@ < old(ps).src().len() ==> ent_len(old(ps).src().skip(old(ps).idx@)) >= 1,
{ unimplemented!() }
// ---- parse_until_before ----
/// the text from a to b decoded reference by reference (the steps parse_next_entity takes)
spec fn dec_text(src: Seq<char>, a: int, b: int) -> Seq<char>
    decreases b - a,
{
    if a >= b || a < 0 || a >= src.len() { Seq::empty() } else {
        let n = ent_len(src.skip(a));
        if n <= 0 { Seq::empty() } else if a + n >= b { ent_value(src.skip(a)) } else { ent_value(src.skip(a)) + dec_text(src, a + n, b) }
    }
}
/// b is reached from a by whole steps
spec fn reach(src: Seq<char>, a: int, b: int) -> bool
    decreases b - a,
{
    if a == b { true } else if a > b || a < 0 || a >= src.len() { false } else {
        let n = ent_len(src.skip(a));
        if n <= 0 || a + n > b { false } else { reach(src, a + n, b) }
    }
}
proof fn lemma_dec_step(src: Seq<char>, a: int, b: int)
    requires reach(src, a, b), 0 <= a <= b, b < src.len(), ent_len(src.skip(b)) >= 1,
    ensures
        reach(src, a, b + ent_len(src.skip(b))),
        dec_text(src, a, b + ent_len(src.skip(b))) == dec_text(src, a, b) + ent_value(src.skip(b)),
    decreases b - a,
{
    let n = ent_len(src.skip(b));
    let x = ent_value(src.skip(b));
    if a == b {
        assert(dec_text(src, a, b) =~= Seq::<char>::empty());
        assert(reach(src, b + n, b + n));
        assert(dec_text(src, b, b + n) == x);
        assert(Seq::<char>::empty() + x =~= x);
    } else {
        let m = ent_len(src.skip(a));
        let y = ent_value(src.skip(a));
        lemma_dec_step(src, a + m, b);
        if a + m >= b {
            assert(a + m == b);
            assert(dec_text(src, a, b) == y);
            assert(dec_text(src, b, b + n) == x);
            assert(dec_text(src, a, b + n) == y + dec_text(src, a + m, b + n));
        } else {
            assert(y + (dec_text(src, a + m, b) + x) =~= (y + dec_text(src, a + m, b)) + x);
        }
    }
}
/// the shape the tail must have while static text is being appended to it
spec fn tail_text(e: Expression) -> bool { e matches Expression::Plus { right, .. } && *right is LitStr }
/// what parse_until_before guarantees about its value at every loop head
spec fn val_inv(v: Value, tail: bool) -> bool {
    match v {
        Value::Static { location, .. } => pos_le(location.start, location.end) && !tail,
        Value::Dynamic { expression, .. } => tail ==> tail_text(*expression),
    }
}
spec fn same_state(a: &ParseState, b: &ParseState) -> bool {
    a.whole_str == b.whole_str && a.idx@ == b.idx@ && a.line == b.line && a.utf16_col == b.utf16_col && a.auto@ == b.auto@ && a.warnings@ == b.warnings@
}
/// after the stop tests of the text loop (`until`, `ended`, `peek_str` with automatic skipping off) the cursor is where it was
proof fn lemma_same_or_peek(a: &ParseState, b: &ParseState)
    requires a.wf(), a.auto@ == 0, (same_state(b, a) && b.wf()) || b.moved_to(a, a.idx@),
    ensures went(b, a), b.idx@ == a.idx@, b.warnings@ == a.warnings@, b.wf(), b.auto@ == 0, b.whole_str == a.whole_str, b.line == a.line, b.utf16_col == a.utf16_col,
{
    if same_state(b, a) && b.wf() {
        assert(a.warnings@.is_prefix_of(b.warnings@));
        lemma_same_place(a, b);
    } else {
        lemma_moved_went(a, b, a.idx@);
        assert(a.src().subrange(a.idx@, a.idx@) =~= Seq::<char>::empty());
    }
}
