// `write!` call sites stay verbatim; this local macro shadows std's (R-fmt): the two-argument form records the format
// literal and the Display texts of both arguments as ONE piece of the expression being written
#[allow(unused_macros)]
macro_rules! write {
    ($dst:expr, $fmt:literal, $a:expr, $b:expr) => { $dst.vx_w2($fmt, &$a, &$b) };
}
