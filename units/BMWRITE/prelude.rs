// ---- spec side of BMWRITE (C07): the registrations written for one binding expression ----
/// one registration `A[<key as JS string literal>][<index>]=`
pub open spec fn reg(key: Seq<char>, index: usize) -> Piece {
    Piece::Fmt2("A[{}][{}]="@, js_lit(key), display_usize(index))
}
/// the registrations of the first n recorded (key, index) pairs, in order: one for each pair whose key the collector
/// still advertises, with the index recorded for it; nothing for the others
pub open spec fn regs(keys: Seq<(String, usize)>, bmc: &BindingMapCollector, n: int) -> Seq<Piece>
    decreases n,
{
    if n <= 0 { Seq::<Piece>::empty() }
    else if bmc.advertised(keys[n - 1].0@) { regs(keys, bmc, n - 1).push(reg(keys[n - 1].0@, keys[n - 1].1)) }
    else { regs(keys, bmc, n - 1) }
}
/// the whole expression statement: the registrations, then the updater function `(D,E,T)=>{ body }`
pub open spec fn write_map_stmt(keys: Seq<(String, usize)>, bmc: &BindingMapCollector, body: Seq<Seq<Piece>>) -> Seq<Piece> {
    regs(keys, bmc, keys.len() as int).push(Piece::Func("D,E,T"@, body))
}
/// number of advertised keys among the first n pairs
pub open spec fn adv_count(keys: Seq<(String, usize)>, bmc: &BindingMapCollector, n: int) -> nat
    decreases n,
{
    if n <= 0 { 0 } else { adv_count(keys, bmc, n - 1) + (if bmc.advertised(keys[n - 1].0@) { 1nat } else { 0nat }) }
}
/// reading of `regs` as the property states it: one registration per advertised pair and nothing else.
/// (a) as many registrations as advertised pairs (none twice, none lost)
pub proof fn lemma_regs_len(keys: Seq<(String, usize)>, bmc: &BindingMapCollector, n: int)
    requires 0 <= n <= keys.len(),
    ensures regs(keys, bmc, n).len() == adv_count(keys, bmc, n),
    decreases n,
{
    if n > 0 { lemma_regs_len(keys, bmc, n - 1); }
}
/// (b) every recorded pair j with an advertised key has its registration, with the index recorded for it, and the order
/// of `keys` is kept: it sits at position adv_count(j)
pub proof fn lemma_regs_complete(keys: Seq<(String, usize)>, bmc: &BindingMapCollector, n: int, j: int)
    requires 0 <= j < n <= keys.len(), bmc.advertised(keys[j].0@),
    ensures
        adv_count(keys, bmc, j) < regs(keys, bmc, n).len(),
        regs(keys, bmc, n)[adv_count(keys, bmc, j) as int] == reg(keys[j].0@, keys[j].1),
    decreases n,
{
    lemma_regs_len(keys, bmc, n - 1);
    if j < n - 1 { lemma_regs_complete(keys, bmc, n - 1, j); }
}
/// the pair a registration comes from
pub open spec fn reg_src(keys: Seq<(String, usize)>, bmc: &BindingMapCollector, n: int, k: int) -> int
    decreases n,
{
    if n <= 0 { 0 }
    else if bmc.advertised(keys[n - 1].0@) && k == adv_count(keys, bmc, n - 1) { n - 1 }
    else { reg_src(keys, bmc, n - 1, k) }
}
/// (c) every registration is that of a recorded pair whose key the collector advertises, carrying that pair's index
pub proof fn lemma_regs_sound(keys: Seq<(String, usize)>, bmc: &BindingMapCollector, n: int, k: int)
    requires 0 <= n <= keys.len(), 0 <= k < regs(keys, bmc, n).len(),
    ensures ({
        let j = reg_src(keys, bmc, n, k);
        0 <= j < n && bmc.advertised(keys[j].0@) && regs(keys, bmc, n)[k] == reg(keys[j].0@, keys[j].1) && k == adv_count(keys, bmc, j)
    }),
    decreases n,
{
    if n > 0 {
        lemma_regs_len(keys, bmc, n - 1);
        if bmc.advertised(keys[n - 1].0@) && k == adv_count(keys, bmc, n - 1) {
        } else {
            lemma_regs_sound(keys, bmc, n - 1, k);
        }
    }
}
