// ---- stand-ins for unit BMWRITE (self-contained: the shapes of emitpg_model.rs / jsw_model.rs / bmcmodel.rs, with pieces instead of text) ----
#[derive(Debug)]
pub struct TmplError { _x: u8 }
pub uninterp spec fn js_lit(s: Seq<char>) -> Seq<char>;
pub uninterp spec fn display_usize(v: usize) -> Seq<char>;
/// escape::gen_lit_str (the real one is proved in unit JSLIT) -- takes the String by Deref coercion
#[verifier::external_body]
pub fn gen_lit_str(s: &String) -> (r: String)
    ensures r@ == js_lit(s@),
{ unimplemented!() }

/// what `{}` prints for a value (std::fmt::Display)
pub trait VxDisp { spec fn disp(&self) -> Seq<char>; }
impl VxDisp for String { open spec fn disp(&self) -> Seq<char> { self@ } }
impl VxDisp for usize { open spec fn disp(&self) -> Seq<char> { display_usize(*self) } }
impl<T: VxDisp> VxDisp for &T { open spec fn disp(&self) -> Seq<char> { (**self).disp() } }

/// what an expression writer has been asked to write, piece by piece
pub enum Piece {
    /// `write!(w, F, a, b)`: the format literal and the Display texts of its two arguments
    Fmt2(Seq<char>, Seq<char>, Seq<char>),
    /// `w.function_args(ARGS, f)`: `(ARGS)=>{` BODY `}` where BODY is the statement list f wrote
    Func(Seq<char>, Seq<Seq<Piece>>),
}
/// JsExprWriter as a recording sink
pub struct JsExprWriter { pub p: Ghost<Seq<Piece>> }
/// JsFunctionScopeWriter as a recording sink: the statements written so far, each the pieces of its expression
pub struct JsFunctionScopeWriter { pub stmts: Ghost<Seq<Seq<Piece>>> }
impl JsExprWriter {
    /// the sink never fails (as in EMITPG); one piece appended
    #[verifier::external_body]
    pub fn vx_w2<A: VxDisp, B: VxDisp>(&mut self, f: &str, a: &A, b: &B) -> (r: Result<(), TmplError>)
        ensures r.is_ok(), final(self).p@ == old(self).p@.push(Piece::Fmt2(f@, a.disp(), b.disp())),
    { unimplemented!() }
    /// proc_gen/mod.rs JsExprWriter::function_args: `(ARGS)=>{`, f on a fresh function scope, `}`; f's error is passed on
    #[verifier::external_body]
    pub fn function_args<R, F: FnOnce(&mut JsFunctionScopeWriter) -> Result<R, TmplError>>(&mut self, args: &str, f: F) -> (r: Result<R, TmplError>)
        requires forall|q: &mut JsFunctionScopeWriter| q.stmts@ == Seq::<Seq<Piece>>::empty() ==> f.requires((q,)),
        ensures
            exists|q: &mut JsFunctionScopeWriter| q.stmts@ == Seq::<Seq<Piece>>::empty() && f.ensures((q,), r)
                && (r.is_ok() ==> final(self).p@ == old(self).p@.push(Piece::Func(args@, final(q).stmts@))),
    { unimplemented!() }
}
impl JsFunctionScopeWriter {
    /// runs f on a fresh expression writer and appends what it wrote as ONE statement; f's error is passed on (nothing is said about the sink then: generation is aborted)
    #[verifier::external_body]
    pub fn expr_stmt<R, F: FnOnce(&mut JsExprWriter) -> Result<R, TmplError>>(&mut self, f: F) -> (r: Result<R, TmplError>)
        requires forall|q: &mut JsExprWriter| q.p@ == Seq::<Piece>::empty() ==> f.requires((q,)),
        ensures
            exists|q: &mut JsExprWriter| q.p@ == Seq::<Piece>::empty() && f.ensures((q,), r)
                && (r.is_ok() ==> final(self).stmts@ == old(self).stmts@.push(final(q).p@)),
    { unimplemented!() }
}

// ---- BindingMapCollector as seen by the emitter: get_field with the contract PROVED in unit BMC ----
pub enum BindingMapField { Mapped(usize), Disabled }
pub struct BindingMapCollector { pub overall_disabled: bool, pub fm: Ghost<Map<Seq<char>, BindingMapField>> }
impl BindingMapCollector {
    /// the runtime is offered binding-map updaters for field f (same definition as in unit BMC)
    pub open spec fn advertised(&self, f: Seq<char>) -> bool {
        !self.overall_disabled && self.fm@.contains_key(f) && self.fm@[f] is Mapped
    }
    #[verifier::external_body]
    pub fn get_field(&self, field: &String) -> (r: Option<()>)
        ensures r.is_some() == self.advertised(field@),
    { unimplemented!() }
}
