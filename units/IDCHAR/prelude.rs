// ---- spec side of IDCHAR: the ASCII part of ECMA-262 IdentifierStart / IdentifierPart ($, _, letters; plus digits).  A name made of
// these characters only, starting with an IdentifierStart, is an IdentifierName in every JavaScript engine; any other
// character Rust calls alphabetic / alphanumeric (superscripts, fractions, enclosed letters) need not be ----
spec fn js_ascii_id_start(c: char) -> bool { c == '$' || c == '_' || ('a' <= c && c <= 'z') || ('A' <= c && c <= 'Z') }
spec fn js_ascii_id_part(c: char) -> bool { js_ascii_id_start(c) || ('0' <= c && c <= '9') }
