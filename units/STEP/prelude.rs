// ---- spec side of STEP (C19: "the source line/column is the start of that input token") ----
spec fn item_pos(it: Item) -> Position { Position { line: it.line, utf16_col: (it.col - 1) as u32 } }
/// the step token handed out is item k of the model, with that item's own start position
spec fn hands_out(r: Result<StepToken, BasicParseError>, items: Seq<Item>, k: int) -> bool {
    if k < items.len() { r.is_ok() && tok_eq(r.unwrap().token, items[k].tok) && r.unwrap().position == item_pos(items[k]) } else { r.is_err() }
}
spec fn same_input(new: &Parser, old: &Parser) -> bool {
    new.wf() && new.items@ == old.items@ && new.end_line == old.end_line && new.end_col == old.end_col
}
proof fn lemma_next_non_comment(items: Seq<Item>, c: int)
    requires 0 <= c <= items.len(),
    ensures c <= next_non_comment(items, c) <= items.len(),
        next_non_comment(items, c) < items.len() ==> items[next_non_comment(items, c)].kind != 2,
    decreases items.len() - c,
{
    if c < items.len() && items[c].kind == 2 { lemma_next_non_comment(items, c + 1); }
}
proof fn lemma_next_tok(items: Seq<Item>, c: int)
    requires 0 <= c <= items.len(), forall|k: int| 0 <= k < items.len() ==> item_wf(#[trigger] items[k]),
    ensures c <= next_tok(items, c) <= items.len(),
        next_tok(items, c) < items.len() ==> items[next_tok(items, c)].kind == 0,
        next_non_comment(items, next_tok(items, c)) == next_tok(items, c),
    decreases items.len() - c,
{
    if c < items.len() && items[c].kind != 0 { lemma_next_tok(items, c + 1); }
}
