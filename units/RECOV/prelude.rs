spec fn scan_frame(new: &ParseState, old: &ParseState) -> bool {
    new.wf() && new.whole_str == old.whole_str && new.auto@ == old.auto@ && old.warnings@.is_prefix_of(new.warnings@)
}
