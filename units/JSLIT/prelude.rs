// ---- spec side of JSLIT: ECMA-262 12.9.4 String Literals (double-quoted form), transcribed as a decoder.
// ---- `js_str_value(t) == Some(v)` means: t is ONE double-quoted StringLiteral token, valid in sloppy and
// ---- strict code, whose SV (in code points) is v.  Conservative: some legal literals are rejected
// ---- (line continuations, NonEscapeCharacter escapes other than the ones listed), none illegal accepted.
pub open spec fn hexval(c: char) -> int {
    if '0' <= c && c <= '9' { c as int - '0' as int }
    else if 'a' <= c && c <= 'f' { c as int - 'a' as int + 10 }
    else if 'A' <= c && c <= 'F' { c as int - 'A' as int + 10 }
    else { -1 }
}
pub open spec fn is_line_terminator(c: char) -> bool {
    c == '\n' || c == '\r' || c == '\u{2028}' || c == '\u{2029}'
}
pub open spec fn is_dec_digit(c: char) -> bool { '0' <= c && c <= '9' }
pub open spec fn cons_opt(c: char, rest: Option<Seq<char>>) -> Option<Seq<char>> {
    match rest { Some(r) => Some(seq![c] + r), None => None }
}
pub open spec fn scalar(v: int) -> bool { (0 <= v < 0xD800) || (0xE000 <= v <= 0x10FFFF) }
/// SV of the literal body starting at t[i]; the closing quote must be the last character of t
pub open spec fn js_body_value(t: Seq<char>, i: int) -> Option<Seq<char>>
    decreases t.len() - i,
{
    if i < 0 || i >= t.len() { None }
    else if t[i] == '"' { if i == t.len() - 1 { Some(Seq::<char>::empty()) } else { None } }
    else if is_line_terminator(t[i]) { None }
    else if t[i] == '\\' {
        if i + 1 >= t.len() { None } else {
            let e = t[i + 1];
            if e == 'n' { cons_opt('\n', js_body_value(t, i + 2)) }
            else if e == 'r' { cons_opt('\r', js_body_value(t, i + 2)) }
            else if e == 't' { cons_opt('\t', js_body_value(t, i + 2)) }
            else if e == 'b' { cons_opt('\u{8}', js_body_value(t, i + 2)) }
            else if e == 'f' { cons_opt('\u{c}', js_body_value(t, i + 2)) }
            else if e == 'v' { cons_opt('\u{b}', js_body_value(t, i + 2)) }
            else if e == '"' || e == '\\' || e == '\'' { cons_opt(e, js_body_value(t, i + 2)) }
            else if e == 'x' {
                if i + 3 < t.len() && hexval(t[i + 2]) >= 0 && hexval(t[i + 3]) >= 0 {
                    cons_opt((hexval(t[i + 2]) * 16 + hexval(t[i + 3])) as char, js_body_value(t, i + 4))
                } else { None }
            }
            else if e == 'u' {
                if i + 5 < t.len() && hexval(t[i + 2]) >= 0 && hexval(t[i + 3]) >= 0 && hexval(t[i + 4]) >= 0 && hexval(t[i + 5]) >= 0 {
                    let v = hexval(t[i + 2]) * 4096 + hexval(t[i + 3]) * 256 + hexval(t[i + 4]) * 16 + hexval(t[i + 5]);
                    if scalar(v) { cons_opt(v as char, js_body_value(t, i + 6)) } else { None }
                } else { None }
            }
            else if e == '0' {
                if i + 2 < t.len() && !is_dec_digit(t[i + 2]) { cons_opt('\0', js_body_value(t, i + 2)) } else { None }
            }
            else { None }
        }
    }
    else { cons_opt(t[i], js_body_value(t, i + 1)) }
}
pub open spec fn js_str_value(t: Seq<char>) -> Option<Seq<char>> {
    if t.len() >= 2 && t[0] == '"' { js_body_value(t, 1) } else { None }
}

// ---- proof side: the escaping as a mathematical function, and the induction that decoding inverts it ----
spec fn hexdigit(v: int) -> char { HEX_DIGITS[v] }
spec fn esc(c: char) -> Seq<char> {
    if c == '"' { seq!['\\', '"'] }
    else if c == '\\' { seq!['\\', '\\'] }
    else if c == '\n' { seq!['\\', 'n'] }
    else if c == '\r' { seq!['\\', 'r'] }
    else if c == '\t' { seq!['\\', 't'] }
    else if c == '\u{2028}' { seq!['\\', 'u', '2', '0', '2', '8'] }
    else if c == '\u{2029}' { seq!['\\', 'u', '2', '0', '2', '9'] }
    else if (c as u32) < 0x20 || (c as u32) == 0x7f { seq!['\\', 'x', hexdigit((c as u32) as int / 16), hexdigit((c as u32) as int % 16)] }
    else { seq![c] }
}
spec fn esc_all(s: Seq<char>) -> Seq<char>
    decreases s.len(),
{
    if s.len() == 0 { Seq::<char>::empty() } else { esc(s[0]) + esc_all(s.skip(1)) }
}
proof fn lemma_esc_all_push(s: Seq<char>, c: char)
    ensures esc_all(s.push(c)) == esc_all(s) + esc(c),
    decreases s.len(),
{
    if s.len() == 0 {
        assert(s.push(c).skip(1) =~= Seq::<char>::empty());
        assert(esc_all(s.push(c)) =~= esc(c) + esc_all(Seq::<char>::empty()));
        assert(esc_all(s.push(c)) =~= esc_all(s) + esc(c));
    } else {
        assert(s.push(c).skip(1) =~= s.skip(1).push(c));
        lemma_esc_all_push(s.skip(1), c);
        assert(esc_all(s.push(c)) =~= esc_all(s) + esc(c));
    }
}
proof fn lemma_hex_roundtrip(v: int)
    requires 0 <= v < 16,
    ensures hexval(hexdigit(v)) == v,
{
    assert(HEX_DIGITS[0] == '0' && HEX_DIGITS[1] == '1' && HEX_DIGITS[2] == '2' && HEX_DIGITS[3] == '3'
        && HEX_DIGITS[4] == '4' && HEX_DIGITS[5] == '5' && HEX_DIGITS[6] == '6' && HEX_DIGITS[7] == '7'
        && HEX_DIGITS[8] == '8' && HEX_DIGITS[9] == '9' && HEX_DIGITS[10] == 'a' && HEX_DIGITS[11] == 'b'
        && HEX_DIGITS[12] == 'c' && HEX_DIGITS[13] == 'd' && HEX_DIGITS[14] == 'e' && HEX_DIGITS[15] == 'f');
}
/// one decoding step undoes one escaping step, whatever follows (the "every neighbouring character" clause)
proof fn lemma_decode_step(t: Seq<char>, p: int, c: char)
    requires
        0 <= p,
        p + esc(c).len() <= t.len(),
        t.subrange(p, p + esc(c).len()) == esc(c),
    ensures
        js_body_value(t, p) == cons_opt(c, js_body_value(t, p + esc(c).len())),
{
    let e = esc(c);
    assert forall|k: int| 0 <= k < e.len() implies t[p + k] == #[trigger] e[k] by {
        assert(t.subrange(p, p + e.len())[k] == t[p + k]);
    }
    assert(t[p] == e[0]);
    if c == '"' || c == '\\' || c == '\n' || c == '\r' || c == '\t' {
        assert(t[p + 1] == e[1]);
    } else if c == '\u{2028}' || c == '\u{2029}' {
        assert(t[p + 1] == e[1]); assert(t[p + 2] == e[2]); assert(t[p + 3] == e[3]); assert(t[p + 4] == e[4]); assert(t[p + 5] == e[5]);
        assert(hexval('2') == 2 && hexval('0') == 0 && hexval('8') == 8 && hexval('9') == 9);
        assert(0x2028 as char == '\u{2028}');
        assert(0x2029 as char == '\u{2029}');
    } else if (c as u32) < 0x20 || (c as u32) == 0x7f {
        let v = (c as u32) as int;
        assert(t[p + 1] == e[1]); assert(t[p + 2] == e[2]); assert(t[p + 3] == e[3]);
        lemma_hex_roundtrip(v / 16);
        lemma_hex_roundtrip(v % 16);
        assert((v / 16) * 16 + v % 16 == v);
        assert(v as char == c);
    } else {
        assert(!is_line_terminator(c));
    }
}
proof fn lemma_decode_all(t: Seq<char>, p: int, s: Seq<char>)
    requires
        0 <= p,
        p + esc_all(s).len() + 1 == t.len(),
        t.subrange(p, t.len() as int) == esc_all(s) + seq!['"'],
    ensures
        js_body_value(t, p) == Some(s),
    decreases s.len(),
{
    let tail = esc_all(s) + seq!['"'];
    assert forall|k: int| 0 <= k < tail.len() implies t[p + k] == #[trigger] tail[k] by {
        assert(t.subrange(p, t.len() as int)[k] == t[p + k]);
    }
    if s.len() == 0 {
        assert(t[p] == tail[0]);
        assert(js_body_value(t, p) == Some(Seq::<char>::empty()));
        assert(s =~= Seq::<char>::empty());
    } else {
        let e = esc(s[0]);
        let rest = s.skip(1);
        assert(esc_all(s) == e + esc_all(rest));
        assert(t.subrange(p, p + e.len()) =~= e) by {
            assert forall|k: int| 0 <= k < e.len() implies t.subrange(p, p + e.len())[k] == e[k] by {
                assert(tail[k] == e[k]);
                assert(t[p + k] == tail[k]);
            }
        }
        lemma_decode_step(t, p, s[0]);
        assert(t.subrange(p + e.len(), t.len() as int) =~= esc_all(rest) + seq!['"']) by {
            let tail2 = esc_all(rest) + seq!['"'];
            assert forall|k: int| 0 <= k < tail2.len() implies t.subrange(p + e.len(), t.len() as int)[k] == tail2[k] by {
                assert(tail[e.len() + k] == tail2[k]);
                assert(t[p + (e.len() + k)] == tail[e.len() + k]);
            }
        }
        lemma_decode_all(t, p + e.len(), rest);
        assert(seq![s[0]] + rest =~= s);
    }
}
