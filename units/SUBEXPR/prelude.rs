// ---- spec side of SUBEXPR: the direct sub-expressions of an expression, written from the grammar the
// ---- property enumerates ("array holes, spreads, call arguments, object values, index expressions,
// ---- condition branches"), not from the iterator.
spec fn obj_field_value(f: ObjectFieldKind) -> Expression {
    match f {
        ObjectFieldKind::Named { value, .. } => value,
        ObjectFieldKind::Spread { value, .. } => value,
    }
}
spec fn arr_field_value(f: ArrayFieldKind) -> Option<Expression> {
    match f {
        ArrayFieldKind::Normal { value } => Some(value),
        ArrayFieldKind::Spread { value, .. } => Some(value),
        ArrayFieldKind::EmptySlot => None,
    }
}
/// child positions of `e` in source order; `None` marks an array hole (a position without a sub-expression)
spec fn slots(e: Expression) -> Seq<Option<Expression>> {
    match e {
        Expression::ScopeRef { .. } | Expression::DataField { .. } => Seq::empty(),
        Expression::LitUndefined { .. } | Expression::LitNull { .. } | Expression::LitStr { .. }
        | Expression::LitInt { .. } | Expression::LitFloat { .. } | Expression::LitBool { .. } => Seq::empty(),
        Expression::ToStringWithoutUndefined { value, .. } => seq![Some(*value)],
        Expression::LitObj { fields, .. } => Seq::new(fields@.len(), |i: int| Some(obj_field_value(fields@[i]))),
        Expression::LitArr { fields, .. } => Seq::new(fields@.len(), |i: int| arr_field_value(fields@[i])),
        Expression::StaticMember { obj, .. } => seq![Some(*obj)],
        Expression::DynamicMember { obj, field_name, .. } => seq![Some(*obj), Some(*field_name)],
        Expression::FuncCall { func, args, .. } => seq![Some(*func)] + Seq::new(args@.len(), |i: int| Some(args@[i])),
        Expression::Reverse { value, .. } | Expression::BitReverse { value, .. } | Expression::Positive { value, .. }
        | Expression::Negative { value, .. } | Expression::TypeOf { value, .. } | Expression::Void { value, .. } => seq![Some(*value)],
        Expression::Multiply { left, right, .. } | Expression::Divide { left, right, .. } | Expression::Remainer { left, right, .. }
        | Expression::Plus { left, right, .. } | Expression::Minus { left, right, .. } | Expression::LeftShift { left, right, .. }
        | Expression::RightShift { left, right, .. } | Expression::UnsignedRightShift { left, right, .. }
        | Expression::Lt { left, right, .. } | Expression::Gt { left, right, .. } | Expression::Lte { left, right, .. }
        | Expression::Gte { left, right, .. } | Expression::InstanceOf { left, right, .. } | Expression::Eq { left, right, .. }
        | Expression::Ne { left, right, .. } | Expression::EqFull { left, right, .. } | Expression::NeFull { left, right, .. }
        | Expression::BitAnd { left, right, .. } | Expression::BitXor { left, right, .. } | Expression::BitOr { left, right, .. }
        | Expression::LogicAnd { left, right, .. } | Expression::LogicOr { left, right, .. }
        | Expression::NullishCoalescing { left, right, .. } => seq![Some(*left), Some(*right)],
        Expression::Cond { cond, true_br, false_br, .. } => seq![Some(*cond), Some(*true_br), Some(*false_br)],
    }
}
/// first position >= i that holds a sub-expression, or the number of positions
spec fn next_full(s: Seq<Option<Expression>>, i: int) -> int
    decreases s.len() - i,
{
    if i < 0 || i >= s.len() { s.len() as int } else if s[i].is_some() { i } else { next_full(s, i + 1) }
}
/// the direct sub-expressions from position i on (holes skipped)
spec fn children_from(s: Seq<Option<Expression>>, i: int) -> Seq<Expression>
    decreases s.len() - i,
{
    if i < 0 || i >= s.len() { Seq::empty() } else if s[i].is_some() { seq![s[i].unwrap()] + children_from(s, i + 1) } else { children_from(s, i + 1) }
}
spec fn children(e: Expression) -> Seq<Expression> {
    children_from(slots(e), 0)
}
/// the position the iterator will yield next (or slots.len() if exhausted)
spec fn nf(it: SubExpression) -> int {
    next_full(slots(*it.inner), it.index as int)
}
