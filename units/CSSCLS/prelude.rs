// ---- spec side of CSSCLS (C09: "emitted as .P--name exactly once ... the sign comment marks exactly those positions;
// ---- no other token changes; without a prefix no class is altered") ----
spec fn opt_str(o: Option<String>) -> Option<Seq<char>> { match o { Some(s) => Some(s@), None => None } }
/// the emits expected for one identifier token `next` (whose source text is `src`) seen with the `in_class` flag
spec fn class_name_emits(next: StepToken, src: Seq<char>, in_class: bool, prefix: Option<Seq<char>>, sign: Option<Seq<char>>) -> Seq<Emit> {
    let sign_part = if in_class && sign.is_some() {
        seq![Emit { tok: TokV::Comment(sign.unwrap()), pos: next.position, src: None, keep_space: false }]
    } else { Seq::<Emit>::empty() };
    let name_part = if in_class && prefix.is_some() {
        seq![Emit { tok: TokV::Ident(prefix.unwrap() + seq!['-', '-'] + src), pos: next.position, src: Some(TokV::Ident(src)), keep_space: true }]
    } else {
        seq![Emit { tok: tokv(next.token), pos: next.position, src: None, keep_space: true }]
    };
    sign_part + name_part
}
