// ---- spec side of CSSCLS (C09: "emitted as .P--name exactly once ... the sign comment marks exactly those positions;
// ---- no other token changes; without a prefix no class is altered") ----
spec fn opt_str(o: Option<String>) -> Option<Seq<char>> { match o { Some(s) => Some(s@), None => None } }
/// the emits expected for one identifier token `next` (whose source text is `src`) seen with the `in_class` flag
spec fn class_name_emits(next: StepToken, src: Seq<char>, in_class: bool, prefix: Option<Seq<char>>, sign: Option<Seq<char>>) -> Seq<Emit> {
    let sign_part = if in_class && sign.is_some() {
        seq![Emit { tok: TokV::Comment(sign.unwrap()), pos: next.position, src: None, keep_space: false }]
    } else { Seq::<Emit>::empty() };
    let name_part = if in_class && prefix.is_some() {
        seq![Emit { tok: TokV::Ident(prefix.unwrap() + seq!['-', '-'] + src), pos: next.position, src: Some(TokV::Ident(src)), keep_space: true }]
    } else {
        seq![Emit { tok: tokv(next.token), pos: next.position, src: None, keep_space: true }]
    };
    sign_part + name_part
}
// ---- write_maybe_rpx_dimension (C10: "only rpx dimensions are converted; other numbers keep their value") ----
/// value and integer view of the converted dimension: the arithmetic slice decided by the Kani unit RPX
uninterp spec fn rpx_val(value: f32, ratio: f32) -> f32;
uninterp spec fn rpx_int(value: f32, ratio: f32) -> Option<i32>;
#[verifier::external_body]
fn vx_rpx_arith(value: f32, ratio: f32) -> (r: (f32, Option<i32>))
    ensures r.0 == rpx_val(value, ratio), r.1 == rpx_int(value, ratio),
{ unimplemented!() }
spec fn rpx_converted(next: StepToken, has_sign: bool, value: f32, int_value: Option<i32>, unit: Seq<char>, ratio: f32) -> Seq<Emit> {
    let orig = TokV::Dimension { has_sign, value, int_value, unit };
    seq![Emit { tok: TokV::Dimension { has_sign, value: rpx_val(value, ratio), int_value: rpx_int(value, ratio), unit: seq!['v', 'w'] }, pos: next.position, src: Some(orig), keep_space: false }]
}
spec fn rpx_unchanged(next: StepToken, has_sign: bool, value: f32, int_value: Option<i32>, unit: Seq<char>) -> Seq<Emit> {
    seq![Emit { tok: TokV::Dimension { has_sign, value, int_value, unit }, pos: next.position, src: None, keep_space: false }]
}
/// `rpx` is converted, a unit that is not `rpx` in any letter case is not.  Other letter cases of `rpx` (`RPX`, `Rpx`): CSS unit
/// names are ASCII case-insensitive, the property text writes the unit in lower case -- either reading is accepted.
spec fn rpx_emits_ok(got: Seq<Emit>, next: StepToken, has_sign: bool, value: f32, int_value: Option<i32>, unit: Seq<char>, ratio: f32) -> bool {
    if unit == seq!['r', 'p', 'x'] { got == rpx_converted(next, has_sign, value, int_value, unit, ratio) }
    else if lower(unit) != seq!['r', 'p', 'x'] { got == rpx_unchanged(next, has_sign, value, int_value, unit) }
    else { got == rpx_converted(next, has_sign, value, int_value, unit, ratio) || got == rpx_unchanged(next, has_sign, value, int_value, unit) }
}
