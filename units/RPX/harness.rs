// ---- generated harness around the verbatim statement slice (printed in the evidence) ----
#![allow(unused)]
#[derive(Debug, PartialEq)]
pub struct Unit(pub &'static str);
impl From<&'static str> for Unit { fn from(s: &'static str) -> Self { Unit(s) } }
#[derive(Debug, PartialEq)]
pub enum Token { Dimension { has_sign: bool, value: f32, int_value: Option<i32>, unit: Unit } }
pub struct Opts { pub rpx_ratio: f32 }
pub struct SS { pub options: Opts }
pub fn slice(ss: &SS, has_sign: bool, value: f32) -> Token {
/*SLICE*/
    t
}
#[cfg(kani)]
#[kani::proof]
fn check_rpx_value() {
    let value: f32 = kani::any();
    let ratio: f32 = kani::any();
    let has_sign: bool = kani::any();
    kani::assume(value.is_finite() && ratio.is_finite() && ratio > 0.0);
    let ss = SS { options: Opts { rpx_ratio: ratio } };
    // reference: the property's `value*100/ratio` as two correctly rounded IEEE single-precision operations
    let reference: f32 = value * 100.0f32 / ratio;
    kani::assume(reference.is_finite());
    let Token::Dimension { has_sign: hs, value: v, int_value, unit } = slice(&ss, has_sign, value);
    assert!(unit == Unit("vw"));
    assert!(hs == has_sign);
    assert!(v.to_bits() == reference.to_bits());
    // "with its sign": the sign bit survives (also for zero and for results that underflow to zero)
    assert!(v.is_sign_negative() == value.is_sign_negative());
}

#[cfg(kani)]
#[kani::proof]
fn check_rpx_int() {
    let value: f32 = kani::any();
    let ratio: f32 = kani::any();
    kani::assume(value.is_finite() && ratio.is_finite() && ratio > 0.0);
    let reference: f32 = value * 100.0f32 / ratio;
    kani::assume(reference.is_finite());
    let ss = SS { options: Opts { rpx_ratio: ratio } };
    let Token::Dimension { value: v, int_value, .. } = slice(&ss, false, value);
    let near_int = (v.round() - v).abs() <= f32::EPSILON;
    assert!(int_value.is_some() == near_int);
    if let Some(k) = int_value {
        if v.abs() < 2147483000.0 { assert!(k as f32 == v.round()); }
    }
}

