// evalharness.js - plain-node side of the JSEVAL unit (no dependencies, node >= 14).
//
// usage: node evalharness.js [batch-file|-] [result-file]   (stdin when no batch file or "-"; stdout when no result file)
// input : one JSON object per line (a "case"), output: one JSON object per line, same order, same `id`.
//
// CASE KINDS
//  { id, kind:"eval", runtime, code, name, vars, pool, pick, checks, flat }
//      runtime : string returned by TmplGroup::get_runtime_string()
//      code    : string returned by TmplGroup::get_tmpl_gen_object(path)   (an expression)
//      name    : sub-template name to instantiate ("" = the file's main template)
//      vars    : names of the data fields, pool: tagged encodings of the values they may take,
//      pick    : "all" (cartesian product pool^vars) | {n,seed} (n tuples from a fixed-seed LCG) |
//                {tuples:[[i,j,..],..]} (explicit pool indexes)
//      checks  : [[selector, refExpr, seq], ..]   selector "r:v" = values handed to wrapper.r(elem,"v",value) of every
//                element in document order ("d:k" dataset, "m:k" mark, "c" class, "y" style, "i" id, "l:k" slot value),
//                "t" = text contents of all text nodes in document order, "sn" = names of all <slot> nodes, "fk" = the key handed to every F (wx:key), "gen" = the generics object of every
//                element that has one, "slot" = the static slot name of every element that has one.  refExpr is a JavaScript expression over
//                $d (the data object), $get (null-safe read), $call (plain-function call, undefined for a non-function),
//                $str (null/undefined -> '', else String(v)), $each(list, (item,index)=>..) (what a wx:for visits).  seq=false: exactly one observation, equal to refExpr;
//                seq=true: refExpr is the array of all observations.
//      guards  : optional [expr,..]: an environment in which one of them is not a dense Array is skipped (KNOWN K1)
//      flat    : optional; the binding expression's own source text.  It is evaluated as JavaScript under
//                with($d){...} and must equal the FIRST check's refExpr (self-check of the generator's printer:
//                the oracle does not depend on how the tree was turned into source text).
//      For every picked environment whose reference does not throw, the generated code is executed three times against
//      the stub runtime below and the observations are compared with the reference after each:
//        (1) creation:   procGen(wrapper,true,data,undefined).C(true,T,E,B,F,S,J,undefined,undefined)
//        (2) binding map: every updater in the returned B[field][i] is called with (data, elementUpdated, updateText)
//        (3) update:     procGen(wrapper,false,data,true).C(false, ...) walking the tree built in (1)
//        (4) bmap1 cases: a fresh creation, then ONE field changed and only that field's updaters B[field][i] called with the changed data
//      result: { id, parsed, parseError, envs, compared, refThrows, mismatch:null|{phase,sel,env,got,want}, flatError }
//  { id, kind:"parse", artefacts:[{name, code, form}] }
//      form "expr" : the artefact is an expression - checked as a script `code`, as `var g=code;` and the way the runtime
//                    tests / the webpack plugin consume it, `new Function("return " + code)`
//      form "stmts": a statement list - checked as a script and as a function body
//      each in sloppy mode and with a 'use strict' prologue.  result: { id, failures:[{name,mode,wrap,error}] }
//
// TAGGED DATA ENCODING (decode()):  JSON values stand for themselves; {"$":"undefined"|"nan"|"-0"|"inf"|"-inf"}, {"$":"hole"}
//  (inside an array: an empty slot), {"$":"fn","k":"this"} (strict function returning ['this', <what this was>, ...args]),
//  {"$":"fn","k":"ret","v":enc} (returns v), {"$":"fn","k":"count"} (returns 1,2,3,.. - reset before every evaluation),
//  {"$":"fn","k":"ctor"} / {"$":"inst"} (a constructor and an instance of it), {"$":"nullproto","v":{..}},
//  {"$":"echo"} (an object whose every property k reads as the string "echo:k").
//
// STUB RUNTIME = the part of glass-easel/src/tmpl/proc_gen_wrapper.ts the generated code talks to:
//  wrapper methods r d m c y i s l a wl v p setFnFilter setEventListenerWrapper devArgs (they only record on the stub
//  element); creation and update protocol for text nodes, elements, wx:if groups, wx:for (arrays and plain objects; on
//  update the items are updated in place when the length is unchanged, else rebuilt), slots, pure virtual nodes,
//  `template is` (through the group's own I()).  SLOT VALUES: the children function of element <tag> is called with
//  V = an object whose every key k reads "tag:k" (what a dynamic-slot component hands to its slot content) and, on update,
//  W = {}.  Deviations from proc_gen_wrapper.ts, both deliberate: V/W are also passed on to wx:if branches, wx:for items
//  and virtual nodes inside that element (the generated functions declare the parameters; the real wrapper passes
//  undefined there), and the top level gets V = undefined but W = {} (the real wrapper passes undefined, so a template
//  with a top-level `slot:` reference throws on `W.x` during an update).  NOT modelled: components / properties / model listeners, dynamic slots
//  (V/W are undefined as for a non-dynamic-slot shadow root), event dispatch, keyed list diffing, placeholder replacement,
//  import/include across files (G is only available in the groups bundle, which is parsed, not executed).
'use strict'
const fs = require('fs')
const vm = require('vm')

// ---------- data encoding ----------
let counter = 0
function Ctor() {}
const theInstance = new Ctor()
const HOLE = { hole: true }
function decode(e) {
  if (e === null || typeof e !== 'object') return e
  if (Array.isArray(e)) {
    const out = new Array(e.length)
    for (let i = 0; i < e.length; i += 1) {
      const v = decode(e[i])
      if (v !== HOLE) out[i] = v
    }
    return out
  }
  if (typeof e.$ === 'string') {
    switch (e.$) {
      case 'undefined': return undefined
      case 'nan': return NaN
      case '-0': return -0
      case 'inf': return Infinity
      case '-inf': return -Infinity
      case 'hole': return HOLE
      case 'inst': return theInstance
      case 'echo': return new Proxy({}, { get: (t, k) => (typeof k === 'string' ? 'echo:' + k : undefined) })
      case 'nullproto': return Object.assign(Object.create(null), decode(e.v))
      case 'fn': {
        if (e.k === 'this') {
          return function fnThis() {
            // eslint-disable-next-line no-nested-ternary
            const t = this === undefined ? 'undefined' : this === globalThis ? 'global' : typeof this
            return ['this', t].concat(Array.prototype.slice.call(arguments))
          }
        }
        if (e.k === 'ret') { const v = decode(e.v); return function fnRet() { return v } }
        if (e.k === 'count') return function fnCount() { counter += 1; return counter }
        if (e.k === 'ctor') return Ctor
        throw new Error('unknown function kind ' + e.k)
      }
      default: throw new Error('unknown tag ' + e.$)
    }
  }
  const out = {}
  for (const k of Object.keys(e)) out[k] = decode(e[k])
  return out
}

// ---------- value comparison / display ----------
function same(a, b, depth) {
  if (Object.is(a, b)) return true
  if (a === null || b === null || typeof a !== 'object' || typeof b !== 'object') return false
  if (depth > 12) return false
  if (Array.isArray(a) !== Array.isArray(b)) return false
  if (Object.getPrototypeOf(a) !== Object.getPrototypeOf(b)) return false
  const ka = Reflect.ownKeys(a)
  const kb = Reflect.ownKeys(b)
  if (ka.length !== kb.length) return false
  for (let i = 0; i < ka.length; i += 1) {
    if (ka[i] !== kb[i]) return false
    if (!same(a[ka[i]], b[kb[i]], depth + 1)) return false
  }
  return true
}
function show(v, depth) {
  depth = depth || 0
  if (v === undefined) return 'undefined'
  if (v === null) return 'null'
  if (typeof v === 'number') return Object.is(v, -0) ? '-0' : String(v)
  if (typeof v === 'string') return JSON.stringify(v)
  if (typeof v === 'function') return '[Function ' + v.name + ']'
  if (typeof v !== 'object') return String(v)
  if (depth > 6) return '...'
  if (Array.isArray(v)) {
    const parts = []
    for (let i = 0; i < v.length; i += 1) parts.push(i in v ? show(v[i], depth + 1) : '<hole>')
    return '[' + parts.join(', ') + ']'
  }
  const proto = Object.getPrototypeOf(v)
  // eslint-disable-next-line no-nested-ternary
  const head = proto === Object.prototype ? '' : proto === null ? '[null prototype] ' : proto === Ctor.prototype ? '[Ctor] ' : '[other prototype ' + show(proto, depth + 1) + '] '
  return head + '{' + Object.keys(v).map((k) => JSON.stringify(k) + ': ' + show(v[k], depth + 1)).join(', ') + '}'
}

// ---------- reference helpers (from the property text) ----------
const $get = (o, k) => (o === null || o === undefined ? undefined : o[k])
const $call = (f, args) => (typeof f === 'function' ? f(...args) : undefined)
const $str = (v) => (v === null || v === undefined ? '' : String(v))
// the (item, index) pairs a wx:for visits, same as the stub's F below
const $each = (list, fn) => forEntries(list).map(([item, index]) => fn(item, index))
const isDenseArray = (v) => { if (!Array.isArray(v)) return false; for (let i = 0; i < v.length; i += 1) if (!(i in v)) return false; return true }

// ---------- stub runtime ----------
const set = (prefix) => (elem, name, v) => { elem.attrs[prefix + name] = v }
const wrapper = {
  r: set('r:'),
  d: set('d:'),
  m: set('m:'),
  l: set('l:'),
  a: set('a:'),
  wl: set('wl:'),
  c: (elem, v) => { elem.attrs.c = v },
  y: (elem, v) => { elem.attrs.y = v },
  i: (elem, v) => { elem.attrs.i = v },
  s: (elem, v) => { elem.attrs.s = v },
  // R.v(elem, event, handler, final, mutated, capture, isDynamic): a dynamic handler replaces the listener its previous call
  // attached; a static one is added
  v: (elem, name, v, fin, mut, cap, dyn) => {
    elem.attrs['v:' + name] = v
    const L = elem.lst || (elem.lst = {})
    L[name] = dyn ? [v] : (L[name] || []).concat([v])
    elem.attrs['vl:' + name] = L[name].slice()
  },
  p: (elem, name, v) => { elem.attrs['p:' + name] = v },
  setFnFilter: () => {},
  setEventListenerWrapper: () => {},
  devArgs: (elem) => { if (!elem.dev) elem.dev = {}; return elem.dev },
}
const newElem = (t, extra) => Object.assign({ t, attrs: {}, children: [] }, extra)
function forEntries(list) {
  if (Array.isArray(list)) return list.map((item, index) => [item, index])
  if (list !== null && typeof list === 'object') return Object.keys(list).map((k) => [list[k], k])
  return []
}
// slot values handed to the children of element <tag>: every key k reads as the string "tag:k"
const slotValuesFor = (tag) => new Proxy({}, { get: (t, k) => (typeof k === 'string' ? tag + ':' + k : undefined) })
function create(children, V) {
  const nodes = []
  const T = (text, init) => { const n = { t: 'text', text: text === undefined ? '' : text }; if (init) init(n); nodes.push(n) }
  const E = (tag, generics, init, ch, slot) => {
    const n = newElem('el', { tag, generics, slot })
    init(n, true)
    n.children = create(ch, slotValuesFor(tag))
    nodes.push(n)
  }
  const B = (key, fn) => { nodes.push(newElem('if', { key, children: create(fn, V) })) }
  const F = (list, key, upt, lvaluePath, cb) => {
    const n = newElem('for', { key })
    n.children = forEntries(list).map(([item, index]) => createItem(cb, item, index, lvaluePath, V))
    nodes.push(n)
  }
  const S = (name, init, slot) => { const n = newElem('slot', { name: $str(name), slot }); if (init) init(n); nodes.push(n) }
  const J = (ch, slot) => { nodes.push(newElem('virtual', { slot, children: create(ch, V) })) }
  children(true, T, E, B, F, S, J, V, undefined)
  return nodes
}
function createItem(cb, item, index, lvaluePath, V) {
  return newElem('item', {
    children: create((c, T, E, B, F, S, J, V2, W2) => cb(true, item, index, undefined, undefined, lvaluePath ? lvaluePath.concat([index]) : null, T, E, B, F, S, J, V2, W2), V),
  })
}
function update(nodes, children, V) {
  let at = 0
  const next = () => { const n = nodes[at]; at += 1; return n }
  const T = (text) => { const n = next(); if (n && text !== undefined) n.text = text }
  const E = (tag, generics, init, ch) => { const n = next(); if (!n) return; init(n, false); update(n.children, ch, slotValuesFor(tag)) }
  const B = (key, fn) => {
    const n = next()
    if (!n) return
    if (n.key === key) update(n.children, fn, V)
    else { n.key = key; n.children = create(fn, V) }
  }
  const F = (list, key, upt, lvaluePath, cb) => {
    const n = next()
    if (!n) return
    const entries = forEntries(list)
    if (entries.length !== n.children.length) {
      n.children = entries.map(([item, index]) => createItem(cb, item, index, lvaluePath, V))
      return
    }
    entries.forEach(([item, index], i) => {
      // eslint-disable-next-line no-nested-ternary
      const u = upt === true ? true : upt ? upt[index] : undefined
      update(n.children[i].children, (c, T2, E2, B2, F2, S2, J2, V2, W2) => cb(false, item, index, u, undefined, lvaluePath ? lvaluePath.concat([index]) : null, T2, E2, B2, F2, S2, J2, V2, W2), V)
    })
  }
  const S = (name, init) => { const n = next(); if (!n) return; if (name !== undefined) n.name = $str(name); if (init) init(n) }
  const J = (ch) => { const n = next(); if (n) update(n.children, ch, V) }
  // W (update path trees of the slot values): an empty object = no slot value changed; K (whole data) drives the update
  children(false, T, E, B, F, S, J, V, {})
}
function observe(nodes, sel, out) {
  for (const n of nodes) {
    if (n.t === 'text') { if (sel === 't') out.push(n.text) } else {
      if (sel === 'sn') { if (n.t === 'slot') out.push(n.name) }
      else if (sel === 'fk') { if (n.t === 'for') out.push(n.key) } // the wx:key handed to F
      else if (sel === 'gen') { if (n.t === 'el' && n.generics && Object.keys(n.generics).length) out.push(n.generics) } // generic:x="impl"
      else if (sel === 'devA') { if (n.dev && Array.isArray(n.dev.A)) out.push(n.dev.A.map($str).sort()) } // dev mode: the attribute-name list, as a set
      else if (sel === 'slot') { if ((n.t === 'el' || n.t === 'slot' || n.t === 'virtual') && n.slot !== undefined) out.push(n.slot) } // static slot="name"
      else if (sel !== 't' && Object.prototype.hasOwnProperty.call(n.attrs, sel)) out.push(n.attrs[sel])
      observe(n.children, sel, out)
    }
  }
  return out
}

// ---------- environments ----------
function* tuples(nVars, nPool, pick) {
  if (pick === 'all') {
    const idx = new Array(nVars).fill(0)
    for (;;) {
      yield idx.slice()
      let k = 0
      while (k < nVars) { idx[k] += 1; if (idx[k] < nPool) break; idx[k] = 0; k += 1 }
      if (k === nVars) return
    }
  } else if (pick.tuples) {
    for (const t of pick.tuples) yield t
  } else {
    let s = (pick.seed >>> 0) || 1
    for (let i = 0; i < pick.n; i += 1) {
      const t = []
      for (let k = 0; k < nVars; k += 1) {
        s = (Math.imul(s, 1664525) + 1013904223) >>> 0
        t.push((s >>> 8) % nPool)
      }
      yield t
    }
  }
}

// ---------- case runners ----------
function runEval(c) {
  const res = { id: c.id, parsed: false, parseError: null, envs: 0, compared: 0, refThrows: 0, excluded: 0, mismatch: null, flatError: null }
  let gen
  try {
    // both modes must parse; the sloppy one is executed
    // eslint-disable-next-line no-new
    new vm.Script("'use strict';" + (c.group ? '' : c.runtime) + ';var $gen=' + c.code)
    if (c.group) {
      // the all-templates bundle: evaluates to G (path -> generator object); cross-file links (import, include, external
      // scripts) are live inside it
      // eslint-disable-next-line no-new-func
      let G
      if (c.gwx) {
        // the wx flavour registers every template through __wxCodeSpace__.addCompiledTemplate(path, {groupList, content})
        G = {}
        const space = { addCompiledTemplate: (path, o) => { G[path] = o.content } }
        new Function('__wxCodeSpace__', c.code)(space)
      } else {
        G = new Function('return ' + c.code)()
      }
      gen = G[c.gpath]
      if (typeof gen !== 'function') { res.parseError = 'the bundle has no entry ' + JSON.stringify(c.gpath); return res }
    } else {
      // eslint-disable-next-line no-new-func
      gen = new Function(c.runtime + ';return ' + c.code)()
    }
    res.parsed = true
  } catch (e) {
    res.parseError = String(e)
    return res
  }
  const procGen = gen(c.name || '')
  if (typeof procGen !== 'function') { res.parseError = 'no template named ' + JSON.stringify(c.name); res.parsed = false; return res }
  let refs
  let guards
  let flat = null
  try {
    // eslint-disable-next-line no-new-func
    refs = c.checks.map((ch) => new Function('$d', '$get', '$call', '$str', '$each', 'return (' + ch[1] + ')'))
    // eslint-disable-next-line no-new-func
    guards = (c.guards || []).map((g) => new Function('$d', '$get', '$call', '$str', '$each', 'return (' + g + ')'))
    // eslint-disable-next-line no-new-func
    if (c.flat) flat = new Function('$d', 'with($d){return (' + c.flat + ')}')
  } catch (e) {
    res.flatError = 'reference does not parse: ' + String(e)
    return res
  }
  const pool = c.pool.map(decode)
  for (const tuple of tuples(c.vars.length, pool.length, c.pick)) {
    res.envs += 1
    const data = {}
    c.vars.forEach((v, i) => { data[v] = pool[tuple[i]] })
    const wants = []
    let refOk = true
    for (const f of refs) {
      counter = 0
      try { wants.push(f(data, $get, $call, $str, $each)) } catch (e) { refOk = false; break }
    }
    const wants0 = wants
    if (!refOk) { res.refThrows += 1; continue }
    // guards: expressions that must be dense arrays, else the environment belongs to a KNOWN class and is skipped
    let guarded = false
    for (const g of guards) {
      counter = 0
      try { if (!isDenseArray(g(data, $get, $call, $str, $each))) guarded = true } catch (e) { guarded = true }
    }
    if (guarded) { res.excluded += 1; continue }
    counter = 0
    if (flat) {
      let fv
      let threw = null
      counter = 0
      try { fv = flat(data) } catch (e) { threw = e }
      if (threw || !same(fv, wants[0], 0)) {
        res.flatError = 'source text as JavaScript gives ' + (threw ? 'exception ' + threw : show(fv)) + ' but the tree reference gives ' + show(wants[0]) + ' for ' + show(data)
        return res
      }
    }
    res.compared += 1
    let phase = 'creation'
    const envShown = show(data) // before the generated code runs: broken code may mutate the data (`++D.a`)
    const fail = (sel, got, want) => { res.mismatch = { phase, sel, tuple, env: envShown, got, want } }
    const compare = (root, w) => {
      const wants = w === undefined ? wants0 : w
      for (let i = 0; i < c.checks.length; i += 1) {
        const sel = c.checks[i][0]
        const got = observe(root, sel, [])
        const want = c.checks[i][2] ? wants[i] : [wants[i]]
        if (!Array.isArray(want) || !same(got, want, 0)) {
          if (c.checks[i][2]) fail(sel, show(got), show(want)); else fail(sel, got.length === 1 ? show(got[0]) : 'observations ' + show(got), show(wants[i]))
          return false
        }
      }
      return true
    }
    try {
      counter = 0
      const inst = procGen(wrapper, true, data, undefined)
      const root = create(inst.C, undefined)
      if (!compare(root)) return res
      phase = 'binding-map update'
      if (inst.B) {
        for (const field of Object.keys(inst.B)) {
          const list = inst.B[field]
          for (let i = 0; i < list.length; i += 1) {
            counter = 0
            if (typeof list[i] === 'function') list[i](data, () => {}, (node, text) => { node.text = text })
          }
        }
        if (!compare(root)) return res
      }
      phase = 'update'
      counter = 0
      const upd = procGen(wrapper, false, data, true)
      update(root, upd.C, undefined)
      if (!compare(root)) return res
      // (4) C07, only for cases that ask for it: ONE top-level field changes; the runtime then calls exactly the updaters
      //     offered under that field (ProcGenWrapper.bindingMapUpdate) and does NOT walk the tree.  After them every
      //     observation must be what a fresh evaluation on the changed data gives.  A field without an entry in B falls
      //     back to the tree update (phase 3) and is skipped here.
      if (c.bmap1 && inst.B) {
        for (let k = 0; k < c.vars.length; k += 1) {
          const f = c.vars[k]
          if (!Array.isArray(inst.B[f])) continue
          let altIndex = (tuple[k] + 1) % pool.length
          let alt = pool[altIndex]
          if (c.alts) { if (!(f in c.alts)) continue; alt = decode(c.alts[f]); altIndex = -1 }
          const data2 = Object.assign({}, data)
          data2[f] = alt
          const wants2 = []
          let ok2 = true
          for (const rf of refs) {
            counter = 0
            try { wants2.push(rf(data2, $get, $call, $str, $each)) } catch (e) { ok2 = false; break }
          }
          if (!ok2) continue
          for (const g of guards) {
            counter = 0
            try { if (!isDenseArray(g(data2, $get, $call, $str, $each))) ok2 = false } catch (e) { ok2 = false }
          }
          if (!ok2) continue
          phase = 'single-field binding-map update of ' + JSON.stringify(f) + ' to ' + show(alt)
          counter = 0
          const inst2 = procGen(wrapper, true, data, undefined)
          const root2 = create(inst2.C, undefined)
          const list = inst2.B && inst2.B[f]
          if (!Array.isArray(list)) continue
          for (let i = 0; i < list.length; i += 1) {
            counter = 0
            if (typeof list[i] === 'function') list[i](data2, () => {}, (node, text) => { node.text = text })
          }
          if (!compare(root2, wants2)) { res.mismatch.altField = f; res.mismatch.altIndex = altIndex; return res }
        }
      }
    } catch (e) {
      fail('*', 'exception: ' + String(e), c.checks.map((ch, i) => show(wants[i])).join(' ; '))
      return res
    }
  }
  return res
}

function runParse(c) {
  const failures = []
  const attempt = (name, mode, wrap, f) => { try { f() } catch (e) { failures.push({ name, mode, wrap, error: String(e) }) } }
  for (const a of c.artefacts) {
    for (const strict of [false, true]) {
      const mode = strict ? 'strict' : 'sloppy'
      const pro = strict ? "'use strict';\n" : ''
      // eslint-disable-next-line no-new
      attempt(a.name, mode, 'script', () => { new vm.Script(pro + a.code) })
      if (a.form === 'expr') {
        // eslint-disable-next-line no-new
        attempt(a.name, mode, 'var g=<code>;', () => { new vm.Script(pro + 'var g=' + a.code + ';') })
        // eslint-disable-next-line no-new-func
        attempt(a.name, mode, 'new Function("return "+code)', () => { new Function(pro + 'return ' + a.code) })
      } else {
        // eslint-disable-next-line no-new-func
        attempt(a.name, mode, 'new Function(code)', () => { new Function(pro + a.code) })
      }
    }
  }
  return { id: c.id, failures }
}

function main() {
  const file = process.argv[2]
  const text = fs.readFileSync(file === undefined || file === '-' ? 0 : file, 'utf8')
  const outFd = process.argv[3] === undefined ? 1 : fs.openSync(process.argv[3], 'w')
  const out = []
  for (const line of text.split('\n')) {
    if (line.trim() === '') continue
    let c
    try { c = JSON.parse(line) } catch (e) { out.push(JSON.stringify({ id: -1, harnessError: 'bad input line: ' + String(e) })); continue }
    let r
    try { r = c.kind === 'parse' ? runParse(c) : runEval(c) } catch (e) { r = { id: c.id, harnessError: String(e && e.stack ? e.stack : e) } }
    out.push(JSON.stringify(r))
    if (out.length >= 256) { fs.writeSync(outFd, out.join('\n') + '\n'); out.length = 0 }
  }
  if (out.length) fs.writeSync(outFd, out.join('\n') + '\n')
}
main()
