//! JSLIT (bounded stand-in): every Unicode scalar value alone and followed by each critical successor
//! (digit, hex letter, quote, backslash, brace, 'u', 'x'), through the real gen_lit_str.
//! Oracle: an independent strict-mode ECMAScript string-literal decoder (ECMA-262 12.9.4).
use crate::Outcome;
use glass_easel_template_compiler::verif_hooks as h;

fn hexv(c: char) -> Option<u32> { c.to_digit(16) }
/// decode ONE double-quoted literal that must span the whole text; None = not a valid strict-mode literal
fn js_decode(t: &str) -> Option<String> {
    let cs: Vec<char> = t.chars().collect();
    if cs.len() < 2 || cs[0] != '"' { return None; }
    let mut out = String::new();
    let mut i = 1;
    loop {
        if i >= cs.len() { return None; }
        let c = cs[i];
        if c == '"' { return if i == cs.len() - 1 { Some(out) } else { None }; }
        if c == '\n' || c == '\r' || c == '\u{2028}' || c == '\u{2029}' { return None; }
        if c != '\\' { out.push(c); i += 1; continue; }
        let e = *cs.get(i + 1)?;
        match e {
            'n' => { out.push('\n'); i += 2; }
            'r' => { out.push('\r'); i += 2; }
            't' => { out.push('\t'); i += 2; }
            'b' => { out.push('\u{8}'); i += 2; }
            'f' => { out.push('\u{c}'); i += 2; }
            'v' => { out.push('\u{b}'); i += 2; }
            '"' | '\\' | '\'' => { out.push(e); i += 2; }
            'x' => { let a = hexv(*cs.get(i + 2)?)?; let b = hexv(*cs.get(i + 3)?)?; out.push(char::from_u32(a * 16 + b)?); i += 4; }
            'u' => {
                if cs.get(i + 2) == Some(&'{') {
                    let mut j = i + 3; let mut v = 0u32; let mut n = 0;
                    while j < cs.len() && cs[j] != '}' { v = v.checked_mul(16)?.checked_add(hexv(cs[j])?)?; j += 1; n += 1; }
                    if j >= cs.len() || n == 0 { return None; }
                    out.push(char::from_u32(v)?); i = j + 1;
                } else {
                    let mut v = 0u32;
                    for k in 0..4 { v = v * 16 + hexv(*cs.get(i + 2 + k)?)?; }
                    out.push(char::from_u32(v)?); i += 6;
                }
            }
            '0' => { if cs.get(i + 2).map_or(false, |d| d.is_ascii_digit()) { return None; } out.push('\0'); i += 2; }
            '1'..='9' => return None,
            '\n' | '\r' | '\u{2028}' | '\u{2029}' => return None, // line continuation: not produced, treated as invalid here
            other => { out.push(other); i += 2; }
        }
    }
}
const SUCC: [&str; 10] = ["", "0", "7", "f", "A", "\"", "\\", "{", "u", "x"];
const BOUND: &str = "every Unicode scalar value alone and followed by each of {0,7,f,A,\",\\,{,u,x}";
fn check(s: &str) -> Option<(String, String)> {
    let lit = h::gen_lit_str(s);
    match js_decode(&lit) {
        Some(v) if v == s => None,
        Some(v) => Some((format!("literal {} decodes to {:?}", lit, v), format!("{:?}", s))),
        None => Some((format!("literal {} is not a valid strict-mode string literal", lit), "a valid literal".into())),
    }
}
pub fn search() -> Outcome {
    let mut n = 0u64;
    for cp in 0..=0x10FFFFu32 {
        let Some(c) = char::from_u32(cp) else { continue };
        for s in SUCC {
            n += 1;
            let text = format!("{}{}", c, s);
            if let Some((got, want)) = check(&text) {
                return Outcome { found: true, input: text.chars().map(|c| format!("{:x}", c as u32)).collect::<Vec<_>>().join("."), observed: got, expected: want, evaluations: n, bound: BOUND.into() };
            }
        }
    }
    Outcome::none(n, BOUND)
}
pub fn run(input: &str) -> Outcome {
    let text: String = input.split('.').filter(|x| !x.is_empty()).map(|x| char::from_u32(u32::from_str_radix(x, 16).unwrap()).unwrap()).collect();
    match check(&text) {
        Some((got, want)) => Outcome { found: true, input: input.into(), observed: got, expected: want, evaluations: 1, bound: "single input".into() },
        None => Outcome { found: false, input: input.into(), observed: String::new(), expected: String::new(), evaluations: 1, bound: "single input".into() },
    }
}
