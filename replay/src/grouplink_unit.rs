//! GROUPLINK (bounded stand-in for the group-level half of C13, which no contract within reach decides: the
//! references live in Element::parse / Template::to_proc_gen, both outside the verifier's subset).  Small templates
//! with <= 3 imports, an include and an external script, over a pool of relative spellings (./, ../, leading /,
//! optional suffix once and twice, empty segments) x 3 referring paths.  Oracles, from the property text:
//!  (1) direct_dependencies / script_dependencies list exactly the reference resolver's targets, in source order,
//!      with ONE optional `.wxml` / `.wxs` suffix ignored;
//!  (2) the generated code links to exactly those keys: the `Object.assign({}, ...imports..., H)` precedence list
//!      names the resolved imports so that the LAST occurrence of every target keeps its relative order (later
//!      imports win), includes appear as G["target"], scripts as R["target"].
use crate::Outcome;
use glass_easel_template_compiler::TmplGroup;

const BASES: &[&str] = &["a", "d/a", "d/e/a"];
const IMPORTS: &[&str] = &["b", "./b", "../b", "/b", "b.wxml", "b.wxml.wxml", "c", "../c/b", "./d/../c", "/d/b", "c//b", "/d/../b", "/./b.wxml"];
const INCLUDES: &[&str] = &["b.wxml", "../i", "i.wxml.wxml", "/i", "/d/../i", "/./i.wxml", "./x/../i", "../c/./i"];
const SCRIPTS: &[&str] = &["s", "s.wxs", "s.wxs.wxs", "../s", "/lib/s.wxs", "/lib/../s", "/./s.wxs", "./x/../s"];
const BOUND: &str = "3 referring paths x all sequences of <= 3 imports from 13 spellings (relative, ./, ../, absolute, absolute with . and .. segments, suffixes) x (no include | 8 include spellings) x (no script | 8 script spellings)";

/// reference resolver, written from the property text (same function the PATH unit proves path::resolve equal to)
fn ref_resolve(base: &str, rel: &str) -> String {
    let mut segs: Vec<&str> = vec![];
    let rest = if let Some(r) = rel.strip_prefix('/') { r } else {
        for s in base.split('/') { match s { "." => {} ".." => { segs.pop(); } x => segs.push(x) } }
        rel
    };
    segs.pop();
    for s in rest.split('/') { match s { "." => {} ".." => { segs.pop(); } x => segs.push(x) } }
    segs.join("/")
}
static SHAPE_MISSES: std::sync::atomic::AtomicU64 = std::sync::atomic::AtomicU64::new(0);
fn strip_once<'a>(s: &'a str, suffix: &str) -> &'a str { s.strip_suffix(suffix).unwrap_or(s) }
fn last_occurrence_order(v: &[String]) -> Vec<String> {
    let mut out: Vec<String> = vec![];
    for (i, x) in v.iter().enumerate() { if !v[i + 1..].contains(x) { out.push(x.clone()); } }
    out
}
fn source(imports: &[&str], include: Option<&str>, script: Option<&str>) -> String {
    let mut s = String::new();
    for i in imports { s += &format!("<import src=\"{}\"/>", i); }
    if let Some(i) = include { s += &format!("<include src=\"{}\"/>", i); }
    if let Some(x) = script { s += &format!("<wxs module=\"m\" src=\"{}\"/>", x); }
    s += "<template is=\"t\"/><view>{{ m }}</view>";
    s
}
fn check(base: &str, imports: &[&str], include: Option<&str>, script: Option<&str>) -> Option<(String, String)> {
    let mut g = TmplGroup::new();
    let src = source(imports, include, script);
    g.add_tmpl(base, &src);
    let mut want: Vec<String> = imports.iter().map(|r| ref_resolve(base, strip_once(r, ".wxml"))).collect();
    let want_imports = want.clone();
    if let Some(i) = include { want.push(ref_resolve(base, strip_once(i, ".wxml"))); }
    let Ok(it) = g.direct_dependencies(base) else { return Some(("direct_dependencies failed".into(), "a list".into())) };
    let got: Vec<String> = it.collect();
    if got != want { return Some((format!("direct_dependencies = {:?}", got), format!("{:?}", want))); }
    let want_s: Vec<String> = script.iter().map(|r| ref_resolve(base, strip_once(r, ".wxs"))).collect();
    let Ok(it) = g.script_dependencies(base) else { return Some(("script_dependencies failed".into(), "a list".into())) };
    let got_s: Vec<String> = it.collect();
    if got_s != want_s { return Some((format!("script_dependencies = {:?}", got_s), format!("{:?}", want_s))); }
    let Ok(code) = g.get_tmpl_gen_object(base) else { return Some(("get_tmpl_gen_object failed".into(), "code".into())) };
    // (2) precedence list
    // the textual oracle below knows ONE shape of the emitted lookup; when the emitter is changed to another shape
    // the oracle is not applicable (counted in SHAPE_MISSES, reported in the bound) -- never an alarm
    let Some(p) = code.find("Object.assign({}") else { SHAPE_MISSES.fetch_add(1, std::sync::atomic::Ordering::SeqCst); return None };
    let tail = &code[p + "Object.assign({}".len()..];
    let Some(end) = tail.find(",H)") else { SHAPE_MISSES.fetch_add(1, std::sync::atomic::Ordering::SeqCst); return None };
    let mut listed: Vec<String> = vec![];
    for part in tail[..end].split(",(G[").skip(1) {
        let Some(q) = part.find("]||{})._") else { SHAPE_MISSES.fetch_add(1, std::sync::atomic::Ordering::SeqCst); return None };
        let lit = &part[..q];
        listed.push(lit.trim_matches('"').to_string());
    }
    if last_occurrence_order(&listed) != last_occurrence_order(&want_imports) {
        return Some((format!("import precedence list {:?}", listed), format!("last occurrences in the order of {:?}", want_imports)));
    }
    if let Some(i) = include {
        let t = ref_resolve(base, strip_once(i, ".wxml"));
        if !code.contains(&format!("G[\"{}\"]", t)) { return Some((format!("generated code does not link the include to G[\"{}\"]", t), "that key".into())); }
    }
    if let Some(s) = script {
        let t = ref_resolve(base, strip_once(s, ".wxs"));
        if !code.contains(&format!("R[\"{}\"]", t)) && !code.contains(&format!("(\"{}\")", t)) { return Some((format!("generated code does not link the script to \"{}\": {}", t, code.chars().take(300).collect::<String>()), "that key".into())); }
        // registration side (seed C13-17): a script is registered under EXACTLY the path it is added with -- the optional
        // suffix belongs to the reference, not to the registered path; `t` and `t.wxs` are two scripts
        let t2 = format!("{}.wxs", t);
        g.add_script(&t, "exports.k = 1");
        g.add_script(&t2, "exports.k = 2");
        let a = g.get_script(&t).ok().map(|x| x.to_string());
        let b = g.get_script(&t2).ok().map(|x| x.to_string());
        if a.as_deref() != Some("exports.k = 1") || b.as_deref() != Some("exports.k = 2") {
            return Some((format!("scripts added as {:?} and {:?} read back as {:?} and {:?}", t, t2, a, b), "each script under exactly the path it was added with".into()));
        }
    }
    None
}
fn encode(base: &str, imports: &[&str], include: Option<&str>, script: Option<&str>) -> String {
    format!("{}\t{}\t{}\t{}", base, imports.join(" "), include.unwrap_or("-"), script.unwrap_or("-"))
}
pub fn search() -> Outcome {
    std::panic::set_hook(Box::new(|_| {}));
    let mut count = 0u64;
    let n = IMPORTS.len();
    for base in BASES {
        for d in 0..=3usize {
            let mut idx = vec![0usize; d];
            loop {
                let imports: Vec<&str> = idx.iter().map(|i| IMPORTS[*i]).collect();
                let includes: Vec<Option<&str>> = if d <= 1 { std::iter::once(None).chain(INCLUDES.iter().map(|s| Some(*s))).collect() } else { vec![None] };
                for include in includes {
                    let scripts: Vec<Option<&str>> = if d <= 1 { std::iter::once(None).chain(SCRIPTS.iter().map(|s| Some(*s))).collect() } else { vec![None] };
                    for script in scripts {
                        count += 1;
                        let (b, im) = (base.to_string(), imports.iter().map(|s| s.to_string()).collect::<Vec<_>>());
                        let (inc, sc) = (include.map(|s| s.to_string()), script.map(|s| s.to_string()));
                        let r = std::panic::catch_unwind(move || {
                            let im2: Vec<&str> = im.iter().map(|s| s.as_str()).collect();
                            check(&b, &im2, inc.as_deref(), sc.as_deref())
                        });
                        match r {
                            Ok(Some((got, want))) => return Outcome { found: true, input: encode(base, &imports, include, script), observed: got, expected: want, evaluations: count, bound: BOUND.into() },
                            Err(_) => return Outcome { found: true, input: encode(base, &imports, include, script), observed: "panic".into(), expected: "no panic".into(), evaluations: count, bound: BOUND.into() },
                            _ => {}
                        }
                    }
                }
                let mut k = 0;
                while k < d { idx[k] += 1; if idx[k] < n { break; } idx[k] = 0; k += 1; }
                if k == d { break; }
            }
        }
    }
    let miss = SHAPE_MISSES.load(std::sync::atomic::Ordering::SeqCst);
    Outcome::none(count, &format!("{}; textual linking oracle not applicable (emitted shape not recognised) for {} of {} inputs", BOUND, miss, count))
}
pub fn run(input: &str) -> Outcome {
    let f: Vec<&str> = input.split('\t').collect();
    let imports: Vec<&str> = f.get(1).map(|s| s.split(' ').filter(|x| !x.is_empty()).collect()).unwrap_or_default();
    let include = f.get(2).filter(|s| **s != "-").map(|s| *s);
    let script = f.get(3).filter(|s| **s != "-").map(|s| *s);
    match check(f[0], &imports, include, script) {
        Some((got, want)) => Outcome { found: true, input: input.into(), observed: got, expected: want, evaluations: 1, bound: "single input".into() },
        None => Outcome { found: false, input: input.into(), observed: String::new(), expected: String::new(), evaluations: 1, bound: "single input".into() },
    }
}
