//! CSSOUT (bounded stand-in): every sequence of <= 3 append operations over a directed token list,
//! through the real StyleSheetOutput.  Oracle (from the property statements C08/C19 and cssparser's public
//! API): a separator exactly when `needs_separator_when_before` says so; each token written through the
//! token path has one source-map entry whose generated column is the UTF-16 length of the output before
//! the token text, whose source position is the one passed, and whose name is the source token's spelling.
use crate::Outcome;
use cssparser::{ToCss, Token, TokenSerializationType};
use glass_easel_stylesheet_compiler::verif_hooks as h;

fn toks() -> Vec<Token<'static>> {
    vec![
        Token::Ident("a".into()),
        Token::Ident("1".into()),
        Token::Ident("\u{1F600}b".into()),
        Token::Number { has_sign: false, value: 2.0, int_value: Some(2) },
        Token::Dimension { has_sign: false, value: 1.5, int_value: None, unit: "px".into() },
        Token::Delim('.'),
        Token::Delim('+'),
        Token::Delim('-'),
        Token::Comma,
        Token::Colon,
        Token::QuotedString("\u{1F600}\u{1F680}".into()),
        Token::WhiteSpace(" "),
        Token::Hash("f".into()),
        Token::Percentage { has_sign: false, unit_value: 0.5, int_value: Some(50) },
    ]
}
#[derive(Clone, Copy, PartialEq)]
enum Op { Tok, TokSrc, Keep, Raw }
const OPS: [Op; 4] = [Op::Tok, Op::TokSrc, Op::Keep, Op::Raw];
const BOUND: &str = "all sequences of <= 3 operations {append_token, append_token with src name, append_token_space_preserved, append_raw} over 14 directed tokens (astral characters, hex-escaped identifiers, numbers, delimiters, whitespace)";

fn u16len(s: &str) -> u32 { s.encode_utf16().count() as u32 }

fn check(seq: &[(Op, usize)]) -> Option<(String, String)> {
    let ts = toks();
    let mut out = h::output_new("p.wxss", "src");
    let mut expect = String::new();
    let mut prev = TokenSerializationType::Nothing;
    let mut entries: Vec<(u32, u32, u32, Option<String>)> = vec![];
    for (n, (op, ti)) in seq.iter().enumerate() {
        let t = ts[*ti].clone();
        let line = n as u32 + 3;
        let col = 7 * n as u32 + 1;
        let src = Token::Ident("orig\u{1F600}".into());
        match op {
            Op::Raw => {
                let s = t.to_css_string();
                h::append_raw(&mut out, &s);
                expect.push_str(&s);
                prev = TokenSerializationType::Nothing;
            }
            Op::Keep if matches!(t, Token::WhiteSpace(_)) => {
                h::append_token_space_preserved(&mut out, t.clone(), line, col, None);
                expect.push(' ');
                prev = t.serialization_type();
            }
            _ => {
                let next = t.serialization_type();
                if prev.needs_separator_when_before(next) {
                    expect.push(' ');
                }
                prev = next;
                let name = if *op == Op::TokSrc { Some(src.to_css_string()) } else { None };
                entries.push((u16len(&expect), line, col, name.clone()));
                expect.push_str(&t.to_css_string());
                let srct = if *op == Op::TokSrc { Some(src.clone()) } else { None };
                if *op == Op::Keep {
                    h::append_token_space_preserved(&mut out, t.clone(), line, col, srct);
                } else {
                    h::append_token(&mut out, t.clone(), line, col, srct);
                }
            }
        }
    }
    let got = h::output_string(&out);
    if got != expect {
        return Some((format!("output {:?}", got), format!("output {:?}", expect)));
    }
    let sm = out.extract_source_map();
    let got_entries: Vec<(u32, u32, u32, Option<String>)> =
        sm.tokens().map(|t| (t.get_dst_col(), t.get_src_line(), t.get_src_col(), t.get_name().map(|x| x.to_string()))).collect();
    if got_entries != entries {
        return Some((format!("map entries (dst_col, src_line, src_col, name) {:?}", got_entries), format!("{:?}", entries)));
    }
    None
}
fn enc(seq: &[(Op, usize)]) -> String {
    seq.iter().map(|(o, t)| format!("{}:{}", OPS.iter().position(|x| x == o).unwrap(), t)).collect::<Vec<_>>().join(",")
}
fn dec(s: &str) -> Vec<(Op, usize)> {
    s.split(',').filter(|x| !x.is_empty()).map(|p| { let (a, b) = p.split_once(':').unwrap(); (OPS[a.parse::<usize>().unwrap()], b.parse().unwrap()) }).collect()
}
pub fn search() -> Outcome {
    let n = toks().len();
    let all: Vec<(Op, usize)> = OPS.iter().flat_map(|o| (0..n).map(move |t| (*o, t))).collect();
    let mut count = 0u64;
    for d in 1..=3usize {
        let mut idx = vec![0usize; d];
        loop {
            let seq: Vec<(Op, usize)> = idx.iter().map(|i| all[*i]).collect();
            count += 1;
            if let Some((got, want)) = check(&seq) {
                return Outcome { found: true, input: enc(&seq), observed: got, expected: want, evaluations: count, bound: BOUND.into() };
            }
            let mut k = 0;
            while k < d { idx[k] += 1; if idx[k] < all.len() { break; } idx[k] = 0; k += 1; }
            if k == d { break; }
        }
    }
    Outcome::none(count, BOUND)
}
pub fn run(input: &str) -> Outcome {
    let seq = dec(input);
    match check(&seq) {
        Some((got, want)) => Outcome { found: true, input: input.into(), observed: got, expected: want, evaluations: 1, bound: "single input".into() },
        None => Outcome { found: false, input: input.into(), observed: String::new(), expected: String::new(), evaluations: 1, bound: "single input".into() },
    }
}
