//! TOTAL (bounded stand-in for C01 where a scanner fell outside the verifier's reach):
//! every concatenation of <= 3 pieces from a directed piece list is fed to the real
//! add_tmpl + every emitter + stringify (templates) and to the stylesheet transformer.
//! A watchdog thread reports an input that makes no progress for 3 s (hang); a panic is caught.
use crate::Outcome;
use glass_easel_template_compiler::TmplGroup;
use std::sync::atomic::{AtomicU64, Ordering};
use std::sync::{Arc, Mutex};

const WX_PIECES: &[&str] = &[
    "<a", "{{a}}", " ", ">", "/>", "</a>", "\u{3000}", "\u{a0}", "=", "\"", "{{", "}}", " b=\"", "0x", "g", "0", "7", "9", "99999999999999999999",
    "0777777777777777777777777", "0xffffffffffffffffffff", "e", ".", "-", "<!meta", "<!--", "-->", "&#0;", "&", ";", "'", "\\", "x", "[", ",", "]", "(", ")", "?", ":", "a", "<wxs", "\n", "\u{1F600}",
    "<", "!", "<!", "</", "<!-", "<wxs module=\"m\">", "</wxs", "'\\ud800'", "{{'\\ud83d\\ude00'}}", "\\uDFFF",
];
const CSS_PIECES: &[&str] = &[
    ".a", " ", "{", "}", "(", ")", "[", "]", ":", ";", "@media", "@import", "\"", "'", "url(", "1rpx", "calc(", "+", "-", "/*", "*/", "\\", ":host", ",", "#", "\n", "\u{1F600}", "1e999rpx", "@",
];

/// second family: every host tag x attribute name (prefixes and directives in lower / UPPER / Capitalised spelling) x value form
const HOSTS: &[&str] = &["view", "block", "slot", "template", "include", "import", "wxs", "Comp-a"];
const ATTR_NAMES: &[&str] = &[
    "data-a", "data-", "data:a", "mark:a", "bind:a", "binda", "catch:a", "mut-bind:a", "capture-bind:a", "capture-catch:a", "capture-mut-bind:a", "model:a", "change:a",
    "worklet:a", "generic:a", "extra-attr:a", "slot:a", "wx:if", "wx:elif", "wx:else", "wx:for", "wx:for-item", "wx:for-index", "wx:key", "wx:x", "class", "style", "id",
    "slot", "src", "module", "name", "is", "data", "class:a", "style:a", "a:b:c", "a", "hidden",
];
const ATTR_VALUES: &[&str] = &["", "=\"\"", "=\"x\"", "=\"{{a}}\"", "=x", "='{{a}} b'"];
fn case_variants(n: &str) -> Vec<String> {
    let mut cap = String::new();
    let mut up = true;
    for c in n.chars() { if up { cap.extend(c.to_uppercase()); } else { cap.push(c); } up = c == '-' || c == ':'; }
    vec![n.to_string(), n.to_uppercase(), cap]
}
fn attr_family() -> Vec<String> {
    let mut v = vec![];
    for h in HOSTS {
        for n in ATTR_NAMES {
            for nn in case_variants(n) {
                for val in ATTR_VALUES {
                    v.push(format!("<{} {}{}>x</{}>", h, nn, val, h));
                    v.push(format!("<{} {}{} {}{}/>", h, nn, val, nn, val));
                }
            }
        }
    }
    v
}
/// C01: "time and memory bounded by a small polynomial of the input length" -- an artefact larger than this is a runaway
fn size_ok(what: &str, input_len: usize, out_len: usize) {
    let bound = 1_000_000usize + 200 * input_len * input_len;
    if out_len > bound { panic!("runaway output: {} has {} bytes for an input of {} bytes (bound 1e6 + 200*len^2 = {})", what, out_len, input_len, bound); }
}
fn run_wxml(s: &str) {
    let mut g = TmplGroup::new();
    let _ = g.add_tmpl("p/t", s);
    if let Ok(x) = g.get_tmpl_gen_object("p/t") { size_ok("get_tmpl_gen_object", s.len(), x.len()); }
    if let Ok(x) = g.get_tmpl_gen_object_groups() { size_ok("get_tmpl_gen_object_groups", s.len(), x.len()); }
    if let Ok(x) = g.get_wx_gen_object_groups() { size_ok("get_wx_gen_object_groups", s.len(), x.len()); }
    let _ = g.export_all_scripts();
    if let Some(x) = g.stringify_tmpl("p/t") { size_ok("stringify_tmpl", s.len(), x.len()); }
}
fn run_css(s: &str) {
    use glass_easel_stylesheet_compiler::{StyleSheetOptions, StyleSheetTransformer};
    for k in 0..2 {
        let opts = if k == 0 {
            StyleSheetOptions::default()
        } else {
            StyleSheetOptions { class_prefix: Some("p".into()), class_prefix_sign: Some("S".into()), rpx_ratio: 750., import_sign: Some("I".into()), convert_host: true, host_is: Some("h".into()) }
        };
        let t = StyleSheetTransformer::from_css("p.wxss", s, opts);
        let (n, l) = t.output_and_low_priority_output();
        let mut o = Vec::new();
        let _ = n.write(&mut o);
        let _ = l.write(&mut o);
        size_ok("stylesheet outputs", s.len(), o.len());
    }
}

/// all concatenations of <= depth pieces
fn combos(pieces: &[&str], depth: usize) -> Vec<String> {
    let n = pieces.len();
    let mut out = vec![];
    for d in 1..=depth {
        let mut idx = vec![0usize; d];
        loop {
            out.push(idx.iter().map(|i| pieces[*i]).collect::<String>());
            let mut k = 0;
            while k < d {
                idx[k] += 1;
                if idx[k] < n {
                    break;
                }
                idx[k] = 0;
                k += 1;
            }
            if k == d {
                break;
            }
        }
    }
    out
}
/// nesting depth up to the bound the property allows recursive descent (64), every recursive construct, closed and unclosed:
/// each must come back within the watchdog's 3 s (a construct re-parsed twice per level would need 2^64 steps)
fn deep_wxml() -> Vec<String> {
    let mut v = vec![];
    for n in [8usize, 24, 48, 64] {
        for (o, c) in [("(", ")"), ("[", "]"), ("{k:", "}"), ("f(", ")"), ("!", ""), ("a?b:", ""), ("a+", ""), ("a&&(", ")"), ("typeof ", ""), ("-", ""), ("a[", "]"), ("a.b(", ")"), ("[...", "]"), ("{...", "}"), ("a??(", ")"), ("(a,", ")")] {
            // KNOWN (known-findings.json, C01): the update-path expression of an object spread mentions its operand twice, so
            // nested object spreads double the generated code per level; enumerated beyond depth 8 only with VX_TOTAL_KNOWN=1
            if o == "{..." && n > 8 && std::env::var("VX_TOTAL_KNOWN").is_err() { continue; }
            v.push(format!("<v a=\"{{{{ {}a{} }}}}\">{{{{ {}a{} }}}}</v>", o.repeat(n), c.repeat(n), o.repeat(n), c.repeat(n)));
            v.push(format!("<v a=\"{{{{ {}a }}}}\"/>", o.repeat(n)));
            v.push(format!("<v wx:if=\"{{{{ {}a{} }}}}\"/>", o.repeat(n), c.repeat(n.saturating_sub(1))));
        }
        for (o, c) in [("<v>", "</v>"), ("<v wx:for=\"{{l}}\">", "</v>"), ("<v wx:if=\"{{a}}\">", "</v>"), ("<block>", "</block>"), ("<c slot:a>", "</c>"), ("<template name=\"t\">", "</template>"), ("<slot>", "</slot>")] {
            v.push(format!("{}x{}", o.repeat(n), c.repeat(n)));
            v.push(format!("{}x", o.repeat(n)));
            v.push(format!("x{}", c.repeat(n)));
        }
        v.push(format!("<v a=\"{}\"/>", "{{".repeat(n)));
        v.push(format!("<v>{}</v>", "{{a}}".repeat(n)));
        v.push(format!("<v {}/>", "a=\"1\" ".repeat(n)));
        v.push(format!("{}", "<!--".repeat(n)));
        v.push(format!("{}", "&amp".repeat(n)));
    }
    // scopes opened in one branch only of an if / elif / else chain
    for inner in ["<view slot:item>{{item}}</view>", "<view slot:a=\"b\">{{b}}{{a}}</view>", "<view wx:for=\"{{l}}\" wx:for-item=\"x\">{{x}}{{index}}</view>", "<slot name=\"{{a}}\" v=\"{{b}}\" slot:v/>", "<template is=\"{{t}}\" data=\"{{ {a} }}\"/>", "<include src=\"q\"/>{{a}}"] {
        for k in 0..3 {
            let b = |i: usize| if i == k { inner.to_string() } else { "x".to_string() };
            v.push(format!("<child><block wx:if=\"{{{{a}}}}\">{}</block><block wx:elif=\"{{{{b}}}}\">{}</block><block wx:else>{}</block></child>", b(0), b(1), b(2)));
            v.push(format!("<child><view wx:if=\"{{{{a}}}}\">{}</view><view wx:else>{}</view></child>", b(0), b(if k == 2 { 2 } else { 1 })));
        }
    }
    // wide, not deep: thousands of siblings in one scope (thousands of generated identifiers in one function)
    for n in [1000usize, 4000] {
        v.push("<view id=\"i\" class=\"{{a}}\"><text>{{b}}</text></view>".repeat(n));
        v.push("<v wx:if=\"{{a}}\" b=\"{{c}}\"/>".repeat(n));
    }
    v
}
fn deep_css() -> Vec<String> {
    let mut v = vec![];
    for n in [8usize, 24, 48, 64] {
        for (o, c) in [("(", ")"), ("[", "]"), ("{", "}"), ("calc(", ")"), (":not(", ")"), (":is(.a ", ")"), ("@media x{", "}"), ("@supports (a:b){", "}"), ("@layer l{", "}"), (".a{", "}"), ("var(--x,", ")"), ("url(", ")")] {
            v.push(format!(".a{{width:{}1rpx{}}}", o.repeat(n), c.repeat(n)));
            v.push(format!("{}.a{{width:1rpx}}{}", o.repeat(n), c.repeat(n)));
            v.push(format!("{}.a:host{{width:1rpx}}", o.repeat(n)));
            v.push(format!(".a{}", c.repeat(n)));
        }
        v.push(format!("{}", ":host{a:b}".repeat(n)));
        v.push(format!("{}", "@import 'a' layer(x) supports(a:b) screen;".repeat(n)));
        v.push(format!("@import 'a' {};", "layer(x) ".repeat(n)));
        v.push(format!(".a{{width:calc({}1px)}}", "1px + ".repeat(n)));
    }
    v
}
fn drive(kind: &'static str, inputs: Vec<String>, what: String) -> Outcome {
    let bound = format!("{}: {}; hang = no progress for 3 s", kind, what);
    let cur: Arc<Mutex<String>> = Arc::new(Mutex::new(String::new()));
    let tick = Arc::new(AtomicU64::new(0));
    // the watchdog belongs to THIS enumeration: it stops when the enumeration is over (a watchdog left running would
    // report the last input of a finished family as hanging while the next family is being enumerated)
    let done = Arc::new(std::sync::atomic::AtomicBool::new(false));
    {
        let cur = cur.clone();
        let tick = tick.clone();
        let bound = bound.clone();
        let done = done.clone();
        std::thread::spawn(move || {
            let mut last = u64::MAX;
            let mut same = 0;
            loop {
                std::thread::sleep(std::time::Duration::from_millis(500));
                if done.load(Ordering::SeqCst) { return; }
                let t = tick.load(Ordering::SeqCst);
                if t == last {
                    same += 1;
                    if same >= 6 {
                        let input = cur.lock().unwrap().clone();
                        Outcome { found: true, input: format!("{}\t{}", kind, input), observed: "no result within 3 s (hang / runaway)".into(), expected: "returns normally".into(), evaluations: t, bound: bound.clone() }.print();
                        std::process::exit(1);
                    }
                } else {
                    same = 0;
                    last = t;
                }
            }
        });
    }
    std::panic::set_hook(Box::new(|_| {}));
    let mut count = 0u64;
    for s in inputs {
        *cur.lock().unwrap() = s.clone();
        tick.fetch_add(1, Ordering::SeqCst);
        count += 1;
        let s2 = s.clone();
        let r = std::panic::catch_unwind(move || if kind == "wxml" { run_wxml(&s2) } else { run_css(&s2) });
        if let Err(e) = r {
            let msg = e.downcast_ref::<String>().cloned().or_else(|| e.downcast_ref::<&str>().map(|x| x.to_string())).unwrap_or_default();
            done.store(true, Ordering::SeqCst);
            return Outcome { found: true, input: format!("{}\t{}", kind, s), observed: format!("panic: {}", msg), expected: "returns normally".into(), evaluations: count, bound };
        }
    }
    done.store(true, Ordering::SeqCst);
    Outcome::none(count, &bound)
}
pub fn search() -> Outcome {
    let depth: usize = std::env::var("VX_TOTAL_DEPTH").ok().and_then(|x| x.parse().ok()).unwrap_or(3);
    std::panic::set_hook(Box::new(|_| {}));
    let mut extra = 0u64;
    for s in attr_family() {
        extra += 1;
        let s2 = s.clone();
        if let Err(e) = std::panic::catch_unwind(move || run_wxml(&s2)) {
            let msg = e.downcast_ref::<String>().cloned().or_else(|| e.downcast_ref::<&str>().map(|x| x.to_string())).unwrap_or_default();
            return Outcome { found: true, input: format!("wxml\t{}", s), observed: format!("panic: {}", msg), expected: "returns normally".into(), evaluations: extra, bound: "attribute family: 8 hosts x 39 attribute names x 3 letter cases x 6 value forms x (paired | doubled self-closing)".into() };
        }
    }
    let mut wx = combos(WX_PIECES, depth);
    wx.extend(deep_wxml());
    let mut o = drive("wxml", wx, format!("all concatenations of <= {} pieces from a list of {} directed pieces; every recursive construct nested 8/24/48/64 deep, closed and unclosed; 36 if / elif / else chains with a scope-opening node in one branch; 1000 and 4000 siblings in one scope", depth, WX_PIECES.len()));
    o.evaluations += extra;
    o.bound = format!("{} ; attribute family: 8 hosts x 39 attribute names x 3 letter cases x 6 value forms x 2 shapes", o.bound);
    if o.found {
        return o;
    }
    let mut cs = combos(CSS_PIECES, depth);
    cs.extend(deep_css());
    let o2 = drive("css", cs, format!("all concatenations of <= {} pieces from a list of {} directed pieces; blocks, functions and at-rules nested 8/24/48/64 deep, closed and unclosed", depth, CSS_PIECES.len()));
    if o2.found {
        return o2;
    }
    Outcome::none(o.evaluations + o2.evaluations, &format!("{} ; {}", o.bound, o2.bound))
}
pub fn run(input: &str) -> Outcome {
    let (kind, text) = input.split_once('\t').unwrap_or(("wxml", input));
    let text = text.to_string();
    let kind_s = kind.to_string();
    let (tx, rx) = std::sync::mpsc::channel();
    std::thread::spawn(move || {
        std::panic::set_hook(Box::new(|_| {}));
        let r = std::panic::catch_unwind(|| if kind_s == "wxml" { run_wxml(&text) } else { run_css(&text) });
        let _ = tx.send(r.map_err(|e| e.downcast_ref::<String>().cloned().or_else(|| e.downcast_ref::<&str>().map(|x| x.to_string())).unwrap_or_default()));
    });
    match rx.recv_timeout(std::time::Duration::from_secs(5)) {
        Ok(Ok(())) => Outcome { found: false, input: input.into(), observed: "returned normally".into(), expected: String::new(), evaluations: 1, bound: "single input".into() },
        Ok(Err(msg)) => Outcome { found: true, input: input.into(), observed: format!("panic: {}", msg), expected: "returns normally".into(), evaluations: 1, bound: "single input".into() },
        Err(_) => Outcome { found: true, input: input.into(), observed: "no result within 5 s (hang)".into(), expected: "returns normally".into(), evaluations: 1, bound: "single input".into() },
    }
}
