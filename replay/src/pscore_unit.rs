//! PSCORE (bounded stand-in): all source texts of <= 4 characters over {a, LF, e-acute, U+1F600, space, '/', '*'},
//! every sequence of <= 3 cursor operations of the real ParseState.  Oracle (property C16): after every operation
//! the reported position is (number of LF before the cursor, UTF-16 length of the text after the last LF before
//! the cursor); a failed try_parse restores index, line and column together.
use crate::Outcome;
use glass_easel_template_compiler::parse::{ParseState, Position};
use glass_easel_template_compiler::verif_hooks::parse_state as h;

const ALPHA: [char; 7] = ['a', '\n', '\u{e9}', '\u{1F600}', ' ', '/', '*'];
const NOPS: usize = 10;
const BOUND: &str = "all texts of <= 4 characters over {a, LF, U+00E9, U+1F600, space, /, *} x all sequences of <= 3 operations {next, skip_bytes(1..3 chars), skip_whitespace, skip_whitespace_with_js_comments, skip_until_before/after(\"*/\"), next_char_as_str, consume_str(\"a\"), failing try_parse}";

fn ref_pos(prefix: &str) -> (u32, u32) {
    let line = prefix.matches('\n').count() as u32;
    let tail = match prefix.rfind('\n') { Some(i) => &prefix[i + 1..], None => prefix };
    (line, tail.encode_utf16().count() as u32)
}
fn apply(ps: &mut ParseState, src: &str, op: usize) {
    let cur = h::cur_index(ps);
    let rest = &src[cur..];
    match op {
        0 => { h::next(ps); }
        1 | 2 | 3 => {
            let n: usize = rest.chars().take(op).map(|c| c.len_utf8()).sum();
            h::skip_bytes(ps, n);
        }
        4 => { h::skip_whitespace(ps); }
        5 => { h::skip_whitespace_with_js_comments(ps); }
        6 => { h::skip_until_before(ps, "*/"); }
        7 => { h::skip_until_after(ps, "*/"); }
        8 => { h::next_char_as_str(ps); }
        9 => { h::consume_str(ps, "a"); }
        _ => {}
    }
}
fn check(src: &str, ops: &[usize]) -> Option<(String, String)> {
    let mut ps = ParseState::new("t", src, Position { line: 0, utf16_col: 0 });
    for (n, op) in ops.iter().enumerate() {
        apply(&mut ps, src, *op);
        let cur = h::cur_index(&ps);
        if !src.is_char_boundary(cur) {
            return Some((format!("after op #{} the cursor {} is not on a character boundary", n, cur), "a boundary".into()));
        }
        let p = h::position(&ps);
        let want = ref_pos(&src[..cur]);
        if (p.line, p.utf16_col) != want {
            return Some((format!("after op #{} (byte {}): position ({}, {})", n, cur, p.line, p.utf16_col), format!("({}, {})", want.0, want.1)));
        }
        // a failing try_parse must put everything back
        let before = (h::cur_index(&ps), h::position(&ps));
        h::try_parse_fail_after(&mut ps, 2);
        let after = (h::cur_index(&ps), h::position(&ps));
        if before != after {
            return Some((format!("failed try_parse left ({}, {:?})", after.0, after.1), format!("({}, {:?})", before.0, before.1)));
        }
    }
    None
}
fn enc(src: &str, ops: &[usize]) -> String {
    format!("{}\t{}", src.chars().map(|c| format!("{:x}", c as u32)).collect::<Vec<_>>().join("."), ops.iter().map(|o| o.to_string()).collect::<Vec<_>>().join("."))
}
pub fn search() -> Outcome {
    let mut count = 0u64;
    let mut texts = vec![String::new()];
    let mut frontier = vec![String::new()];
    for _ in 0..4 {
        let mut next = vec![];
        for t in &frontier { for c in ALPHA { let mut s = t.clone(); s.push(c); next.push(s); } }
        texts.extend(next.iter().cloned());
        frontier = next;
    }
    for src in &texts {
        for d in 1..=3usize {
            let mut idx = vec![0usize; d];
            loop {
                count += 1;
                let r = std::panic::catch_unwind(|| check(src, &idx));
                match r {
                    Ok(Some((got, want))) => return Outcome { found: true, input: enc(src, &idx), observed: got, expected: want, evaluations: count, bound: BOUND.into() },
                    Err(_) => return Outcome { found: true, input: enc(src, &idx), observed: "panic".into(), expected: "no panic".into(), evaluations: count, bound: BOUND.into() },
                    _ => {}
                }
                let mut k = 0;
                while k < d { idx[k] += 1; if idx[k] < NOPS { break; } idx[k] = 0; k += 1; }
                if k == d { break; }
            }
        }
    }
    Outcome::none(count, BOUND)
}
pub fn run(input: &str) -> Outcome {
    let (a, b) = input.split_once('\t').unwrap();
    let src: String = a.split('.').filter(|x| !x.is_empty()).map(|x| char::from_u32(u32::from_str_radix(x, 16).unwrap()).unwrap()).collect();
    let ops: Vec<usize> = b.split('.').filter(|x| !x.is_empty()).map(|x| x.parse().unwrap()).collect();
    match std::panic::catch_unwind(|| check(&src, &ops)) {
        Ok(Some((got, want))) => Outcome { found: true, input: input.into(), observed: got, expected: want, evaluations: 1, bound: "single input".into() },
        Err(_) => Outcome { found: true, input: input.into(), observed: "panic".into(), expected: "no panic".into(), evaluations: 1, bound: "single input".into() },
        _ => Outcome { found: false, input: input.into(), observed: String::new(), expected: String::new(), evaluations: 1, bound: "single input".into() },
    }
}
