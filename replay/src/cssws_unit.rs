//! CSSWS (bounded stand-in for the token-stream rewrites in lib.rs that are outside the verifier's reach):
//! stylesheets assembled from directed pieces, through the real transformer.  Oracle (properties C08/C09):
//! retokenise(output), with comments and insignificant whitespace dropped, equals the input token stream with
//! the documented rewrites applied (rpx -> vw, `.name` -> `.P--name` in selector context at every depth).
//! Significant whitespace = descendant combinators in selector context (rule preludes and non-math functions
//! inside them, at any depth, inside any rule-bearing at-rule) and the whitespace around + and - in math functions.
use crate::Outcome;
use cssparser::{Parser, ParserInput, ToCss, Token};
use glass_easel_stylesheet_compiler::{StyleSheetOptions, StyleSheetTransformer};

#[derive(Clone, Copy, PartialEq)]
enum Ctx { Sel, Decl, Math, AtPrelude }

fn is_math(name: &str) -> bool {
    matches!(name.to_ascii_lowercase().as_str(), "calc" | "min" | "max" | "clamp" | "round" | "mod" | "rem" | "sin" | "cos" | "tan" | "asin" | "acos" | "atan" | "atan2" | "pow" | "sqrt" | "hypot" | "log" | "exp" | "abs" | "sign")
}
/// canonical token list: strings; "\u{1}" stands for a significant whitespace
fn canon(p: &mut Parser, ctx: Ctx, prefix: Option<&str>, rewrite: bool, out: &mut Vec<String>) {
    let mut pending_ws = false;
    let mut in_class = false;
    let mut ctx = ctx;
    let mut first = true;
    let mut at_rule_with_rules = false;
    loop {
        let tok = match p.next_including_whitespace() { Ok(t) => t.clone(), Err(_) => break };
        if let Token::WhiteSpace(_) = tok { pending_ws = true; in_class = false; continue; }
        // significant whitespace?
        if pending_ws && !first {
            let prev = out.last().cloned().unwrap_or_default();
            let sig = match ctx {
                Ctx::Sel => {
                    let prev_comb = matches!(prev.as_str(), "," | ">" | "+" | "~" | "(" | "[" | "\u{1}") || prev.ends_with('(');
                    let next_comb = matches!(&tok, Token::Comma | Token::Delim('>') | Token::Delim('+') | Token::Delim('~') | Token::CurlyBracketBlock);
                    !prev_comb && !next_comb
                }
                Ctx::Math => prev == "+" || prev == "-" || matches!(&tok, Token::Delim('+') | Token::Delim('-')),
                _ => false,
            };
            if sig { out.push("\u{1}".into()); }
        }
        pending_ws = false;
        first = false;
        match &tok {
            Token::AtKeyword(name) => {
                out.push(tok.to_css_string());
                let n = name.to_ascii_lowercase();
                at_rule_with_rules = matches!(n.as_str(), "media" | "supports" | "document" | "layer" | "container" | "scope" | "starting-style");
                ctx = Ctx::AtPrelude;
                in_class = false;
            }
            Token::Semicolon => { out.push(";".into()); if ctx == Ctx::AtPrelude { ctx = Ctx::Sel; } in_class = false; }
            Token::CurlyBracketBlock => {
                out.push("{".into());
                let inner = match ctx {
                    Ctx::Sel => Ctx::Decl,
                    Ctx::AtPrelude => if at_rule_with_rules { Ctx::Sel } else { Ctx::Decl },
                    c => c,
                };
                let _ = p.parse_nested_block(|q| -> Result<(), cssparser::ParseError<()>> { canon(q, inner, prefix, rewrite, out); Ok(()) });
                out.push("}".into());
                if ctx == Ctx::AtPrelude { ctx = Ctx::Sel; }
                first = true;
                in_class = false;
            }
            Token::ParenthesisBlock | Token::SquareBracketBlock => {
                let (o, c) = if matches!(tok, Token::ParenthesisBlock) { ("(", ")") } else { ("[", "]") };
                out.push(o.into());
                let inner = match ctx { Ctx::AtPrelude => Ctx::Sel, c => c };
                let _ = p.parse_nested_block(|q| -> Result<(), cssparser::ParseError<()>> { canon(q, inner, prefix, rewrite, out); Ok(()) });
                out.push(c.into());
                in_class = false;
            }
            Token::Function(name) => {
                out.push(format!("{}(", name));
                let inner = if is_math(name) || ctx == Ctx::Math { Ctx::Math } else { match ctx { Ctx::Sel | Ctx::AtPrelude => Ctx::Sel, _ => Ctx::Decl } };
                let _ = p.parse_nested_block(|q| -> Result<(), cssparser::ParseError<()>> { canon(q, inner, prefix, rewrite, out); Ok(()) });
                out.push(")".into());
                in_class = false;
            }
            Token::Delim('.') => { out.push(".".into()); in_class = matches!(ctx, Ctx::Sel | Ctx::AtPrelude); }
            Token::Ident(name) => {
                if in_class && rewrite && prefix.is_some() {
                    out.push(Token::Ident(format!("{}--{}", prefix.unwrap(), name).into()).to_css_string());
                } else {
                    out.push(tok.to_css_string());
                }
                in_class = false;
            }
            Token::Dimension { value, unit, has_sign, .. } if rewrite && unit.as_ref() == "rpx" => {
                out.push(format!("num:{}{:.4e}vw", if *has_sign && !value.is_sign_negative() { "+" } else { "" }, (*value as f64) * 100.0 / 750.0));
                in_class = false;
            }
            // an explicit plus sign is part of the token (An+B, `+5`): it must survive
            Token::Dimension { value, unit, has_sign, .. } => { out.push(format!("num:{}{:.4e}{}", if *has_sign && !value.is_sign_negative() { "+" } else { "" }, *value as f64, unit)); in_class = false; }
            Token::Number { value, has_sign, .. } => { out.push(format!("num:{}{:.4e}", if *has_sign && !value.is_sign_negative() { "+" } else { "" }, *value as f64)); in_class = false; }
            Token::Percentage { unit_value, has_sign, .. } => { out.push(format!("num:{}{:.4e}%", if *has_sign && !unit_value.is_sign_negative() { "+" } else { "" }, *unit_value as f64)); in_class = false; }
            t => { out.push(t.to_css_string()); in_class = false; }
        }
    }
}
fn canon_str(css: &str, prefix: Option<&str>, rewrite: bool) -> Vec<String> {
    let mut pi = ParserInput::new(css);
    let mut p = Parser::new(&mut pi);
    let mut out = vec![];
    canon(&mut p, Ctx::Sel, prefix, rewrite, &mut out);
    out
}
const SEL: &[&str] = &[".a", ".md\\:x", " ", ".b", ">", ",", ":not(", ":is(", ")", ":hover", "/*c*/", "#i", "[x=y]", "::slotted(", ":nth-child(2n + 1 of ", ":nth-child(+3)", ":is(:nth-last-child(odd of "];
/// token-level selector pieces: the dot, identifiers and the tokens that may come between them are separate pieces, so that
/// every adjacency (`.` `,` `b`; `.` `:` `hover`; `.` ` ` `a`; `[` `.` `=` `b` `]`) is visited -- an identifier is a class name only
/// immediately after the dot
/// (no comment piece here: a comment between two identifiers, `a/*c*/a`, is re-printed with a space as separator, which
/// reads as a descendant combinator -- but that input is not a well-formed selector, outside C08's quantifier)
const SEL2: &[&str] = &[".", "a", "b", " ", ",", ">", ":", "*", ":is(", ":not(", ")", "[", "]", "=", "#i"];
const VAL: &[&str] = &["calc(", "min(", "CALC(", "Clamp(", "1px", " + ", " - ", "2rpx", "(", ")", "*3", "var(--x,", " ", ",", "/*c*/", "red", ";", "!important", "#fff", ";height:", "+5", "-0", "+5px", "0rpx", "calc(1px /*c*/+ ", "max(1px,2rpx /**/- "];
const WRAP: &[(&str, &str)] = &[("", ""), ("@media (min-width:1rpx){", "}"), ("@MEDIA (min-width:1px){", "}"), ("@layer x{", "}"), ("@supports selector(.c .d){", "}"), ("@container n (min-width: calc(1px + 2rpx)){", "}"), ("@starting-style{", "}"), ("@scope (.c) to (.d){", "}"), ("@STARTING-STYLE{", "}"), ("@document url(x){", "}")];
/// at-rules whose block holds declarations (or keyframe / margin-box blocks of declarations), never selectors
const DECL_WRAP: &[(&str, &str)] = &[("@page{width:", "}"), ("@page :first{margin:0 ", "}"), ("@font-face{width:", "}"), ("@keyframes k{from{width:", "}}"), ("@page{@top-left{width:", "}}"), ("@property --x{initial-value:", "}"), ("@counter-style c{pad:", "}")];
const BOUND: &str = "selectors of <= 4 token-level pieces from 15 (dot, identifiers, combinators, colon, star, :is/:not, brackets, =, hash; plain, under @media and inside x:is(..)), selectors of <= 4 pieces from 14 selector pieces (classes, combinators, :not/:is/::slotted/:nth-child(.. of ..), comments) under 10 wrappers (none, @media, @MEDIA, @layer, @supports selector(), @container with calc, @starting-style, @STARTING-STYLE, @scope, @document), and declaration values of <= 4 pieces from 20 value pieces (calc, min, CALC, Clamp, nested parentheses, var, rpx, comments, `;` also doubled and leading, !important, a hash, a second declaration, signed numbers), and values of <= 2 pieces inside 7 declaration at-rules (@page, @font-face, @keyframes, margin boxes, @property, @counter-style); selectors of <= 2 pieces before and after `:host` rules with :host conversion, prefix and prefix sign on; 9 selectors with escaped names x 6 prefixes (digit-first, dash-digit, `--`, CJK, ASCII, empty); 7 sheets with dotted cascade-layer names (@layer, @import layer()) x import sign x prefix x prefix sign: the names reach the output unchanged; 6 zero rpx spellings x 5 contexts; the JS binding constructor agrees with from_css for 4 prefixes (none, empty, ASCII, CJK) x :host conversion on/off; only inputs the transformer accepts without a warning; class prefixes `p` and the empty prefix";

fn well_nested(css: &str) -> bool {
    let mut st = vec![];
    for c in css.chars() {
        match c { '(' | '{' | '[' => st.push(c), ')' => if st.pop() != Some('(') { return false }, '}' => if st.pop() != Some('{') { return false }, ']' => if st.pop() != Some('[') { return false }, _ => {} }
    }
    st.is_empty()
}
fn check(css: &str) -> Option<(String, String)> {
    check_with(css, "p").or_else(|| check_with(css, ""))
}
fn check_with(css: &str, prefix: &str) -> Option<(String, String)> {
    let t = StyleSheetTransformer::from_css("p.wxss", css, StyleSheetOptions { class_prefix: Some(prefix.into()), rpx_ratio: 750., ..Default::default() });
    let warned = t.warnings().count() > 0;
    let mut outs = String::new();
    t.output().write_str(&mut outs).unwrap();
    if warned { return None; }
    let want = canon_str(css, Some(prefix), true);
    let got = canon_str(&outs, None, false);
    if want != got {
        let show = |v: &Vec<String>| v.iter().map(|s| if s == "\u{1}" { "\u{2423}".to_string() } else { s.clone() }).collect::<Vec<_>>().join(" ");
        return Some((format!("output {:?} retokenises to [{}]", outs, show(&got)), format!("[{}]", show(&want))));
    }
    None
}
/// options interplay: with :host conversion on, a `:host` rule moves to the low-priority output; every OTHER rule, before and
/// after it, is rewritten exactly as it is without the `:host` rule
fn check_host(rule: &str) -> Option<(String, String)> {
    // the rule under test behind and in front of the :host rules; pseudo-class names are ASCII case-insensitive
    for form in 0..4 {
        let h = if form < 2 { ":host" } else if rule.len() % 2 == 0 { ":HOST" } else { ":Host" };
        let (css, plain) = if form % 2 == 0 {
            (format!(".h1{{width:1px}}{h}{{color:red}}{}@media x{{{h}{{top:0}}{}}}", rule, rule, h = h), format!(".h1{{width:1px}}{}@media x{{{}}}", rule, rule))
        } else {
            (format!(".h1{{width:1px}}{}{h}{{color:red}}@media x{{{}{h}{{top:0}}}}", rule, rule, h = h), format!(".h1{{width:1px}}{}@media x{{{}}}", rule, rule))
        };
        let t = StyleSheetTransformer::from_css("p.wxss", &css, StyleSheetOptions { class_prefix: Some("p".into()), class_prefix_sign: Some("S".into()), rpx_ratio: 750., convert_host: true, host_is: Some("h".into()), ..Default::default() });
        if t.warnings().count() > 0 { return None; }
        let (n, l) = t.output_and_low_priority_output();
        let (mut outs, mut lows) = (String::new(), String::new());
        n.write_str(&mut outs).unwrap();
        l.write_str(&mut lows).unwrap();
        let show = |v: &Vec<String>| v.iter().map(|s| if s == "\u{1}" { "\u{2423}".to_string() } else { s.clone() }).collect::<Vec<_>>().join(" ");
        let want = canon_str(&plain, Some("p"), true);
        let got = canon_str(&outs, None, false);
        if want != got {
            return Some((format!("with :host conversion: normal output {:?} retokenises to [{}]", outs, show(&got)), format!("[{}] (the sheet without its :host rules)", show(&want))));
        }
        // the low-priority output holds the two converted rules, each in its own chain of at-rules, and nothing of the other rules
        // (a `;` in front of a `}` is not significant)
        let strip = |v: Vec<String>| -> Vec<String> { let mut o: Vec<String> = vec![]; for t in v { if t == "}" && o.last().map(|x| x == ";").unwrap_or(false) { o.pop(); } o.push(t); } o };
        let want_low = strip(canon_str("[wx-host=\"p\"],[is=\"h\"]{color:red}@media x{[wx-host=\"p\"],[is=\"h\"]{top:0}}", None, false));
        let got_low = strip(canon_str(&lows, None, false));
        if want_low != got_low {
            return Some((format!("with :host conversion: low-priority output {:?} retokenises to [{}]", lows, show(&got_low)), format!("[{}] (the two converted :host rules in their own at-rule chains)", show(&want_low))));
        }
    }
    None
}
/// the other public entry point (the constructor the JS / wasm binding exports) must hand its options to from_css unchanged:
/// no prefix, the EMPTY prefix (`.a` -> `.--a`) and a non-empty one, with and without :host conversion
fn check_binding(css: &str) -> Option<(String, String)> {
    for prefix in [None, Some(""), Some("p"), Some("\u{9875}")] {
        for host in [false, true] {
            let t = StyleSheetTransformer::from_css("p.wxss", css, StyleSheetOptions { class_prefix: prefix.map(|s| s.to_string()), rpx_ratio: 750., convert_host: host, ..Default::default() });
            let (n, l) = t.output_and_low_priority_output();
            let (mut sn, mut sl) = (String::new(), String::new());
            n.write_str(&mut sn).unwrap();
            l.write_str(&mut sl).unwrap();
            let j = glass_easel_stylesheet_compiler::js_bindings::StyleSheetTransformer::new("p.wxss", css, prefix.map(|s| s.to_string()), 750., host);
            if j.get_content() != sn || j.get_low_priority_content() != sl {
                return Some((format!("js_bindings::StyleSheetTransformer::new(.., {:?}, 750, {}) gives {:?} / {:?}", prefix, host, j.get_content(), j.get_low_priority_content()), format!("{:?} / {:?} (from_css with the same options)", sn, sl)));
            }
        }
    }
    None
}
/// a dotted cascade-layer name (`@layer base.theme`, `@import .. layer(base.theme)`) is not a class selector: the name must
/// reach the output as the same identifiers and dots, with and without an import sign, for every prefix setting
fn check_layer(css: &str) -> Option<(String, String)> {
    fn flat(p: &mut cssparser::Parser, out: &mut Vec<String>) {
        while let Ok(t) = p.next_including_whitespace_and_comments().map(|t| t.clone()) {
            match &t {
                cssparser::Token::Ident(s) => out.push(s.to_string()),
                cssparser::Token::Delim(c) => out.push(c.to_string()),
                cssparser::Token::Function(_) | cssparser::Token::ParenthesisBlock | cssparser::Token::CurlyBracketBlock | cssparser::Token::SquareBracketBlock => {
                    if let cssparser::Token::Function(n) = &t { out.push(format!("{}(", n)); } else { out.push("|".into()); }
                    let _ = p.parse_nested_block(|q| -> Result<(), cssparser::ParseError<()>> { flat(q, out); Ok(()) });
                    out.push("|".into());
                }
                _ => out.push("|".into()),
            }
        }
    }
    let names = |text: &str| -> Vec<String> { let mut pi = cssparser::ParserInput::new(text); let mut p = cssparser::Parser::new(&mut pi); let mut v = vec![]; flat(&mut p, &mut v); v };
    let src = names(css);
    // the dotted names of the input: maximal runs ident (. ident)+
    let mut runs: Vec<Vec<String>> = vec![];
    let mut i = 0;
    while i < src.len() {
        let mut j = i;
        let word = |w: &String| w != "." && w != "|" && !w.ends_with('(');
        if word(&src[j]) { while j + 2 < src.len() && src[j + 1] == "." && word(&src[j + 2]) { j += 2; } }
        if j > i { runs.push(src[i..=j].to_vec()); }
        i = j + 1;
    }
    for sign in [None, Some("S")] {
        for prefix in [None, Some("p"), Some("")] {
            for psign in [None, Some("PS")] {
                let t = StyleSheetTransformer::from_css("p.wxss", css, StyleSheetOptions { class_prefix: prefix.map(|s| s.to_string()), class_prefix_sign: psign.map(|s| s.to_string()), import_sign: sign.map(|s| s.to_string()), rpx_ratio: 750., ..Default::default() });
                if t.warnings().next().is_some() { continue; }
                let mut text = String::new();
                t.output().write_str(&mut text).unwrap();
                let out = names(&text);
                for r in &runs {
                    if !out.windows(r.len()).any(|w| w == &r[..]) {
                        return Some((format!("import_sign {:?}, class_prefix {:?}, class_prefix_sign {:?}: output {:?}", sign, prefix, psign, text), format!("the layer name {} unchanged", r.join(""))));
                    }
                }
            }
        }
    }
    None
}
const LAYERS: &[&str] = &[
    "@import \"a.wxss\" layer(base.theme);", "@import url(a.wxss) layer(a.b.c) supports(display: grid) screen;", "@import 'a' layer(x.y);\n.k{top:0}",
    "@layer base.theme{.k{top:0}}", "@layer a.b, c.d.e;", "@layer a.b{@layer c.d{.k{top:0}}}", "@media screen{@layer m.n{.k{width:1rpx}}}",
];
fn combos(pieces: &[&str], maxd: usize) -> Vec<String> {
    let mut out = vec![];
    let n = pieces.len();
    for d in 1..=maxd {
        let mut idx = vec![0usize; d];
        loop {
            let s: String = idx.iter().map(|i| pieces[*i]).collect();
            if well_nested(&s) && !s.starts_with(' ') && !s.starts_with(',') && !s.starts_with('>') { out.push(s); }
            let mut k = 0;
            while k < d { idx[k] += 1; if idx[k] < n { break; } idx[k] = 0; k += 1; }
            if k == d { break; }
        }
    }
    out
}
pub fn search() -> Outcome {
    std::panic::set_hook(Box::new(|_| {}));
    let mut count = 0u64;
    let mut inputs: Vec<String> = vec![];
    for s in combos(SEL, 4) {
        for (a, b) in WRAP { inputs.push(format!("{}{}{{width:1px}}{}", a, s, b)); }
    }
    for s in combos(SEL2, 4) {
        for (a, b) in &WRAP[..2] { inputs.push(format!("{}{}{{width:1px}}{}", a, s, b)); }
        inputs.push(format!("x:is({}){{width:1px}}", s));
    }
    for v in combos(VAL, 4) { inputs.push(format!(".a{{width:{}}}", v)); }
    for v in combos(VAL, 2) { for (a, b) in DECL_WRAP { inputs.push(format!("{}{}{}", a, v, b)); } }
    for css in inputs {
        count += 1;
        let c2 = css.clone();
        match std::panic::catch_unwind(move || check(&c2)) {
            Ok(Some((got, want))) => return Outcome { found: true, input: css, observed: got, expected: want, evaluations: count, bound: BOUND.into() },
            Err(_) => return Outcome { found: true, input: css, observed: "panic".into(), expected: "no panic".into(), evaluations: count, bound: BOUND.into() },
            _ => {}
        }
    }
    // names that need escaping when written: a prefix that starts with a digit or `-digit`, classes / ids spelled with escapes
    for sel in [".a", ".a.b>.c", ".\\31 st", "#\\31 a", ".-\\31 x", ".a\\ b", ".\\--x", "x.\\32", ":not(.\\31 a)"] {
        for prefix in ["2x", "-1", "--", "\u{9875}", "p", ""] {
            count += 1;
            let css = format!("{}{{width:1px}}", sel);
            if let Some((got, want)) = check_with(&css, prefix) {
                return Outcome { found: true, input: format!("prefix:{}:{}", prefix, css), observed: got, expected: want, evaluations: count, bound: BOUND.into() };
            }
        }
    }
    for css in LAYERS {
        count += 1;
        if let Some((got, want)) = check_layer(css) {
            return Outcome { found: true, input: format!("layer:{}", css), observed: got, expected: want, evaluations: count, bound: BOUND.into() };
        }
    }
    // zero lengths stay lengths
    for z in ["0rpx", "+0rpx", "-0rpx", "0.0rpx", "0e3rpx"] {
        for (a, b) in [(".a{width:", "}"), (".a{margin:calc(", " + 10px)}"), (".a{flex:1 1 ", "}"), ("@media (min-width: ", "){.a{top:0}}"), ("@keyframes k{to{left:", "}}")] {
            let css = format!("{}{}{}", a, z, b);
            count += 1;
            if let Some((got, want)) = check(&css) {
                return Outcome { found: true, input: css, observed: got, expected: want, evaluations: count, bound: BOUND.into() };
            }
        }
    }
    for sel in combos(SEL, 2) {
        count += 1;
        let css = format!("{}{{width:2rpx}}:host{{top:0}}@media x{{{}{{width:1px}}}}", sel, sel);
        if let Some((got, want)) = check_binding(&css) {
            return Outcome { found: true, input: format!("binding:{}", css), observed: got, expected: want, evaluations: count, bound: BOUND.into() };
        }
    }
    for rule in ["@font-face{font-family:f;src:url(f.woff)}", "@keyframes k{from{top:0}to{top:1rpx}}", "@page{margin:0}", "@page :first{@top-left{content:\"x\"}}", "@property --x{syntax:\"*\";inherits:false}", "@counter-style c{system:cyclic;symbols:\"*\"}", "@layer a, b;", "@font-face{font-family:\"\u{5b57}\u{1F600}\"}", ".\u{5b57}{content:\"\u{2192}\u{1F600}\"}"] {
        count += 1;
        if let Some((got, want)) = check_host(rule) {
            return Outcome { found: true, input: format!("host:{}", rule), observed: got, expected: want, evaluations: count, bound: BOUND.into() };
        }
    }
    for sel in combos(SEL, 2) {
        count += 1;
        let rule = format!("{}{{width:2rpx}}", sel);
        let r2 = rule.clone();
        match std::panic::catch_unwind(move || check_host(&r2)) {
            Ok(Some((got, want))) => return Outcome { found: true, input: format!("host:{}", rule), observed: got, expected: want, evaluations: count, bound: BOUND.into() },
            Err(_) => return Outcome { found: true, input: format!("host:{}", rule), observed: "panic".into(), expected: "no panic".into(), evaluations: count, bound: BOUND.into() },
            _ => {}
        }
    }
    Outcome::none(count, BOUND)
}
pub fn run(input: &str) -> Outcome {
    if let Some(css) = input.strip_prefix("binding:") {
        return match check_binding(css) {
            Some((got, want)) => Outcome { found: true, input: input.into(), observed: got, expected: want, evaluations: 1, bound: "single input".into() },
            None => Outcome { found: false, input: input.into(), observed: String::new(), expected: String::new(), evaluations: 1, bound: "single input".into() },
        };
    }
    if let Some(rest) = input.strip_prefix("prefix:") {
        let (prefix, css) = rest.split_once(':').unwrap_or(("p", rest));
        return match check_with(css, prefix) {
            Some((got, want)) => Outcome { found: true, input: input.into(), observed: got, expected: want, evaluations: 1, bound: "single input".into() },
            None => Outcome { found: false, input: input.into(), observed: String::new(), expected: String::new(), evaluations: 1, bound: "single input".into() },
        };
    }
    if let Some(css) = input.strip_prefix("layer:") {
        return match check_layer(css) {
            Some((got, want)) => Outcome { found: true, input: input.into(), observed: got, expected: want, evaluations: 1, bound: "single input".into() },
            None => Outcome { found: false, input: input.into(), observed: String::new(), expected: String::new(), evaluations: 1, bound: "single input".into() },
        };
    }
    if let Some(rule) = input.strip_prefix("host:") {
        return match check_host(rule) {
            Some((got, want)) => Outcome { found: true, input: input.into(), observed: got, expected: want, evaluations: 1, bound: "single input".into() },
            None => Outcome { found: false, input: input.into(), observed: String::new(), expected: String::new(), evaluations: 1, bound: "single input".into() },
        };
    }
    match check(input) {
        Some((got, want)) => Outcome { found: true, input: input.into(), observed: got, expected: want, evaluations: 1, bound: "single input".into() },
        None => Outcome { found: false, input: input.into(), observed: String::new(), expected: String::new(), evaluations: 1, bound: "single input".into() },
    }
}
