//! JSEVAL (bounded, deterministic generator with an oracle for C03 "binding expressions evaluate with JavaScript
//! semantics" and C02 "every emitted artefact is a syntactically valid program").  The templates are compiled by the REAL
//! TmplGroup and the JavaScript it emits is EXECUTED / PARSED by node (js/evalharness.js, one node process per search).
//!
//! WHAT IS ENUMERATED (no randomness except one fixed-seed LCG for environments of trees with >= 4 variables)
//!  ops      every expression tree of depth <= 2 over the 6 unary operators (! ~ + - typeof void), the 23 binary
//!           operators (* / % + - << >> >>> < > <= >= instanceof == != === !== & ^ | && || ??) and ?: - every operator
//!           pair x every operand position - each printed twice: with the MINIMAL parentheses JavaScript needs for that tree
//!           and FULLY parenthesised.  `<div v="{{ e }}"/>`; leaves are data fields a,b,c,..; environments: pool^vars
//!           (16 edge values for <= 2 variables, 12 for 3 variables, 600 LCG tuples over the 16 for 4 and 5 variables).
//!  pos      every depth <= 1 tree (+ 5 nested ?: / ?? trees) in every binding position at once: attribute, attribute with
//!           static parts, data-, mark:, class, style, id, text, text with static parts, wx:if.
//!  num      number literals in every accepted radix and magnitude (decimal, leading-zero decimal, legacy octal, hex,
//!           fraction, exponent, > 2^53, > i64, > f64::MAX, subnormal, underflow) as `L`, `-L`, `L + a`, `a * L`.
//!  str      string literals with every escape the parser knows (+ identity escapes, both quote kinds, U+2028, `}}`)
//!           as `S`, `S + a`, `S.length`.
//!  lit      array literals with holes / spreads / trailing commas, object literals with shorthand / spreads / keyword keys.
//!  mem      member / index / call chains: reads on null / undefined, calls of non-functions, `this` of calls, calls on
//!           results of calls, members of literals.
//!  wxif     wx:if / wx:elif / wx:elif / wx:else chains with `??` / `?:` / `||` / `&&` / `!` roots in every branch position.
//!  scope    wx:for item / index (default and renamed, shadowing a data field, nested), inline <wxs> module, template data.
//!  c05      (C05) see below.   c12  (C12) see below.
//!  parse    (C02) small directed groups, each emitted in normal and dev mode: > 2300 generated identifiers, 190000
//!           sibling elements (normal mode only), odd tag / attribute / slot / module names, strings with quotes,
//!           backslashes, control characters, U+2028/9, `</script>`, huge / non-finite numbers, sign-operator sequences,
//!           nested for / if / slot / template / wxs / import / include, odd template and script paths, script bodies.
//!
//! ORACLES (from the property texts, not from the implementation)
//!  C03: value delivered to the runtime protocol (wrapper.r / d / m / c / y / i raw; text and mixed positions through the
//!       runtime's own dataValueToString; wx:if through which branch is rendered), after creation, after running every
//!       binding-map updater, and after a whole-data update pass, is `same` (Object.is on primitives, functions by
//!       identity, arrays incl. holes, objects by prototype + ordered own keys) as the value node computes for the FULLY
//!       PARENTHESISED reference printed from the TREE, where free identifiers are data fields / scope values, a member
//!       read is $get (undefined on null/undefined), a call is $call (plain call, undefined for a non-function).
//!       Environments in which the reference itself throws are skipped (the property assigns no value there).
//!       Self-check: for operator trees the source text itself, evaluated as JavaScript, must agree with the reference.
//!       A C03 case whose source produces a parser diagnostic, or whose code does not parse, is a finding too.
//!  C02: every artefact (get_runtime_string, export_globals, export_all_scripts, get_tmpl_gen_object per template,
//!       get_tmpl_gen_object_groups, get_wx_gen_object_groups; TmplGroup::new and new_dev) parses as a script, as
//!       `var g=<expr>;`, as `new Function("return " + expr)` / `new Function(stmts)`, sloppy and with 'use strict'.
//!
//! STUB RUNTIME: see js/evalharness.js (creation + update protocol for text / element / if / for / slot / virtual nodes,
//! all wrapper setters).  NOT COVERED: trees deeper than 2 outside the directed families, components (properties, model
//! bindings, events, dynamic slots / slot values), keyed list diffing, import / include at run time (parsed only),
//! `\u` escapes that denote a lone surrogate (the parser rejects them with a diagnostic), entities inside `{{ }}`.
//!
//! NARROWED: a C03 case is a finding when the parser reports an Error / Fatal diagnostic for it; Note / Warn diagnostics
//! (`duplicated name` for `{ x: 1, x: 2 }`) are tolerated - the property does not say that supported expressions are free
//! of lints.  Key ORDER of object values is compared (JavaScript defines it); no case needed this to be relaxed.
//!
//! KNOWN (genuine violations on the current compiler; each excluded by exactly the stated guard): K1 array spread of a
//! non-dense-Array, K2 hoisted sub-expressions vs. short-circuit / call order.  (K3 wx:if with a top-level `??`, K4 inline
//! <wxs> key pasted unescaped, K5 script body ending in a `//` comment, K6 named character references with a digit in
//! the name were repaired in 442f07d / 1be3a93 / ddd5e3f / de39730; their classes are ordinary inputs now: families
//! `wxif`, `wxs`, `scripts`, `c12` entity list.  K7 was withdrawn, see NARROWED below.)  See the KNOWN const (inputs as accepted by `run`; `run` needs no switch).
//! VX_JSEVAL_KNOWN=1 switches the guards off and enumerates the KNOWN inputs and the `hoist` family, so that `search`
//! reports the first of them.  VX_JSEVAL_ALL=1 prints every finding and the case counts per family to stderr (the Outcome
//! still carries the first finding in enumeration order).
//!
//! C05 (family c05): the oracle is `shape_ref`, a reference resolver written from the property text - a stack of
//! (name, value) entries pushed by wx:for (item, then index; the list expression is resolved before), by `slot:` refs
//! (visible in the children; the value is the slot value of that KEY handed to the children of the nearest enclosing
//! element, which the stub runtime makes the string "tag:key"), by <wxs> modules (file level); <template name> bodies
//! start from the modules and the fields of the data they are given.  NARROWED: a slot alias is not probed in the own
//! attributes of the element that carries it (the text says "of the element or an ancestor" without settling it; the
//! compiler resolves those to data); `slot:` together with wx:for on one element is rejected by the parser and not used.
//! C12 (family c12): the oracles are `ref_decode` (character references) and `ref_unescape` (string literal escapes).
//! NARROWED: unquoted attribute values are limited to identifier characters (an unquoted value is not WXML; the parser's
//! recovery cuts it at the first other character with Warn diagnostics only, e.g. `<v a=a$b>` delivers "a");
//! a hexadecimal character reference spelled with an uppercase X (`&#X41;`) is not enumerated and the reference decoder
//! does not read it: WXML's own scanner defines the reference syntax and reports this spelling as an illegal entity, so
//! leaving it undecoded is not a finding (former K7);
//! `\0` followed by a digit is left out (JavaScript reads a legacy octal escape there).  NOT COVERED for C12: tag /
//! attribute / event / generic names, wx:key, template names, resolved paths and module names as run-time values.
use crate::json::quote;
use crate::Outcome;
use glass_easel_template_compiler::TmplGroup;

// ------------------------------------------------------------------------------------------------ mini JSON
#[derive(Clone, Debug, PartialEq)]
pub enum J {
    Null,
    Bool(bool),
    Num(f64),
    Str(String),
    Arr(Vec<J>),
    Obj(Vec<(String, J)>),
}
impl J {
    fn get(&self, k: &str) -> Option<&J> {
        if let J::Obj(v) = self { v.iter().find(|(n, _)| n == k).map(|(_, v)| v) } else { None }
    }
    fn str(&self) -> Option<&str> { if let J::Str(s) = self { Some(s) } else { None } }
    fn arr(&self) -> &[J] { if let J::Arr(a) = self { a } else { &[] } }
    fn num(&self) -> f64 { if let J::Num(n) = self { *n } else { 0. } }
    fn truthy(&self) -> bool { !matches!(self, J::Null | J::Bool(false)) }
    /// serialise; `'` is written as \u0027 so that the text survives single-quoting in a shell
    fn text(&self) -> String {
        match self {
            J::Null => "null".into(),
            J::Bool(b) => b.to_string(),
            J::Num(n) => if n.fract() == 0. && n.abs() < 1e15 { format!("{}", *n as i64) } else { format!("{}", n) },
            J::Str(s) => quote(s).replace('\'', "\\u0027").replace('\u{2028}', "\\u2028").replace('\u{2029}', "\\u2029").replace('\u{7f}', "\\u007f"),
            J::Arr(a) => format!("[{}]", a.iter().map(|x| x.text()).collect::<Vec<_>>().join(",")),
            J::Obj(o) => format!("{{{}}}", o.iter().map(|(k, v)| format!("{}:{}", J::Str(k.clone()).text(), v.text())).collect::<Vec<_>>().join(",")),
        }
    }
}
struct JP<'a> { s: &'a [u8], i: usize }
impl<'a> JP<'a> {
    fn ws(&mut self) { while self.i < self.s.len() && (self.s[self.i] as char).is_ascii_whitespace() { self.i += 1; } }
    fn eat(&mut self, c: u8) -> Option<()> { self.ws(); if self.s.get(self.i) == Some(&c) { self.i += 1; Some(()) } else { None } }
    fn value(&mut self) -> Option<J> {
        self.ws();
        match *self.s.get(self.i)? {
            b'n' => { self.i += 4; Some(J::Null) }
            b't' => { self.i += 4; Some(J::Bool(true)) }
            b'f' => { self.i += 5; Some(J::Bool(false)) }
            b'"' => self.string().map(J::Str),
            b'[' => {
                self.i += 1;
                let mut v = vec![];
                if self.eat(b']').is_some() { return Some(J::Arr(v)); }
                loop { v.push(self.value()?); if self.eat(b',').is_none() { self.eat(b']')?; return Some(J::Arr(v)); } }
            }
            b'{' => {
                self.i += 1;
                let mut v = vec![];
                if self.eat(b'}').is_some() { return Some(J::Obj(v)); }
                loop {
                    self.ws();
                    let k = self.string()?;
                    self.eat(b':')?;
                    v.push((k, self.value()?));
                    if self.eat(b',').is_none() { self.eat(b'}')?; return Some(J::Obj(v)); }
                }
            }
            _ => {
                let st = self.i;
                while self.i < self.s.len() && matches!(self.s[self.i], b'-' | b'+' | b'.' | b'e' | b'E' | b'0'..=b'9') { self.i += 1; }
                std::str::from_utf8(&self.s[st..self.i]).ok()?.parse().ok().map(J::Num)
            }
        }
    }
    fn string(&mut self) -> Option<String> {
        if self.s.get(self.i) != Some(&b'"') { return None; }
        self.i += 1;
        let mut units: Vec<u16> = vec![];
        loop {
            let c = *self.s.get(self.i)?;
            if c == b'"' { self.i += 1; break; }
            if c == b'\\' {
                let e = *self.s.get(self.i + 1)?;
                self.i += 2;
                let ch = match e {
                    b'n' => '\n', b'r' => '\r', b't' => '\t', b'b' => '\u{8}', b'f' => '\u{c}',
                    b'u' => {
                        let h = std::str::from_utf8(self.s.get(self.i..self.i + 4)?).ok()?;
                        self.i += 4;
                        units.push(u16::from_str_radix(h, 16).ok()?);
                        continue;
                    }
                    x => x as char,
                };
                units.push(ch as u16);
            } else {
                // copy one UTF-8 sequence
                let len = if c < 0x80 { 1 } else if c < 0xe0 { 2 } else if c < 0xf0 { 3 } else { 4 };
                let s = std::str::from_utf8(self.s.get(self.i..self.i + len)?).ok()?;
                let mut buf = [0u16; 2];
                units.extend_from_slice(s.chars().next()?.encode_utf16(&mut buf));
                self.i += len;
            }
        }
        Some(String::from_utf16_lossy(&units))
    }
}
pub fn parse_json(s: &str) -> Option<J> {
    let mut p = JP { s: s.as_bytes(), i: 0 };
    let v = p.value()?;
    p.ws();
    if p.i == s.len() { Some(v) } else { None }
}
fn js(s: &str) -> J { J::Str(s.to_string()) }
fn jo(v: Vec<(&str, J)>) -> J { J::Obj(v.into_iter().map(|(k, v)| (k.to_string(), v)).collect()) }

// ------------------------------------------------------------------------------------------------ expression trees
#[derive(Clone, Debug)]
enum Item { Hole, Val(E), Spread(E) }
#[derive(Clone, Debug)]
enum Field { Named(String, E), Short(String), Spread(E) }
#[derive(Clone, Debug)]
enum E {
    Id(String),
    /// number / string / keyword literal: the same text in WXML and in JavaScript
    Lit(String),
    Un(&'static str, Box<E>),
    Bin(&'static str, Box<E>, Box<E>),
    Cond(Box<E>, Box<E>, Box<E>),
    /// items, trailing comma
    Arr(Vec<Item>, bool),
    Obj(Vec<Field>, bool),
    Mem(Box<E>, String),
    Idx(Box<E>, Box<E>),
    Call(Box<E>, Vec<E>),
}
const UNARY: &[&str] = &["!", "~", "+", "-", "typeof", "void"];
const BINARY: &[&str] = &["*", "/", "%", "+", "-", "<<", ">>", ">>>", "<", ">", "<=", ">=", "instanceof", "==", "!=", "===", "!==", "&", "^", "|", "&&", "||", "??"];

fn id(n: &str) -> E { E::Id(n.into()) }
fn lit(n: &str) -> E { E::Lit(n.into()) }
fn un(op: &'static str, x: E) -> E { E::Un(op, Box::new(x)) }
fn bin(op: &'static str, l: E, r: E) -> E { E::Bin(op, Box::new(l), Box::new(r)) }
fn cond(c: E, t: E, f: E) -> E { E::Cond(Box::new(c), Box::new(t), Box::new(f)) }
fn mem(o: E, n: &str) -> E { E::Mem(Box::new(o), n.into()) }
fn idx(o: E, k: E) -> E { E::Idx(Box::new(o), Box::new(k)) }
fn call(f: E, a: Vec<E>) -> E { E::Call(Box::new(f), a) }
fn arr(items: Vec<Item>) -> E { E::Arr(items, false) }
fn obj(fields: Vec<Field>) -> E { E::Obj(fields, false) }

/// JavaScript operator precedence (ECMA-262 expression grammar); higher binds tighter
fn op_prec(op: &str) -> u8 {
    match op {
        "??" => 2, "||" => 3, "&&" => 4, "|" => 5, "^" => 6, "&" => 7,
        "==" | "!=" | "===" | "!==" => 8,
        "<" | ">" | "<=" | ">=" | "instanceof" => 9,
        "<<" | ">>" | ">>>" => 10,
        "+" | "-" => 11,
        _ => 12,
    }
}
fn prec(e: &E) -> u8 {
    match e {
        E::Cond(..) => 1,
        E::Bin(op, ..) => op_prec(op),
        E::Un(..) => 14,
        E::Mem(..) | E::Idx(..) | E::Call(..) => 17,
        _ => 18,
    }
}
fn is_op(e: &E, ops: &[&str]) -> bool { matches!(e, E::Bin(op, ..) if ops.contains(op)) }
fn is_leaf(e: &E) -> bool { matches!(e, E::Id(_) | E::Lit(_)) }
fn paren_left(op: &str, l: &E) -> bool {
    match op {
        // JavaScript forbids mixing ?? with || and && without parentheses
        "??" => is_op(l, &["||", "&&"]) || (!is_op(l, &["??"]) && prec(l) < 5),
        "||" | "&&" => is_op(l, &["??"]) || prec(l) < op_prec(op),
        _ => prec(l) < op_prec(op),
    }
}
fn paren_right(op: &str, r: &E) -> bool {
    match op {
        "??" => prec(r) < 5,
        "||" | "&&" => is_op(r, &["??"]) || prec(r) <= op_prec(op),
        _ => prec(r) <= op_prec(op),
    }
}
/// WXML (= JavaScript) source text of a tree; `full`: parentheses around every non-leaf operand
fn src(e: &E, full: bool) -> String {
    let sub = |x: &E, need: bool| -> String { if need || (full && !is_leaf(x)) { format!("({})", src(x, full)) } else { src(x, full) } };
    match e {
        E::Id(n) | E::Lit(n) => n.clone(),
        E::Un(op, x) => {
            let o = sub(x, prec(x) < 14);
            let word = op.chars().all(|c| c.is_ascii_alphabetic());
            if word || o.starts_with('+') || o.starts_with('-') { format!("{} {}", op, o) } else { format!("{}{}", op, o) }
        }
        E::Bin(op, l, r) => format!("{} {} {}", sub(l, paren_left(op, l)), op, sub(r, paren_right(op, r))),
        E::Cond(c, t, f) => format!("{} ? {} : {}", sub(c, prec(c) <= 1), sub(t, false), sub(f, false)),
        E::Arr(items, trailing) => {
            let mut s = String::from("[");
            for (i, it) in items.iter().enumerate() {
                match it {
                    Item::Hole => s.push(','),
                    Item::Val(x) => { s += &sub(x, false); if i + 1 < items.len() { s += ", "; } }
                    Item::Spread(x) => { s += "..."; s += &sub(x, false); if i + 1 < items.len() { s += ", "; } }
                }
            }
            if *trailing { s.push(','); }
            s + "]"
        }
        E::Obj(fields, trailing) => {
            let parts: Vec<String> = fields.iter().map(|f| match f {
                Field::Named(k, v) => format!("{}: {}", k, sub(v, false)),
                Field::Short(k) => k.clone(),
                Field::Spread(v) => format!("...{}", sub(v, false)),
            }).collect();
            format!("{{ {}{} }}", parts.join(", "), if *trailing { "," } else { "" })
        }
        E::Mem(o, n) => format!("{}.{}", sub(o, prec(o) < 17 || is_number(o)), n),
        E::Idx(o, k) => format!("{}[{}]", sub(o, prec(o) < 17), sub(k, false)),
        E::Call(f, a) => format!("{}({})", sub(f, prec(f) < 17), a.iter().map(|x| sub(x, false)).collect::<Vec<_>>().join(", ")),
    }
}
fn is_number(e: &E) -> bool { matches!(e, E::Lit(t) if t.starts_with(|c: char| c.is_ascii_digit() || c == '.')) }
/// fully parenthesised JavaScript reference of a tree.  `scope` maps identifiers bound by an enclosing template scope
/// to the JavaScript text of their value; every other identifier is a data field.
fn refjs(e: &E, scope: &[(&str, &str)]) -> String {
    let r = |x: &E| refjs(x, scope);
    match e {
        E::Id(n) => match scope.iter().rev().find(|(k, _)| k == n) {
            Some((_, v)) => v.to_string(),
            // ("*", obj): identifiers that no scope introduces are fields of `obj` (the data of a <template is> call)
            None => match scope.iter().rev().find(|(k, _)| *k == "*") { Some((_, o)) => format!("$get({},{})", o, quote(n)), None => format!("$d[{}]", quote(n)) },
        },
        E::Lit(t) => format!("({})", t),
        E::Un(op, x) => format!("({} {})", op, r(x)),
        E::Bin(op, l, rr) => format!("({} {} {})", r(l), op, r(rr)),
        E::Cond(c, t, f) => format!("({} ? {} : {})", r(c), r(t), r(f)),
        E::Arr(items, _) => {
            let mut s = String::from("[");
            for (i, it) in items.iter().enumerate() {
                match it {
                    Item::Hole => s.push(','),
                    Item::Val(x) => { s += &r(x); if i + 1 < items.len() { s.push(','); } }
                    Item::Spread(x) => { s += "..."; s += &r(x); if i + 1 < items.len() { s.push(','); } }
                }
            }
            s + "]"
        }
        E::Obj(fields, _) => {
            let parts: Vec<String> = fields.iter().map(|f| match f {
                // a written `k: v` keeps literal-key semantics (`__proto__: v` sets the prototype), shorthand defines an own property
                Field::Named(k, v) => format!("{}: {}", quote(k), r(v)),
                Field::Short(k) => format!("[{}]: {}", quote(k), r(&E::Id(k.clone()))),
                Field::Spread(v) => format!("...{}", r(v)),
            }).collect();
            format!("({{{}}})", parts.join(","))
        }
        E::Mem(o, n) => format!("$get({},{})", r(o), quote(n)),
        E::Idx(o, k) => format!("$get({},{})", r(o), r(k)),
        E::Call(f, a) => format!("$call({},[{}])", r(f), a.iter().map(|x| r(x)).collect::<Vec<_>>().join(",")),
    }
}
fn vars_of(e: &E, out: &mut Vec<String>) {
    fn add(out: &mut Vec<String>, n: &String) { if !out.contains(n) { out.push(n.clone()) } }
    match e {
        E::Id(n) => add(out, n),
        E::Lit(_) => {}
        E::Un(_, x) => vars_of(x, out),
        E::Bin(_, l, r) => { vars_of(l, out); vars_of(r, out) }
        E::Cond(c, t, f) => { vars_of(c, out); vars_of(t, out); vars_of(f, out) }
        E::Arr(items, _) => for it in items { match it { Item::Val(x) | Item::Spread(x) => vars_of(x, out), Item::Hole => {} } },
        E::Obj(fields, _) => for f in fields { match f { Field::Named(_, v) | Field::Spread(v) => vars_of(v, out), Field::Short(k) => add(out, k) } },
        E::Mem(o, _) => vars_of(o, out),
        E::Idx(o, k) => { vars_of(o, out); vars_of(k, out) }
        E::Call(f, a) => { vars_of(f, out); for x in a { vars_of(x, out) } }
    }
}
/// the expressions spread into array literals (guard of K1)
fn array_spreads(e: &E, out: &mut Vec<E>) {
    match e {
        E::Id(_) | E::Lit(_) => {}
        E::Un(_, x) | E::Mem(x, _) => array_spreads(x, out),
        E::Bin(_, l, r) | E::Idx(l, r) => { array_spreads(l, out); array_spreads(r, out) }
        E::Cond(c, t, f) => { array_spreads(c, out); array_spreads(t, out); array_spreads(f, out) }
        E::Arr(items, _) => for it in items {
            match it { Item::Val(x) => array_spreads(x, out), Item::Spread(x) => { out.push(x.clone()); array_spreads(x, out) } Item::Hole => {} }
        },
        E::Obj(fields, _) => for f in fields { match f { Field::Named(_, v) | Field::Spread(v) => array_spreads(v, out), Field::Short(_) => {} } },
        E::Call(f, a) => { array_spreads(f, out); for x in a { array_spreads(x, out) } }
    }
}

// ------------------------------------------------------------------------------------------------ cases
#[derive(Clone)]
enum Pick { All, Lcg(u32, u32), Tuples(Vec<Vec<usize>>) }
#[derive(Clone)]
struct EvalCase {
    family: &'static str,
    path: String,
    src: String,
    /// sub-template to instantiate ("" = main)
    name: String,
    /// (selector, reference expression, reference is the whole sequence)
    checks: Vec<(String, String, bool)>,
    guards: Vec<String>,
    vars: Vec<String>,
    pool: Vec<J>,
    pick: Pick,
    flat: Option<String>,
    /// Error / Fatal diagnostics are expected (ill-formed character references): do not treat them as a finding
    any_diag: bool,
    /// C07: additionally change ONE top-level field at a time and apply only that field's binding-map updaters
    bmap1: bool,
    /// replayed witness of that phase: the changed field and its new value
    alts: Vec<(String, J)>,
    /// C13: further files of the group (path, source, is a script); when present the all-templates bundle is executed
    files: Vec<(String, String, bool)>,
    /// after parsing: TmplGroup::set_inline_script_content(path, module, content) calls, in order
    post: Vec<(String, String)>,
    /// add the further files BEFORE the template under test (insertion order must not matter)
    files_first: bool,
    /// compile with TmplGroup::new_dev
    dev: bool,
    /// multi-file groups: execute the bundle of get_wx_gen_object_groups (registered through __wxCodeSpace__) instead of
    /// the one of get_tmpl_gen_object_groups
    wx: bool,
}
#[derive(Clone)]
enum FileSrc { Text(String), Rep(String, usize) }
impl FileSrc {
    fn text(&self) -> String { match self { FileSrc::Text(s) => s.clone(), FileSrc::Rep(u, n) => u.repeat(*n) } }
    fn json(&self) -> J { match self { FileSrc::Text(s) => js(s), FileSrc::Rep(u, n) => J::Arr(vec![js(u), J::Num(*n as f64)]) } }
}
#[derive(Clone)]
struct ParseCase { family: &'static str, files: Vec<(String, FileSrc)>, scripts: Vec<(String, String)>, dev: bool, extra: Option<String> }
#[derive(Clone)]
enum Case { Eval(EvalCase), Parse(ParseCase) }

fn known_mode() -> bool { std::env::var("VX_JSEVAL_KNOWN").is_ok() }

const OBJ: &str = r#"{"x":{"y":1},"y":0,"k":"x","f":{"$":"fn","k":"this"},"length":3}"#;
const ARR: &str = r#"[1,[2],"x"]"#;
const FN: &str = r#"{"$":"fn","k":"this"}"#;
fn pool_of(items: &[&str]) -> Vec<J> { items.iter().map(|s| parse_json(s).expect("pool literal")).collect() }
fn pool16() -> Vec<J> {
    pool_of(&["0", r#"{"$":"-0"}"#, "1", "2", "\"\"", "\"a\"", "\"1\"", r#"{"$":"nan"}"#, "null", r#"{"$":"undefined"}"#, "true", "false", OBJ, ARR, FN, "\"x\""])
}
fn pool12() -> Vec<J> {
    pool_of(&["0", r#"{"$":"-0"}"#, "1", "\"\"", "\"a\"", r#"{"$":"nan"}"#, "null", r#"{"$":"undefined"}"#, "true", "false", OBJ, ARR])
}
fn pool_mem() -> Vec<J> {
    let mut p = pool16();
    p.extend(pool_of(&[r#"{"$":"fn","k":"ret","v":{"x":{"$":"fn","k":"this"},"y":7}}"#, "\"ab\"", "5"]));
    p
}
fn pool_lit() -> Vec<J> {
    pool_of(&["0", "\"ab\"", "null", r#"{"$":"undefined"}"#, OBJ, ARR, "[]", r#"[1,{"$":"hole"},3]"#])
}
fn pool_small() -> Vec<J> { pool_of(&["0", "1", "\"a\"", r#"{"$":"undefined"}"#]) }
fn pool_for(nvars: usize) -> (Vec<J>, Pick, usize) {
    match nvars {
        0..=2 => (pool16(), Pick::All, 0),
        3 => (pool12(), Pick::All, 0),
        _ => (pool16(), Pick::Lcg(600, 0), 1),
    }
}
/// `<div v="{{ e }}"/>` with a quote character the expression does not contain
fn attr(name: &str, e: &str) -> String {
    if !e.contains('"') { format!("{}=\"{{{{ {} }}}}\"", name, e) } else { format!("{}='{{{{ {} }}}}'", name, e) }
}
fn ev(family: &'static str, src: String, checks: Vec<(&str, String, bool)>, vars: Vec<String>, pool: Vec<J>, pick: Pick) -> EvalCase {
    EvalCase {
        family, path: "a".into(), src, name: String::new(),
        checks: checks.into_iter().map(|(s, e, q)| (s.to_string(), e, q)).collect(),
        guards: vec![], vars, pool, pick, flat: None, any_diag: false, bmap1: family == "bmap", alts: vec![], files: vec![], post: vec![], files_first: false, dev: false, wx: false,
    }
}

fn relabel(e: &mut E, n: &mut usize) {
    match e {
        E::Id(name) => { if name == "_" { *name = ((b'a' + *n as u8) as char).to_string(); *n += 1; } }
        E::Un(_, x) => relabel(x, n),
        E::Bin(_, l, r) => { relabel(l, n); relabel(r, n) }
        E::Cond(c, t, f) => { relabel(c, n); relabel(t, n); relabel(f, n) }
        _ => {}
    }
}
fn depth1() -> Vec<E> {
    let mut v: Vec<E> = UNARY.iter().map(|op| un(op, id("_"))).collect();
    v.extend(BINARY.iter().map(|op| bin(op, id("_"), id("_"))));
    v.push(cond(id("_"), id("_"), id("_")));
    v
}
fn op_trees() -> Vec<E> {
    let mut out = depth1();
    for inner in depth1() {
        for op in UNARY { out.push(un(op, inner.clone())); }
        for op in BINARY { out.push(bin(op, inner.clone(), id("_"))); out.push(bin(op, id("_"), inner.clone())); }
        out.push(cond(inner.clone(), id("_"), id("_")));
        out.push(cond(id("_"), inner.clone(), id("_")));
        out.push(cond(id("_"), id("_"), inner.clone()));
    }
    for e in out.iter_mut() { relabel(e, &mut 0); }
    out
}
fn family_ops(out: &mut Vec<Case>) {
    for (i, e) in op_trees().iter().enumerate() {
        let mut vars = vec![];
        vars_of(e, &mut vars);
        let (pool, pick, lcg) = pool_for(vars.len());
        let pick = if lcg == 1 { Pick::Lcg(600, 0x9e37 + i as u32) } else { pick };
        for full in [false, true] {
            let s = src(e, full);
            let mut c = ev("ops", format!("<div {}/>", attr("v", &s)), vec![("r:v", refjs(e, &[]), false)], vars.clone(), pool.clone(), pick.clone());
            c.flat = Some(s);
            out.push(Case::Eval(c));
        }
    }
}
fn family_pos(out: &mut Vec<Case>) {
    let mut trees = depth1();
    trees.push(cond(id("_"), id("_"), cond(id("_"), id("_"), id("_"))));
    trees.push(bin("??", bin("??", id("_"), id("_")), id("_")));
    trees.push(bin("??", id("_"), cond(id("_"), id("_"), id("_"))));
    trees.push(bin("||", id("_"), bin("&&", id("_"), id("_"))));
    trees.push(un("!", bin("??", id("_"), id("_"))));
    for e in trees.iter_mut() { relabel(e, &mut 0); }
    for (i, e) in trees.iter().enumerate() {
        let mut vars = vec![];
        vars_of(e, &mut vars);
        let (pool, pick, lcg) = pool_for(vars.len());
        let pick = if lcg == 1 { Pick::Lcg(600, 0x51ed + i as u32) } else { pick };
        let s = src(e, false);
        let r = refjs(e, &[]);
        let wxif = false;
        let tpl = format!(
            "<div {} w=\"p{{{{ {} }}}}q\" {} {} {} {} {}>{{{{ {} }}}}</div>x{{{{ {} }}}}y{}",
            attr("v", &s), s, attr("data-k", &s), attr("mark:k", &s), attr("class", &s), attr("style", &s), attr("id", &s), s, s,
            if wxif { String::new() } else { format!("<i {}>T</i><i wx:else>F</i>", attr("wx:if", &s)) }
        );
        let texts = if wxif { format!("[$str({r}), 'x' + $str({r}) + 'y']", r = r) } else { format!("[$str({r}), 'x' + $str({r}) + 'y', ({r}) ? 'T' : 'F']", r = r) };
        let checks = vec![
            ("r:v", r.clone(), false), ("r:w", format!("'p' + $str({}) + 'q'", r), false), ("d:k", r.clone(), false), ("m:k", r.clone(), false),
            ("c", r.clone(), false), ("y", r.clone(), false), ("i", r.clone(), false), ("t", texts, true),
        ];
        out.push(Case::Eval(ev("pos", tpl, checks, vars.clone(), pool.clone(), pick.clone())));
        // C07: the same positions without the wx:if user (a field read by a structural attribute has no binding-map
        // entry at all); here every field keeps its entry, and the single-field phase of the harness applies
        let tpl = format!(
            "<div {} w=\"p{{{{ {} }}}}q\" {} {} {} {} {} {} {}>{{{{ {} }}}}</div>x{{{{ {} }}}}y",
            attr("v", &s), s, attr("data-k", &s), attr("mark:k", &s), attr("class", &s), attr("style", &s), attr("id", &s), attr("bind:tap", &s), attr("capture-catch:x", &s), s, s
        );
        // vl:<event> = the listeners attached for the event after all calls so far (a dynamic handler REPLACES its predecessor)
        let checks = vec![
            ("r:v", r.clone(), false), ("r:w", format!("'p' + $str({}) + 'q'", r), false), ("d:k", r.clone(), false), ("m:k", r.clone(), false),
            ("c", r.clone(), false), ("y", r.clone(), false), ("i", r.clone(), false), ("t", format!("[$str({r}), 'x' + $str({r}) + 'y']", r = r), true),
            ("vl:tap", format!("[{}]", r), false), ("vl:x", format!("[{}]", r), false),
        ];
        out.push(Case::Eval(ev("bmap", tpl, checks, vars, pool, pick)));
    }
}
const NUMBERS: &[&str] = &[
    "0", "7", "10", "007", "010", "0777", "08", "09", "089", "0.5", ".5", "5.", "1.50", "08.5", "09e1", "1e3", "1e-3", "1.5e3", "1.e2", "0e0", "0.1", "0.30000000000000004", "4.35",
    "1e-7", "0.000001", "123456789.123456789", "0x0", "0xff", "0xFF", "0xaBcDeF", "0x1fffffffffffff", "0x20000000000001", "0x7fffffffffffffff", "0x8000000000000000",
    "0xffffffffffffffff", "0x10000000000000000", "0xfffffffffffffffffffffffff", "0x0000000000000000ff", "9007199254740992", "9007199254740993", "9223372036854775807", "9223372036854775808",
    "18446744073709551616", "99999999999999999999", "123456789012345678901234567890", "0777777777777777777777", "01000000000000000000000", "0777777777777777777777777", "1e21", "1e22",
    "1e308", "1.7976931348623157e308", "1.7976931348623159e308", "1e309", "1e999", "5e-324", "2e-324", "1e-400", "2.2250738585072014e-308", "0.1e1", "00", "000",
];
const STRINGS: &[&str] = &[
    "''", "'a'", "'a b'", "\"a\"", "\"it's\"", "'say \"hi\"'", "'\\n'", "'\\r\\t\\b\\f\\v'", "'\\0'", "'a\\0b'", "'\\x41'", "'\\x00\\x7f\\xff'", "'\\u4e2d'", "'\\u0041b'", "'\\u2028\\u2029'",
    "'\\\\'", "'\\/'", "'\\a\\q\\-'", "'\\''", "\"\\\"\"", "'\u{2028}'", "'\u{4e2d}\u{1F600}'", "'</script>'", "'<!--'", "'}}'", "'{{'", "'${a}'", "'`'", "'\\\\n'", "'\t'",
];
fn family_num_str(out: &mut Vec<Case>) {
    for (fam, list) in [("num", NUMBERS), ("str", STRINGS)] {
        for l in list {
            let forms: Vec<E> = if fam == "num" {
                vec![lit(l), un("-", lit(l)), bin("+", lit(l), id("a")), bin("*", id("a"), lit(l))]
            } else {
                vec![lit(l), bin("+", lit(l), id("a")), mem(lit(l), "length")]
            };
            for e in forms {
                let mut vars = vec![];
                vars_of(&e, &mut vars);
                let s = src(&e, false);
                let r = refjs(&e, &[]);
                let tpl = format!("<div {}>{{{{ {} }}}}</div>", attr("v", &s), s);
                out.push(Case::Eval(ev(fam, tpl, vec![("r:v", r.clone(), false), ("t", format!("$str({})", r), false)], vars, pool_small(), Pick::All)));
            }
        }
    }
}
fn v(e: E) -> Item { Item::Val(e) }
fn sp(e: E) -> Item { Item::Spread(e) }
fn named(k: &str, e: E) -> Field { Field::Named(k.into(), e) }
fn short(k: &str) -> Field { Field::Short(k.into()) }
fn family_lit(out: &mut Vec<Case>) {
    let (a, b, l, m, o, p) = (id("a"), id("b"), id("l"), id("m"), id("o"), id("p"));
    let trees: Vec<E> = vec![
        arr(vec![]), arr(vec![v(a.clone())]), arr(vec![v(a.clone()), v(b.clone())]), arr(vec![Item::Hole]), arr(vec![Item::Hole, v(a.clone())]),
        E::Arr(vec![v(a.clone())], true), arr(vec![v(a.clone()), Item::Hole]), arr(vec![v(a.clone()), Item::Hole, v(b.clone())]), arr(vec![Item::Hole, Item::Hole]),
        arr(vec![v(a.clone()), Item::Hole, Item::Hole, v(b.clone())]), arr(vec![Item::Hole, v(a.clone()), Item::Hole]),
        arr(vec![sp(l.clone())]), arr(vec![sp(l.clone()), v(a.clone())]), arr(vec![v(a.clone()), sp(l.clone())]), arr(vec![sp(l.clone()), sp(m.clone())]),
        arr(vec![v(a.clone()), sp(l.clone()), Item::Hole, v(b.clone())]), E::Arr(vec![sp(l.clone())], true), arr(vec![Item::Hole, sp(l.clone())]),
        arr(vec![sp(l.clone()), Item::Hole]), arr(vec![v(arr(vec![v(a.clone())])), v(arr(vec![sp(l.clone())]))]), arr(vec![sp(arr(vec![v(a.clone()), v(b.clone())]))]),
        arr(vec![sp(cond(a.clone(), l.clone(), m.clone()))]), arr(vec![v(bin("+", a.clone(), b.clone())), v(cond(a.clone(), b.clone(), l.clone()))]),
        mem(arr(vec![v(a.clone()), Item::Hole, v(b.clone())]), "length"), idx(arr(vec![v(a.clone()), v(b.clone())]), lit("1")), mem(arr(vec![sp(l.clone()), v(a.clone())]), "length"),
        obj(vec![]), obj(vec![short("a")]), obj(vec![short("a"), short("b")]), obj(vec![named("a", lit("1"))]), obj(vec![named("a", b.clone()), short("l")]),
        E::Obj(vec![short("a")], true), E::Obj(vec![named("k", a.clone())], true), obj(vec![Field::Spread(o.clone())]), obj(vec![Field::Spread(o.clone()), short("a")]),
        obj(vec![short("a"), Field::Spread(o.clone())]), obj(vec![Field::Spread(o.clone()), Field::Spread(p.clone())]),
        obj(vec![named("x", lit("1")), Field::Spread(o.clone()), named("x", lit("2"))]), obj(vec![named("y", a.clone()), Field::Spread(o.clone())]),
        obj(vec![named("a", obj(vec![short("b")]))]), obj(vec![named("new", lit("1")), named("class", a.clone()), named("typeof", b.clone()), named("in", lit("2"))]),
        obj(vec![named("a", lit("1")), named("a", lit("2"))]), obj(vec![Field::Spread(cond(a.clone(), o.clone(), p.clone()))]), obj(vec![named("k", arr(vec![sp(l.clone())]))]),
        mem(obj(vec![named("x", a.clone())]), "x"), obj(vec![named("$a", a.clone()), named("_b", b.clone())]), obj(vec![Field::Spread(arr(vec![v(a.clone()), v(b.clone())]))]),
        obj(vec![named("__proto__", o.clone())]), obj(vec![named("constructor", a.clone()), named("toString", b.clone())]),
        // constant fields between, before and after data-dependent ones (the update-path companion object leaves constants out)
        obj(vec![named("a", a.clone()), named("b", lit("1")), named("c", b.clone())]), obj(vec![named("a", lit("1")), named("b", a.clone()), named("c", lit("2")), named("d", b.clone())]),
        obj(vec![named("a", a.clone()), named("b", lit("1")), named("c", lit("'s'")), named("d", b.clone()), named("e", lit("null"))]), obj(vec![named("a", lit("1")), named("b", lit("2")), named("c", a.clone())]),
        obj(vec![named("a", a.clone()), named("b", lit("1")), Field::Spread(o.clone()), named("c", lit("2")), named("d", b.clone())]), obj(vec![named("a", a.clone()), named("b", arr(vec![])), named("c", b.clone())]),
        obj(vec![named("a", a.clone()), named("b", obj(vec![named("k", lit("1"))])), named("c", b.clone())]), arr(vec![v(a.clone()), v(lit("1")), v(b.clone())]), arr(vec![v(lit("1")), v(a.clone()), v(lit("2")), v(lit("3")), v(b.clone())]),
        arr(vec![v(a.clone()), v(lit("1")), sp(l.clone()), v(lit("2")), v(b.clone())]),
    ];
    for e in trees {
        let mut vars = vec![];
        vars_of(&e, &mut vars);
        for full in [false, true] {
            let s = src(&e, full);
            let mut c = ev("lit", format!("<div {}/>", attr("v", &s)), vec![("r:v", refjs(&e, &[]), false)], vars.clone(), pool_lit(), Pick::All);
            if !known_mode() {
                let mut spreads = vec![];
                array_spreads(&e, &mut spreads);
                c.guards = spreads.iter().map(|x| refjs(x, &[])).collect(); // K1
            }
            out.push(Case::Eval(c));
        }
    }
}
fn family_mem(out: &mut Vec<Case>) {
    let (a, o, p, k, f) = (id("a"), id("o"), id("p"), id("k"), id("f"));
    let trees: Vec<E> = vec![
        mem(o.clone(), "x"), mem(mem(o.clone(), "x"), "y"), mem(mem(mem(o.clone(), "x"), "y"), "z"), idx(o.clone(), k.clone()), idx(idx(o.clone(), k.clone()), k.clone()),
        idx(mem(o.clone(), "x"), k.clone()), mem(idx(o.clone(), k.clone()), "y"), idx(o.clone(), lit("0")), idx(o.clone(), bin("+", lit("0"), lit("1"))), mem(o.clone(), "length"),
        idx(o.clone(), lit("'length'")), un("typeof", mem(o.clone(), "toFixed")), un("typeof", mem(o.clone(), "toString")), un("typeof", mem(o.clone(), "constructor")),
        mem(o.clone(), "constructor"), mem(o.clone(), "__proto__"), mem(o.clone(), "new"), mem(o.clone(), "typeof"), mem(mem(o.clone(), "in"), "class"),
        call(f.clone(), vec![]), call(f.clone(), vec![a.clone()]), call(f.clone(), vec![a.clone(), o.clone()]), call(mem(o.clone(), "f"), vec![]), call(mem(o.clone(), "f"), vec![a.clone()]),
        mem(call(mem(o.clone(), "f"), vec![a.clone()]), "length"), idx(call(f.clone(), vec![a.clone()]), lit("1")), call(call(f.clone(), vec![]), vec![]), call(call(f.clone(), vec![]), vec![a.clone()]),
        call(mem(call(f.clone(), vec![]), "x"), vec![a.clone()]), call(idx(o.clone(), k.clone()), vec![a.clone()]), call(mem(o.clone(), "x"), vec![]), call(mem(mem(o.clone(), "x"), "y"), vec![lit("1")]),
        call(lit("1"), vec![]), call(lit("null"), vec![a.clone()]), call(lit("'s'"), vec![]), mem(lit("undefined"), "x"), mem(lit("null"), "x"), idx(lit("null"), a.clone()),
        mem(cond(a.clone(), o.clone(), p.clone()), "x"), mem(bin("||", o.clone(), p.clone()), "x"), mem(bin("??", o.clone(), p.clone()), "y"), mem(bin("+", o.clone(), lit("''")), "length"),
        idx(o.clone(), cond(a.clone(), lit("'x'"), lit("'y'"))), idx(o.clone(), idx(p.clone(), k.clone())), call(f.clone(), vec![cond(a.clone(), o.clone(), p.clone())]),
        call(cond(a.clone(), f.clone(), o.clone()), vec![lit("1")]), un("-", mem(o.clone(), "y")), un("!", mem(o.clone(), "x")), bin("+", mem(o.clone(), "y"), mem(o.clone(), "length")),
        bin("===", mem(o.clone(), "x"), mem(p.clone(), "x")), mem(lit("'abc'"), "length"), idx(lit("'abc'"), lit("1")), un("typeof", mem(lit("1.5"), "toFixed")), un("typeof", mem(lit("1"), "toFixed")),
        un("typeof", mem(lit("true"), "valueOf")), mem(mem(arr(vec![v(o.clone())]), "length"), "constructor"), idx(obj(vec![named("x", a.clone())]), k.clone()),
        call(mem(obj(vec![named("g", f.clone())]), "g"), vec![a.clone()]), un("typeof", call(f.clone(), vec![])), un("void", call(f.clone(), vec![])), bin("instanceof", o.clone(), f.clone()),
        mem(mem(f.clone(), "name"), "length"), mem(f.clone(), "length"), mem(f.clone(), "prototype"), cond(mem(o.clone(), "x"), call(f.clone(), vec![lit("1")]), call(f.clone(), vec![lit("2")])),
        // constant string keys: identifier-like, digit-first, keyword, empty, with other characters
        idx(o.clone(), lit("'x'")), idx(o.clone(), lit("'0'")), idx(o.clone(), lit("'1st'")), mem(idx(o.clone(), lit("'2'")), "y"), idx(o.clone(), lit("'9x_$'")), idx(o.clone(), lit("'new'")), idx(o.clone(), lit("''")),
        idx(o.clone(), lit("'a-b'")), idx(o.clone(), lit("'$'")), idx(o.clone(), lit("'_1'")), idx(idx(o.clone(), lit("'x'")), lit("'0'")), call(idx(o.clone(), lit("'f'")), vec![a.clone()]),
    ];
    for e in trees {
        let mut vars = vec![];
        vars_of(&e, &mut vars);
        for full in [false, true] {
            let s = src(&e, full);
            out.push(Case::Eval(ev("mem", format!("<div {}/>", attr("v", &s)), vec![("r:v", refjs(&e, &[]), false)], vars.clone(), pool_mem(), Pick::All)));
        }
    }
    // identifiers that merely START with (or contain) a keyword or word operator, and member names that ARE keywords
    let kw: Vec<E> = vec![
        id("typeof_x"), id("typeofx"), id("typeof$"), id("typeof1"), id("void_0"), id("voidx"), id("instanceof_y"), id("instanceofx"), id("trueish"), id("true_"), id("falsey"), id("false1"),
        id("nullable"), id("null_"), id("undefinedx"), id("undefined_"), id("in_"), id("inx"), id("new_"), id("newx"), id("_typeof"), id("$void"), id("x_true"),
        un("typeof", id("typeof_x")), un("void", id("void_0")), un("!", id("trueish")), bin("+", id("typeof_x"), lit("1")), bin("===", id("nullable"), lit("null")),
        bin("instanceof", id("instanceof_y"), f.clone()), cond(id("true_"), id("false1"), id("null_")), mem(o.clone(), "typeof_x"), mem(o.clone(), "true"), mem(o.clone(), "null"), mem(o.clone(), "void"),
        mem(o.clone(), "instanceof"), idx(o.clone(), id("typeof_x")), call(f.clone(), vec![id("void_0"), id("trueish")]), obj(vec![named("typeof_x", id("typeof_x")), short("trueish"), named("true", id("true_"))]),
        arr(vec![v(id("nullable")), v(id("undefinedx"))]),
    ];
    for e in kw {
        let mut vars = vec![];
        vars_of(&e, &mut vars);
        let n = vars.len();
        let (pool, pick, _) = pool_for(n.max(1));
        for full in [false, true] {
            let s = src(&e, full);
            out.push(Case::Eval(ev("mem", format!("<div {}/>", attr("v", &s)), vec![("r:v", refjs(&e, &[]), false)], vars.clone(), if n > 3 { pool_small() } else { pool.clone() }, if n > 3 { Pick::Lcg(200, 0x77) } else { pick.clone() })));
        }
    }
    // instanceof with a real instance
    let e = bin("instanceof", o.clone(), f.clone());
    let pool = pool_of(&[r#"{"$":"inst"}"#, r#"{"$":"fn","k":"ctor"}"#, OBJ, FN, "null"]);
    out.push(Case::Eval(ev("mem", format!("<div {}/>", attr("v", &src(&e, false))), vec![("r:v", refjs(&e, &[]), false)], vec!["o".into(), "f".into()], pool, Pick::All)));
}
/// wx:if / wx:elif chains whose conditions have `??` / `?:` roots in every branch position (the condition is emitted
/// inside a `c=E1?1:E2?2:E3?3:0` chain, so its own precedence matters)
fn family_wxif(out: &mut Vec<Case>) {
    let p = || id("_");
    let basic = vec![p(), bin("??", p(), p()), cond(p(), p(), p())];
    let extra = vec![
        bin("??", bin("??", p(), p()), p()), bin("??", p(), cond(p(), p(), p())), cond(p(), p(), bin("??", p(), p())), cond(bin("??", p(), p()), p(), p()),
        bin("||", p(), p()), bin("&&", p(), p()), un("!", p()), cond(p(), cond(p(), p(), p()), p()), bin("??", p(), bin("||", p(), p())),
    ];
    let mut chains: Vec<[E; 3]> = vec![];
    for a in &basic { for b in &basic { for c in &basic { chains.push([a.clone(), b.clone(), c.clone()]); } } }
    for x in &extra { for pos in 0..3 { let mut ch = [p(), p(), p()]; ch[pos] = x.clone(); chains.push(ch); } }
    let pool = pool_of(&["0", "1", "\"\"", "\"a\"", "null", r#"{"$":"undefined"}"#, "false"]);
    for (i, ch) in chains.iter().enumerate() {
        let mut ch = ch.clone();
        let mut n = 0;
        for e in ch.iter_mut() { relabel(e, &mut n); }
        let mut vars = vec![];
        for e in ch.iter() { vars_of(e, &mut vars); }
        let r: Vec<String> = ch.iter().map(|e| refjs(e, &[])).collect();
        let want = format!("[{} ? 'A' : {} ? 'B' : {} ? 'C' : 'D']", r[0], r[1], r[2]);
        for tag in ["i", "block"] {
            let tpl = format!("<{t} {}>A</{t}><{t} {}>B</{t}><{t} {}>C</{t}><{t} wx:else>D</{t}>", attr("wx:if", &src(&ch[0], false)), attr("wx:elif", &src(&ch[1], false)), attr("wx:elif", &src(&ch[2], false)), t = tag);
            let pick = if vars.len() <= 4 { Pick::All } else { Pick::Lcg(600, 0x77 + i as u32) };
            out.push(Case::Eval(ev("wxif", tpl, vec![("t", want.clone(), true)], vars.clone(), pool.clone(), pick)));
        }
    }
}
fn family_scope(out: &mut Vec<Case>) {
    let lists = pool_of(&[ARR, "[]", r#"[0,{"$":"-0"},"",null,{"$":"undefined"},{"x":1}]"#, "[[1,2],[3]]", "null", OBJ]);
    let two = |family, src: &str, checks: Vec<(&str, String, bool)>, vars: &[&str], pool: Vec<J>| {
        Case::Eval(ev(family, src.to_string(), checks, vars.iter().map(|s| s.to_string()).collect(), pool, Pick::All))
    };
    // default item / index names, a data field next to them
    let e = arr(vec![v(id("item")), v(id("index")), v(bin("+", id("item"), id("a"))), v(mem(id("item"), "x")), v(bin("===", idx(id("l"), id("index")), id("item")))]);
    let r = format!("$each($d[\"l\"], ($it,$ix) => {})", refjs(&e, &[("item", "$it"), ("index", "$ix")]));
    out.push(two("scope", &format!("<block wx:for=\"{{{{ l }}}}\"><div {}/></block>", attr("v", &src(&e, false))), vec![("r:v", r, true)], &["l", "a"], lists.clone()));
    // renamed, shadowing the data fields `a` and `l`
    let e = arr(vec![v(id("a")), v(id("l")), v(id("item")), v(id("index"))]);
    let r = format!("$each($d[\"l\"], ($it,$ix) => {})", refjs(&e, &[("a", "$it"), ("l", "$ix")]));
    out.push(two("scope", &format!("<block wx:for=\"{{{{ l }}}}\" wx:for-item=\"a\" wx:for-index=\"l\"><div {}/></block><p {}/>", attr("v", &src(&e, false)), attr("u", "a")),
        vec![("r:v", r, true), ("r:u", "$d[\"a\"]".into(), false)], &["l", "a", "item", "index"][..2], lists.clone()));
    // nested loops: the inner item shadows the outer one, the outer index stays visible
    let e = arr(vec![v(id("a")), v(id("i")), v(id("index")), v(id("b"))]);
    let inner = refjs(&e, &[("index", "$ox"), ("a", "$ii"), ("i", "$ix")]);
    let r = format!("[].concat(...$each($d[\"l\"], ($oi,$ox) => $each($oi, ($ii,$ix) => {})))", inner);
    out.push(two("scope", &format!("<block wx:for=\"{{{{ l }}}}\" wx:for-item=\"a\"><block wx:for=\"{{{{ a }}}}\" wx:for-item=\"a\" wx:for-index=\"i\"><div {}/></block></block>", attr("v", &src(&e, false))),
        vec![("r:v", r, true)], &["l", "b"], lists.clone()));
    // text position inside a loop, and a wx:if on the item
    let r = "$each($d[\"l\"], ($it,$ix) => $str($ix) + ':' + $str($it)).concat($each($d[\"l\"], ($it,$ix) => $it ? 'T' : 'F'))".to_string();
    out.push(two("scope", "<block wx:for=\"{{ l }}\">{{ index }}:{{ item }}</block><block wx:for=\"{{ l }}\"><block wx:if=\"{{ item }}\">T</block><block wx:else>F</block></block>",
        vec![("t", r, true)], &["l"], lists.clone()));
    // inline script module: plain-function call, module shadows a data field of the same name
    let wxs = "<wxs module=\"m\">exports.f = function (x) { 'use strict'; return [this === undefined, x] }; exports.k = 5; exports.o = { g: function () { 'use strict'; return this === undefined } }</wxs>";
    for (e, r) in [
        (call(mem(id("m"), "f"), vec![id("a")]), "[true, $d[\"a\"]]"),
        (bin("+", mem(id("m"), "k"), id("a")), "5 + $d[\"a\"]"),
        (call(mem(mem(id("m"), "o"), "g"), vec![]), "true"),
        (mem(mem(id("m"), "nope"), "x"), "undefined"),
        (call(mem(id("m"), "k"), vec![]), "undefined"),
    ] {
        out.push(two("scope", &format!("{}<div {}/>", wxs, attr("v", &src(&e, false))), vec![("r:v", r.to_string(), false)], &["a", "m"], pool_small()));
    }
    // template data: named fields, shorthand, spread
    let e = arr(vec![v(id("p")), v(id("q")), v(id("a"))]);
    for (data, r) in [
        ("p: a, q", "[$d[\"a\"], $d[\"q\"], undefined]"),
        ("...o, p: a", "[$d[\"a\"], $get($d[\"o\"], \"q\"), $get($d[\"o\"], \"a\")]"),
        ("p: a ? q : o, q: o.q", "[$d[\"a\"] ? $d[\"q\"] : $d[\"o\"], $get($d[\"o\"], \"q\"), undefined]"),
    ] {
        let pool = pool_of(&["0", "\"s\"", r#"{"$":"undefined"}"#, "null", r#"{"q":1,"a":2,"p":3}"#]);
        out.push(two("scope", &format!("<template name=\"t\"><div {}/></template><template is=\"t\" data=\"{{{{ {} }}}}\"/>", attr("v", &src(&e, false)), data),
            vec![("r:v", r.to_string(), false)], &["a", "q", "o"], pool));
    }
}
/// impure callees and throwing operators under short-circuit (KNOWN K2; only with VX_JSEVAL_KNOWN=1)
fn family_hoist(out: &mut Vec<Case>) {
    let c = || call(id("c"), vec![]);
    let trees = vec![
        bin("+", c(), cond(c(), lit("10"), lit("20"))),
        arr(vec![v(bin("&&", id("a"), cond(c(), lit("1"), lit("2")))), v(c())]),
        arr(vec![v(bin("||", id("a"), bin("??", c(), lit("1")))), v(c())]),
        arr(vec![v(bin("&&", id("a"), idx(id("o"), c()))), v(c())]),
        bin("&&", id("a"), cond(bin("instanceof", id("a"), id("o")), lit("1"), lit("2"))),
        cond(id("a"), lit("1"), bin("??", bin("instanceof", id("a"), id("o")), lit("2"))),
    ];
    for e in trees {
        let mut vars = vec![];
        vars_of(&e, &mut vars);
        let pools: Vec<J> = pool_of(&[r#"{"$":"fn","k":"count"}"#, "0", "1", OBJ]);
        out.push(Case::Eval(ev("hoist", format!("<div {}/>", attr("v", &src(&e, false))), vec![("r:v", refjs(&e, &[]), false)], vars, pools, Pick::All)));
    }
}


// ------------------------------------------------------------------------------------------------ C05: lexical scopes
/// A template shape.  `El`: an element or `<block>` with an optional wx:for (list, item name, index name; None = default
/// names), `slot:` value refs (key, alias) and children.  `Probe` = `<p v="{{ FORM }}"/>`, `SlotProbe` =
/// `<slot v="{{ FORM }}"/>`, `If` = `<block wx:if="{{ $t }}">A</block><block wx:else>B</block>` ($t is true),
/// `Call` = `<template is="t" data="{{ k: e, .. }}"/>`.
#[derive(Clone)]
enum Nd {
    El { tag: &'static str, f: Option<(E, Option<&'static str>, Option<&'static str>)>, slots: Vec<(&'static str, Option<&'static str>)>, own: bool, kids: Vec<Nd> },
    Probe,
    SlotProbe,
    If(Vec<Nd>, Vec<Nd>),
    /// the condition is false: the else branch renders
    Else(Vec<Nd>, Vec<Nd>, Vec<Nd>),
    Call(&'static str, Vec<(&'static str, E)>),
}
struct Shape {
    label: &'static str,
    modules: Vec<&'static str>,
    templates: Vec<(&'static str, Vec<Nd>)>,
    body: Vec<Nd>,
    /// the identifiers placed into every probe (every one at every position of the form)
    names: Vec<&'static str>,
    /// data fields other than "data:<name>" for every name (tagged encodings)
    data: Vec<(&'static str, &'static str)>,
}
const P: Nd = Nd::Probe;
fn el(tag: &'static str, kids: Vec<Nd>) -> Nd { Nd::El { tag, f: None, slots: vec![], own: false, kids } }
fn blk(kids: Vec<Nd>) -> Nd { el("block", kids) }
fn wfor(n: Nd, list: E, item: Option<&'static str>, index: Option<&'static str>) -> Nd {
    if let Nd::El { tag, slots, own, kids, .. } = n { Nd::El { tag, f: Some((list, item, index)), slots, own, kids } } else { n }
}
fn wslots(n: Nd, s: Vec<(&'static str, Option<&'static str>)>) -> Nd {
    if let Nd::El { tag, f, own, kids, .. } = n { Nd::El { tag, f, slots: s, own, kids } } else { n }
}
fn wown(n: Nd) -> Nd { if let Nd::El { tag, f, slots, kids, .. } = n { Nd::El { tag, f, slots, own: true, kids } } else { n } }

const FORMS: usize = 28;
/// expression form number `i` with the identifiers x and y in its positions
fn form(i: usize, x: &str, y: &str) -> E {
    let (x, y, xs, ys) = (id(x), id(y), x, y);
    let f = |a: Vec<E>| call(id("$f"), a);
    match i {
        0 => x,
        1 => arr(vec![v(x), v(y)]),
        2 => arr(vec![Item::Hole, v(x)]),
        3 => arr(vec![Item::Hole, Item::Hole, v(x)]),
        4 => arr(vec![v(x), Item::Hole, Item::Hole, v(y)]),
        5 => arr(vec![sp(arr(vec![v(x)])), v(y)]),
        6 => arr(vec![sp(arr(vec![v(y), v(x)]))]),
        7 => obj(vec![named("k", x), named("j", y)]),
        8 => obj(vec![short(xs), short(ys)]),
        9 => obj(vec![Field::Spread(obj(vec![named("k", x)])), named("j", y)]),
        10 => f(vec![x]),
        11 => f(vec![y, x]),
        12 => f(vec![f(vec![x]), y]),
        13 => idx(id("$o"), x),
        14 => arr(vec![v(mem(x, "v")), v(mem(y, "v"))]),
        15 => cond(id("$t"), x, y),
        16 => cond(id("$z"), y, x),
        17 => cond(x, y, id("$z")),
        18 => bin("??", id("$n"), x),
        19 => bin("??", x, y),
        20 => bin("+", bin("+", x, lit("'|'")), y),
        21 => arr(vec![v(un("typeof", x)), v(un("!", y))]),
        22 => arr(vec![v(arr(vec![v(x)])), v(arr(vec![v(arr(vec![v(y)]))]))]),
        23 => obj(vec![named("k", arr(vec![Item::Hole, v(x)])), named("j", obj(vec![named("i", y)]))]),
        24 => f(vec![arr(vec![v(x.clone()), Item::Hole, v(y)]), obj(vec![named("k", x)])]),
        25 => bin("===", x, y),
        26 => arr(vec![v(bin("&&", x.clone(), y.clone())), v(bin("||", x, y))]),
        _ => arr(vec![v(idx(x, y))]),
    }
}
fn probe_expr(i: usize, names: &[&str]) -> E {
    arr((0..names.len()).map(|k| v(form(i, names[k], names[(k + 1) % names.len()]))).collect())
}
fn shape_src(nodes: &[Nd], pe: &str) -> String {
    let mut s = String::new();
    for n in nodes {
        match n {
            Nd::Probe => s += &format!("<p {} {} {}/>", attr("v", pe), attr("mark:k", pe), attr("data-k", pe)),
            Nd::SlotProbe => s += &format!("<slot {}/>", attr("v", pe)),
            Nd::If(a, b) => s += &format!("<block wx:if=\"{{{{ $t }}}}\">{}</block><block wx:else>{}</block>", shape_src(a, pe), shape_src(b, pe)),
            Nd::Else(a, b, c) => s += &format!("<block wx:if=\"{{{{ $z }}}}\">{}</block><block wx:elif=\"{{{{ $n }}}}\">{}</block><block wx:else>{}</block>", shape_src(a, pe), shape_src(b, pe), shape_src(c, pe)),
            Nd::Call(name, data) => s += &format!("<template is=\"{}\" data=\"{{{{ {} }}}}\"/>", name, data.iter().map(|(k, e)| format!("{}: {}", k, src(e, false))).collect::<Vec<_>>().join(", ")),
            Nd::El { tag, f, slots, own, kids } => {
                s += &format!("<{}", tag);
                if let Some((list, item, index)) = f {
                    s += &format!(" {}", attr("wx:for", &src(list, false)));
                    if let Some(x) = item { s += &format!(" wx:for-item=\"{}\"", x); }
                    if let Some(x) = index { s += &format!(" wx:for-index=\"{}\"", x); }
                }
                for (k, a) in slots { match a { Some(a) => s += &format!(" slot:{}=\"{}\"", k, a), None => s += &format!(" slot:{}", k) } }
                if *own { s += &format!(" {} {} {}", attr("v", pe), attr("mark:k", pe), attr("data-k", pe)); }
                s += &format!(">{}</{}>", shape_src(kids, pe), tag);
            }
        }
    }
    s
}
/// REFERENCE RESOLVER (from the property text): walks the shape with a stack of (name, JavaScript text of the value the
/// name denotes); an identifier denotes the innermost entry of its name, else the data field (refjs).  Returns a
/// JavaScript expression for the array of values the probes of kind `sel` deliver, in document order.
fn shape_ref(sh: &Shape, nodes: &[Nd], sc: &Vec<(String, String)>, ptag: Option<&str>, ctr: &mut usize, sel: char, pe: &E) -> String {
    let rj = |e: &E, sc: &Vec<(String, String)>| -> String { let v: Vec<(&str, &str)> = sc.iter().map(|(a, b)| (a.as_str(), b.as_str())).collect(); refjs(e, &v) };
    let mut parts: Vec<String> = vec![];
    for n in nodes {
        match n {
            Nd::Probe => if sel == 'p' { parts.push(format!("[{}]", rj(pe, sc))) },
            Nd::SlotProbe => if sel == 's' { parts.push(format!("[{}]", rj(pe, sc))) },
            Nd::If(a, _) => parts.push(shape_ref(sh, a, sc, ptag, ctr, sel, pe)),
            Nd::Else(_, _, c) => parts.push(shape_ref(sh, c, sc, ptag, ctr, sel, pe)),
            Nd::Call(name, data) => {
                // a <template name> body sees only the script modules; everything else is a field of the data it was given
                let dataobj = format!("({{{}}})", data.iter().map(|(k, e)| format!("{}: {}", quote(k), rj(e, sc))).collect::<Vec<_>>().join(","));
                let mut sc2: Vec<(String, String)> = vec![("*".into(), dataobj)];
                for m in &sh.modules { sc2.push((m.to_string(), format!("({{\"v\":\"mod:{}\"}})", m))); }
                let body = &sh.templates.iter().find(|(n, _)| n == name).expect("template").1;
                parts.push(shape_ref(sh, body, &sc2, None, ctr, sel, pe));
            }
            Nd::El { tag, f, slots, own, kids } => {
                let mut sc2 = sc.clone();
                let mut wrap: Option<(String, usize)> = None;
                if let Some((list, item, index)) = f {
                    // the list expression does not see the variables it introduces; `index` is introduced after `item`
                    let list_js = rj(list, sc);
                    *ctr += 1;
                    sc2.push((item.unwrap_or("item").to_string(), format!("$it{}", *ctr)));
                    sc2.push((index.unwrap_or("index").to_string(), format!("$ix{}", *ctr)));
                    wrap = Some((list_js, *ctr));
                }
                let mut inner = vec![];
                // for variables are visible in the element's own attributes; slot values only in its children
                if *own && sel == 'p' { inner.push(format!("[{}]", rj(pe, &sc2))); }
                let mut seen: Vec<&str> = vec![];
                for (k, a) in slots {
                    if seen.contains(k) { continue; } // a repeated slot:key is rejected as a duplicated attribute
                    seen.push(k);
                    // the slot values of the slot this element sits in = what the enclosing element hands to its children
                    sc2.push((a.unwrap_or(k).to_string(), match ptag { Some(t) => quote(&format!("{}:{}", t, k)), None => "undefined".into() }));
                }
                inner.push(shape_ref(sh, kids, &sc2, if *tag == "block" { ptag } else { Some(tag) }, ctr, sel, pe));
                let body = format!("[].concat({})", inner.join(","));
                parts.push(match wrap { Some((l, n)) => format!("[].concat(...$each({}, ($it{n},$ix{n}) => {}))", l, body, n = n), None => body });
            }
        }
    }
    format!("[].concat({})", parts.join(","))
}
fn shapes() -> Vec<Shape> {
    let l0 = || id("l0");
    let l1 = || id("l1");
    let sh = |label, modules: Vec<&'static str>, templates, body, names, data| Shape { label, modules, templates, body, names, data };
    vec![
        sh("for-default", vec![], vec![], vec![wfor(blk(vec![P]), l0(), None, None), P], vec!["item", "index", "a"], vec![]),
        sh("for-renamed", vec![], vec![], vec![wfor(blk(vec![P]), l0(), Some("a"), Some("b")), P], vec!["a", "b", "item", "index"], vec![]),
        sh("for-on-element", vec![], vec![], vec![wown(wfor(el("e1", vec![P]), l0(), None, Some("i"))), wown(el("e2", vec![]))], vec!["item", "index", "i"], vec![]),
        sh("for-nested-default", vec![], vec![], vec![wfor(blk(vec![wfor(blk(vec![P]), id("item"), None, None), P]), l1(), None, None), P], vec!["item", "index"], vec![]),
        sh("for-item-named-like-outer-index", vec![], vec![], vec![wfor(blk(vec![wfor(blk(vec![P]), id("x"), Some("i"), Some("j")), P]), l1(), Some("x"), Some("i")), P], vec!["x", "i", "j", "item", "index"], vec![]),
        sh("for-item-equals-index", vec![], vec![], vec![wfor(blk(vec![P]), l0(), Some("x"), Some("x")), P], vec!["x", "item"], vec![]),
        sh("for-list-does-not-see-own-vars", vec![], vec![], vec![wfor(blk(vec![P, wfor(blk(vec![P]), id("a"), Some("a"), Some("item"))]), id("item"), Some("a"), None)], vec!["item", "a", "index"], vec![("item", "[[7,8],[9]]")]),
        sh("for-4-deep", vec![], vec![], vec![wfor(el("e1", vec![wfor(blk(vec![wfor(el("e2", vec![wfor(blk(vec![P]), id("l0"), Some("index"), Some("item")), P]), id("l0"), None, None), P]), id("item"), Some("b"), None), P]), l1(), None, None), P], vec!["item", "index", "b"], vec![]),
        sh("for-if-branches", vec![], vec![], vec![wfor(blk(vec![Nd::If(vec![P, wfor(blk(vec![P]), l0(), Some("q"), None)], vec![P]), P]), l0(), None, None), Nd::If(vec![P], vec![])], vec!["item", "index", "q"], vec![]),
        sh("for-siblings-no-leak", vec![], vec![], vec![wfor(blk(vec![P]), l0(), Some("a"), Some("b")), P, wfor(blk(vec![P]), l0(), Some("c"), None), P, el("e1", vec![wfor(blk(vec![]), l0(), Some("z"), None), P])], vec!["a", "b", "c", "z", "item", "index"], vec![]),
        sh("slot-basic", vec![], vec![], vec![el("e1", vec![wslots(el("e2", vec![P]), vec![("a", None)]), P]), P], vec!["a", "b"], vec![]),
        sh("slot-top-level", vec![], vec![], vec![wslots(el("e1", vec![P]), vec![("a", None), ("b", Some("c"))]), P], vec!["a", "b", "c"], vec![]),
        sh("slot-alias-swap", vec![], vec![], vec![el("e1", vec![wslots(el("e2", vec![P]), vec![("a", Some("b")), ("b", Some("a"))]), P])], vec!["a", "b"], vec![]),
        sh("slot-on-block", vec![], vec![], vec![el("e1", vec![wslots(blk(vec![P, wslots(blk(vec![P]), vec![("a", Some("c"))])]), vec![("a", None), ("b", None)]), P])], vec!["a", "b", "c"], vec![]),
        sh("slot-nested", vec![], vec![], vec![el("e1", vec![wslots(el("e2", vec![wslots(el("e3", vec![P, wslots(el("e4", vec![P]), vec![("c", Some("a"))])]), vec![("a", Some("b")), ("c", None)]), P]), vec![("a", None)]), P])], vec!["a", "b", "c"], vec![]),
        sh("slot-alias-shadows-for", vec![], vec![], vec![el("e1", vec![wfor(blk(vec![wslots(el("e2", vec![P]), vec![("k", Some("item")), ("a", Some("index"))]), P]), l0(), None, None)])], vec!["item", "index", "k", "a"], vec![]),
        sh("for-shadows-slot", vec![], vec![], vec![el("e1", vec![wslots(el("e2", vec![wfor(blk(vec![P]), l0(), Some("a"), Some("b")), P]), vec![("a", None), ("b", Some("c"))])])], vec!["a", "b", "c"], vec![]),
        sh("slot-duplicate-key", vec![], vec![], vec![el("e1", vec![wslots(el("e2", vec![P]), vec![("a", Some("x")), ("a", Some("y"))]), P])], vec!["a", "x", "y"], vec![]),
        sh("slot-alias-is-other-key-then-for", vec![], vec![], vec![el("e1", vec![wslots(el("e2", vec![wfor(blk(vec![P]), l0(), None, None), P]), vec![("a", Some("b")), ("b", Some("a"))])])], vec!["a", "b", "item", "index"], vec![]),
        sh("slot-alias-is-sibling-key", vec![], vec![], vec![el("e1", vec![wslots(el("e2", vec![P]), vec![("a", Some("x"))]), wslots(el("e3", vec![P, wfor(blk(vec![P]), l0(), None, None)]), vec![("b", Some("a"))]), P])], vec!["a", "b", "x", "item"], vec![]),
        sh("slot-siblings-no-leak", vec![], vec![], vec![el("e1", vec![wslots(el("e2", vec![P]), vec![("a", None)]), el("e3", vec![P]), wslots(blk(vec![]), vec![("b", None)]), P]), wfor(blk(vec![P]), l0(), None, None), P], vec!["a", "b", "item", "index"], vec![]),
        sh("slot-then-for-after-parent", vec![], vec![], vec![el("e1", vec![el("e2", vec![wslots(el("e3", vec![]), vec![("a", None), ("c", Some("d"))])])]), wfor(blk(vec![P, wfor(blk(vec![P]), l0(), Some("q"), None)]), l0(), None, None), P], vec!["a", "d", "item", "index", "q"], vec![]),
        sh("slot-under-else", vec![], vec![], vec![el("e1", vec![Nd::Else(vec![el("e4", vec![P])], vec![wslots(el("e5", vec![P]), vec![("b", None)])], vec![wslots(el("e2", vec![P, wfor(blk(vec![P]), l0(), None, None)]), vec![("a", None)])]), P])], vec!["item", "index", "a", "b"], vec![]),
        sh("for-under-else", vec![], vec![], vec![wfor(blk(vec![Nd::Else(vec![P], vec![P], vec![P, wfor(blk(vec![P]), l0(), Some("q"), Some("r"))]), P]), l0(), None, None)], vec!["item", "index", "q", "r"], vec![]),
        sh("slot-under-if-and-for", vec![], vec![], vec![el("e1", vec![Nd::If(vec![wslots(el("e2", vec![P]), vec![("a", None)])], vec![]), wfor(blk(vec![wslots(el("e3", vec![P]), vec![("item", Some("index")), ("a", None)])]), l0(), None, None), P])], vec!["item", "index", "a"], vec![]),
        sh("slot-probe-in-for", vec![], vec![], vec![wfor(blk(vec![Nd::SlotProbe, el("e1", vec![wslots(blk(vec![Nd::SlotProbe]), vec![("a", None)])])]), l0(), None, None), Nd::SlotProbe], vec!["item", "index", "a"], vec![]),
        sh("modules", vec!["m", "item", "a"], vec![], vec![P, wfor(blk(vec![P]), l0(), None, None), wfor(blk(vec![P]), l0(), Some("m"), Some("a")), el("e1", vec![wslots(el("e2", vec![P]), vec![("a", None), ("k", Some("m"))])]), P], vec!["m", "item", "index", "a"], vec![]),
        sh("template-body-sees-only-modules", vec!["m"], vec![("t", vec![P, wfor(blk(vec![P]), id("q"), None, None)])],
            vec![wfor(blk(vec![el("e1", vec![wslots(el("e2", vec![Nd::Call("t", vec![("a", id("index")), ("q", arr(vec![v(id("b"))]))]), P]), vec![("b", None)])])]), l0(), Some("a"), None), Nd::Call("t", vec![("m", lit("1")), ("item", lit("2"))]), P],
            vec!["a", "b", "q", "m", "item", "index"], vec![]),
        sh("template-body-with-own-scopes", vec!["m"], vec![("t", vec![wfor(blk(vec![P]), l0(), Some("a"), None), P]), ("u", vec![Nd::Call("t", vec![("l0", id("x")), ("a", id("a"))]), P])],
            vec![wfor(blk(vec![Nd::Call("u", vec![("x", arr(vec![v(id("item")), v(id("a"))])), ("a", id("index"))])]), l0(), None, None)], vec!["a", "x", "item", "index", "l0"], vec![]),
    ]
}
fn family_c05(out: &mut Vec<Case>) {
    for sh in shapes() {
        for fi in 0..FORMS {
            let pe = probe_expr(fi, &sh.names);
            let pes = src(&pe, false);
            let mut tpl = String::new();
            for m in &sh.modules { tpl += &format!("<wxs module=\"{m}\">exports.v = \"mod:{m}\"</wxs>", m = m); }
            for (n, body) in &sh.templates { tpl += &format!("<template name=\"{}\">{}</template>", n, shape_src(body, &pes)); }
            tpl += &shape_src(&sh.body, &pes);
            let mut sc: Vec<(String, String)> = vec![];
            for m in &sh.modules { sc.push((m.to_string(), format!("({{\"v\":\"mod:{}\"}})", m))); }
            let rp = shape_ref(&sh, &sh.body, &sc, None, &mut 0, 'p', &pe);
            let rs = shape_ref(&sh, &sh.body, &sc, None, &mut 0, 's', &pe);
            // data: every name under test (and every module name) is ALSO a data field with a recognisable value
            let mut vars: Vec<String> = vec![];
            let mut pool: Vec<J> = vec![];
            let mut put = |k: &str, enc: J| { if !vars.iter().any(|x| x == k) { vars.push(k.to_string()); pool.push(enc); } };
            for (k, enc) in &sh.data { put(k, parse_json(enc).expect("shape data")); }
            for k in sh.names.iter().chain(sh.modules.iter()) { put(k, js(&format!("data:{}", k))); }
            for (k, enc) in [("l0", "[10,20]"), ("l1", "[[1,2],[3]]"), ("$t", "true"), ("$z", "0"), ("$n", "null"), ("$f", FN), ("$o", r#"{"$":"echo"}"#)] { put(k, parse_json(enc).unwrap()); }
            let n = vars.len();
            let mut c = ev("c05", tpl, vec![("r:v", rp.clone(), true), ("m:k", rp.clone(), true), ("d:k", rp, true), ("l:v", rs, true)], vars, pool, Pick::Tuples(vec![(0..n).collect()]));
            c.path = format!("c05/{}/{}", sh.label, fi);
            out.push(Case::Eval(c));
        }
    }
}


// ------------------------------------------------------------------------------------------------ C12: static strings
/// JavaScript string literal of `s`, written independently of the compiler's escaping: everything but ASCII letters and
/// digits is a \uXXXX escape of its UTF-16 units
fn jsstr(s: &str) -> String {
    let mut o = String::from("\"");
    for u in s.encode_utf16() { if u < 128 && (u as u8 as char).is_ascii_alphanumeric() { o.push(u as u8 as char) } else { o += &format!("\\u{:04x}", u) } }
    o + "\""
}
const ENTITY_TABLE: &[(&str, &str)] = &[
    ("amp", "&"), ("lt", "<"), ("gt", ">"), ("quot", "\""), ("apos", "'"), ("nbsp", "\u{a0}"), ("copy", "\u{a9}"), ("reg", "\u{ae}"), ("yen", "\u{a5}"), ("euro", "\u{20ac}"),
    ("hellip", "\u{2026}"), ("mdash", "\u{2014}"), ("times", "\u{d7}"), ("alpha", "\u{3b1}"), ("Omega", "\u{3a9}"), ("AMP", "&"), ("LT", "<"), ("frac12", "\u{bd}"), ("sup2", "\u{b2}"),
    ("frac14", "\u{bc}"), ("frac34", "\u{be}"), ("sup1", "\u{b9}"), ("sup3", "\u{b3}"), ("there4", "\u{2234}"), ("blk12", "\u{2592}"), ("blk14", "\u{2591}"), ("frac78", "\u{215e}"),
    // names that denote TWO code points
    ("fjlig", "fj"), ("bne", "=\u{20e5}"), ("NotEqualTilde", "\u{2242}\u{338}"), ("nvlt", "<\u{20d2}"), ("ThickSpace", "\u{205f}\u{200a}"), ("caps", "\u{2229}\u{fe00}"), ("acE", "\u{223e}\u{333}"),
];
/// REFERENCE DECODER for static text and static attribute values (from the property text: character references denote
/// their code point, named references their HTML character; anything else stands for itself)
fn ref_decode(s: &str) -> String {
    let cs: Vec<char> = s.chars().collect();
    let mut o = String::new();
    let mut i = 0;
    while i < cs.len() {
        if cs[i] == '&' {
            if let Some(len) = cs[i + 1..].iter().take(40).position(|c| *c == ';') {
                let body: String = cs[i + 1..i + 1 + len].iter().collect();
                // `&#x..;` with a lowercase x: the reference syntax is the one WXML's scanner defines (see NARROWED, `&#X41;`)
                let dec = if let Some(h) = body.strip_prefix("#x") {
                    if !h.is_empty() && h.chars().all(|c| c.is_ascii_hexdigit()) { u32::from_str_radix(h, 16).ok().and_then(char::from_u32).map(|c| c.to_string()) } else { None }
                } else if let Some(d) = body.strip_prefix('#') {
                    if !d.is_empty() && d.chars().all(|c| c.is_ascii_digit()) { d.parse::<u32>().ok().and_then(char::from_u32).map(|c| c.to_string()) } else { None }
                } else {
                    ENTITY_TABLE.iter().find(|(n, _)| *n == body).map(|(_, c)| c.to_string())
                };
                if let Some(d) = dec { o += &d; i += len + 2; continue; }
            }
        }
        o.push(cs[i]);
        i += 1;
    }
    o
}
/// REFERENCE DECODER for the body of a string literal inside `{{ }}`: \n \r \t \b \f \v \0 \xHH \uHHHH, any other
/// escaped character stands for itself
fn ref_unescape(s: &str) -> String {
    let cs: Vec<char> = s.chars().collect();
    let mut o = String::new();
    let mut i = 0;
    while i < cs.len() {
        if cs[i] == '\\' && i + 1 < cs.len() {
            let c = cs[i + 1];
            i += 2;
            match c {
                'n' => o.push('\n'), 'r' => o.push('\r'), 't' => o.push('\t'), 'b' => o.push('\u{8}'), 'f' => o.push('\u{c}'), 'v' => o.push('\u{b}'), '0' => o.push('\0'),
                'x' | 'u' => {
                    let n = if c == 'x' { 2 } else { 4 };
                    let h: String = cs[i..(i + n).min(cs.len())].iter().collect();
                    o.push(u32::from_str_radix(&h, 16).ok().and_then(char::from_u32).expect("generator: well-formed escape"));
                    i += n;
                }
                x => o.push(x),
            }
        } else { o.push(cs[i]); i += 1; }
    }
    o
}
/// 0 = raw where the context allows it, 1 = decimal character references / \xHH, 2 = hexadecimal references / \uHHHH
fn enc_markup(s: &str, mode: u8, quote_ch: char) -> String {
    let mut o = String::new();
    for c in s.chars() {
        let special = matches!(c, '&' | '<' | '>') || c == quote_ch || (c == '{') || !(c.is_ascii_alphanumeric() || c == '[' || c == ']') && mode > 0;
        if !special { o.push(c); continue; }
        match (mode, c) {
            (0, '&') => o += "&amp;", (0, '<') => o += "&lt;", (0, '>') => o += "&gt;", (0, '"') => o += "&quot;", (0, '\'') => o += "&apos;", (0, '{') => o += "&#123;",
            (1, _) => o += &format!("&#{};", c as u32),
            (_, _) => o += &format!("&#x{:X};", c as u32),
        }
    }
    o
}
fn enc_jslit(s: &str, mode: u8) -> String {
    let mut o = String::from("'");
    for c in s.chars() {
        let code = c as u32;
        let must = matches!(c, '\'' | '"' | '\\' | '\n' | '\r' | '<' | '&' | '{' | '}') ;
        if (mode == 0 && !must) || code > 0xffff || c.is_ascii_alphanumeric() || c == '[' || c == ']' { o.push(c); }
        else if mode == 0 { match c { '\'' => o += "\\'", '\\' => o += "\\\\", '\n' => o += "\\n", '\r' => o += "\\r", _ => o += &format!("\\x{:02x}", code) } }
        else if mode == 1 && code < 0x100 { o += &format!("\\x{:02X}", code) }
        else { o += &format!("\\u{:04x}", code) }
    }
    o + "'"
}
const C12_CHARS: &[char] = &[
    '\u{0}', '\u{1}', '\u{2}', '\u{3}', '\u{4}', '\u{5}', '\u{6}', '\u{7}', '\u{8}', '\u{9}', '\u{a}', '\u{b}', '\u{c}', '\u{d}', '\u{e}', '\u{f}', '\u{10}', '\u{11}', '\u{12}', '\u{13}', '\u{14}', '\u{15}',
    '\u{16}', '\u{17}', '\u{18}', '\u{19}', '\u{1a}', '\u{1b}', '\u{1c}', '\u{1d}', '\u{1e}', '\u{1f}', '\u{7f}', '\u{80}', '\u{85}', '\u{9f}', '\u{a0}', '\u{ad}', '\u{2028}', '\u{2029}', '\u{feff}', '\u{fffd}',
    '\u{ffff}', '\u{10000}', '\u{1F600}', '\u{10ffff}', '"', '\'', '\\', '<', '>', '&', '{', '}', '`', '$', '/', ' ', 'a',
];
const C12_SUCC: &[&str] = &["", "0", "8", "a", "f", "\"", "'", "\\", "{", "}", "x", "u", "n", "</script>", ";"];
fn c12_case(label: String, tpl: String, checks: Vec<(&str, String, bool)>) -> Case {
    let mut c = ev("c12", tpl, checks, vec!["n".into()], pool_of(&[r#"{"$":"undefined"}"#]), Pick::All);
    c.path = label;
    c.any_diag = true;
    Case::Eval(c)
}
fn family_c12(out: &mut Vec<Case>) {
    // (A) every critical character x every critical successor, in every static position, raw / decimal / hex spelling
    for ch in C12_CHARS {
        for su in C12_SUCC {
            if *ch == '{' && su.starts_with('{') { continue; } // `{{` opens a binding
            let s = format!("[{}{}]", ch, su);
            let w = jsstr(&s);
            for mode in 0..3u8 {
                let (dq, sq, tx, jl) = (enc_markup(&s, mode, '"'), enc_markup(&s, mode, '\''), enc_markup(&s, mode, '\0'), enc_jslit(&s, mode));
                let tpl = format!(
                    "<v a=\"{dq}\" b='{sq}' data-k=\"{dq}\" mark:m=\"{dq}\" class=\"{dq}\" id=\"{dq}\" u=\"x{{{{ n }}}}{dq}\">{tx}</v><w v=\"{{{{ {jl} }}}}\">{{{{ {jl} }}}}</w><y>{{{{ n }}}}{tx}</y><z>{{{{ {jl} }}}}{tx}</z><slot name=\"{dq}\"/><i wx:for=\"{{{{ [1] }}}}\" wx:key=\"{dq}\"/><comp generic:g=\"{dq}\" slot=\"{dq}\" bind:tap=\"{dq}\" worklet:w=\"{dq}\" style=\"{dq}\"/>",
                    dq = dq, sq = sq, tx = tx, jl = jl
                );
                let checks = vec![
                    ("r:a", w.clone(), false), ("r:b", w.clone(), false), ("d:k", w.clone(), false), ("m:m", w.clone(), false), ("c", w.clone(), false), ("i", w.clone(), false),
                    ("r:u", format!("\"x\" + {}", w), false), ("r:v", w.clone(), false), ("t", format!("[{w}, {w}, {w}, {w} + {w}]", w = w), true), ("sn", w.clone(), false),
                    ("fk", w.clone(), false), ("gen", format!("({{g: {}}})", w), false), ("slot", w.clone(), false), ("v:tap", w.clone(), false), ("wl:w", w.clone(), false), ("y", w.clone(), false),
                ];
                out.push(c12_case(format!("c12/char/{:x}/{}", *ch as u32, mode), tpl, checks));
            }
        }
    }
    // (B) character reference forms
    for e in ["&amp;", "&lt;", "&gt;", "&quot;", "&apos;", "&nbsp;", "&copy;", "&reg;", "&yen;", "&euro;", "&hellip;", "&mdash;", "&times;", "&alpha;", "&Omega;", "&AMP;", "&LT;", "&#65;", "&#065;", "&#0000065;",
        "&#9;", "&#0;", "&#1;", "&#7;", "&#10;", "&#13;", "&#32;", "&#34;", "&#38;", "&#39;", "&#60;", "&#123;", "&#127;", "&#128;", "&#160;", "&#8232;", "&#65279;", "&#65535;", "&#65536;", "&#128512;", "&#1114111;",
        "&#1114112;", "&#55296;", "&#57343;", "&#4294967296;", "&#99999999999999999999;", "&#x41;", "&#x041;", "&#xa;", "&#xA;", "&#x0;", "&#x7f;", "&#x2028;", "&#x1F600;", "&#x1f600;", "&#x10FFFF;", "&#x110000;",
        "&#xD800;", "&#xDFFF;", "&#xFFFFFFFFF;", "&#;", "&#x;", "&;", "&", "& ", "&&", "&amp", "&amp ;", "&ampx;", "&foo;", "&#65", "&#x41", "&#6 5;", "&#xG;", "&#-1;", "&amp;amp;", "&#38;amp;", "&#38;#38;", "&amp;#65;",
        "a&amp;b", "&lt;script&gt;", "&Amp;", "&amp;&lt;", "&#65;&#66;", "&#x41;&#x42;", "&quot", "&nbsp", "&frac12;", "&sup2;", "&frac14;", "&frac34;", "&sup1;", "&sup3;", "&there4;", "&blk12;", "&blk14;", "&frac78;", "&frac12;2", "&sup2;&sup3;", "&frac12", "&frac1;", "&1;", "&a1b2;",
        "&fjlig;", "&bne;", "&NotEqualTilde;", "&nvlt;", "&ThickSpace;", "&caps;", "&acE;", "x&fjlig;y", "&bne;1"] {
        let want = jsstr(&format!("[{}]", ref_decode(e)));
        let tpl = format!("<v a=\"[{e}]\" b='[{e}]' data-k=\"[{e}]\" u=\"[{e}]{{{{ n }}}}\">[{e}]</v><y>{{{{ n }}}}[{e}]</y>", e = e);
        out.push(c12_case(format!("c12/entity/{}", e), tpl, vec![("r:a", want.clone(), false), ("r:b", want.clone(), false), ("d:k", want.clone(), false), ("r:u", want.clone(), false), ("t", format!("[{w}, {w}]", w = want), true)]));
    }
    // (B2) an unterminated reference directly in front of what ends or continues the text: another reference, a binding, the closing
    //      quote, the next tag
    for stem in ["&a", "&amp", "&Jerry", "&x1", "&1", "&#6", "&#x4", "&#", "&#x", "&", "R&D", "&lt"] {
        let w0 = ref_decode(stem);
        let (w_amp, w_num) = (jsstr(&format!("{}&", w0)), jsstr(&format!("{}A", w0)));
        let w = jsstr(&w0);
        let tpl = format!(
            "<v a=\"{s}&amp;\" b=\"{s}\" c='{s}' d=\"{s}&#65;\" u=\"{s}{{{{ n }}}}\" data-k=\"{s}\">{s}</v><y>{s}{{{{ n }}}}</y><z>{s}&#65;</z><p>{s}&amp;</p><q>{s}<i/>{s}</q>",
            s = stem
        );
        out.push(c12_case(format!("c12/unterminated/{}", stem), tpl, vec![
            ("r:a", w_amp.clone(), false), ("r:b", w.clone(), false), ("r:c", w.clone(), false), ("r:d", w_num.clone(), false), ("r:u", w.clone(), false), ("d:k", w.clone(), false),
            ("t", format!("[{w}, {w}, {n}, {a}, {w}, {w}]", w = w, n = w_num, a = w_amp), true),
        ]));
    }
    // (B3) leading / trailing whitespace of a static attribute value belongs to the value, in every static position
    for val in [" x ", "\tx", "x\n", "\u{a0}x\u{3000}", " ", "  ", "\u{2028}x\u{2029}", " a  b ", "\r\nx"] {
        let dq = val.replace('&', "&amp;").replace('"', "&quot;");
        let w = jsstr(val);
        let tpl = format!(
            "<v a=\"{dq}\" data-k=\"{dq}\" mark:m=\"{dq}\" class=\"{dq}\" id=\"{dq}\" style=\"{dq}\" u=\"{dq}{{{{ n }}}}{dq}\"/><slot name=\"{dq}\"/><i wx:for=\"{{{{ [1] }}}}\" wx:key=\"{dq}\"/><comp generic:g=\"{dq}\" slot=\"{dq}\" bind:tap=\"{dq}\" worklet:w=\"{dq}\"/>",
            dq = dq
        );
        out.push(c12_case(format!("c12/edges/{}", val.escape_unicode()), tpl, vec![
            ("r:a", w.clone(), false), ("d:k", w.clone(), false), ("m:m", w.clone(), false), ("c", w.clone(), false), ("i", w.clone(), false), ("y", w.clone(), false), ("r:u", format!("{w} + {w}", w = w), false),
            ("sn", w.clone(), false), ("fk", w.clone(), false), ("gen", format!("({{g: {}}})", w), false), ("slot", w.clone(), false), ("v:tap", w.clone(), false), ("wl:w", w.clone(), false),
        ]));
    }
    // (C) unquoted attribute values
    // (an unquoted value is not WXML; the parser's recovery reads identifier characters only, so only those are enumerated)
    for val in ["abc", "a1", "1", "a-b_c.d", "A", "0x1f", "-", "_"] {
        out.push(c12_case(format!("c12/unquoted/{}", val), format!("<v a={} b={}></v>", val, val), vec![("r:a", jsstr(val), false), ("r:b", jsstr(val), false)]));
    }
    // (D) every escape of string literals inside {{ }}, followed by critical successors
    for esc in ["\\n", "\\r", "\\t", "\\b", "\\f", "\\v", "\\0", "\\x41", "\\x00", "\\x7f", "\\xff", "\\xFF", "\\u0041", "\\u0000", "\\u2028", "\\ufeff", "\\uFFFF", "\\'", "\\\\", "\\/", "\\a", "\\z", "\\-", "\\ ", "\\}", "\\{"] {
        for su in ["", "0", "1", "8", "a", "f", "x", "u", "\\\\", "}", "{", "\\n", "\\x41"] {
            if esc == "\\0" && su.starts_with(|c: char| c.is_ascii_digit()) { continue; } // `\0` + digit is a legacy octal escape in JavaScript: what it denotes is not settled by the text
            if esc.ends_with('{') && su.starts_with('{') || esc.ends_with('}') && su.starts_with('}') { continue; }
            let body = format!("[{}{}]", esc, su);
            let want = jsstr(&ref_unescape(&body));
            let tpl = format!("<w v=\"{{{{ '{b}' }}}}\" u=\"x{{{{ '{b}' }}}}y\">{{{{ '{b}' }}}}</w><z>{{{{ \"{b}\" }}}}|</z><k v=\"{{{{ {{ k: '{b}' }}.k }}}}\"/>", b = body);
            out.push(c12_case(format!("c12/escape/{}", esc), tpl, vec![("r:v", format!("[{w}, {w}]", w = want), true), ("r:u", format!("\"x\" + {} + \"y\"", want), false), ("t", format!("[{w}, {w} + \"|\"]", w = want), true)]));
        }
    }
}

// ------------------------------------------------------------------------------------------------ C13 family
/// the key a template path is registered under (the same stack normalisation the PATH unit proves for path::normalize)
pub fn norm_path(p: &str) -> String {
    let mut segs: Vec<&str> = vec![];
    for s in p.split('/') { match s { "." => {} ".." => { segs.pop(); } x => segs.push(x) } }
    segs.join("/")
}
fn c13_case(label: &str, main: &str, files: Vec<(&str, &str, bool)>, want_texts: &str, out: &mut Vec<Case>) {
    let mut c = ev("c13", main.to_string(), vec![("t", want_texts.to_string(), true)], vec!["a".into()], pool_of(&["7"]), Pick::All);
    c.path = "p/m".into();
    c.name = String::new();
    c.files = files.into_iter().map(|(p, s, sc)| (p.to_string(), s.to_string(), sc)).collect();
    let _ = label;
    // both insertion orders: the template under test first, and last
    let mut c2 = c.clone();
    c2.files_first = true;
    // and both bundle flavours
    let (mut c3, mut c4) = (c.clone(), c2.clone());
    c3.wx = true;
    c4.wx = true;
    out.push(Case::Eval(c));
    out.push(Case::Eval(c2));
    out.push(Case::Eval(c3));
    out.push(Case::Eval(c4));
}
/// cross-file linking, EXECUTED through the all-templates bundle: which definition a `<template is>` reaches, what an
/// `<include>` renders, which module an external `<wxs>` binds -- for every spelling of the reference
fn family_c13(out: &mut Vec<Case>) {
    let lib_a = ("lib/a", "<template name=\"x\">A</template><template name=\"y\">Y</template>", false);
    let lib_b = ("lib/b", "<template name=\"x\">B</template>", false);
    let lib_c = ("lib/c", "<template name=\"z\">Z</template>", false);
    let lib_t = ("lib/t", "<import src=\"c\"/><template name=\"w\">W<template is=\"z\"/></template>", false);
    for sp in ["../lib/a", "/lib/a", "./../lib/a", "../lib/a.wxml", "/lib/../lib/a", "/./lib/a", "../lib/./a", "../../lib/a"] {
        // a local definition beats the import; a name only the import has comes from the import
        c13_case("local", &format!("<import src=\"{}\"/><template name=\"x\">L</template><template is=\"x\"/>|<template is=\"y\"/>", sp), vec![lib_a], "[\"L\", \"|\", \"Y\"]", out);
        c13_case("local-first", &format!("<template name=\"x\">L</template><import src=\"{}\"/><template is=\"x\"/>", sp), vec![lib_a], "[\"L\"]", out);
        // a later import beats an earlier one
        c13_case("later", &format!("<import src=\"{}\"/><import src=\"../lib/b\"/><template is=\"x\"/>", sp), vec![lib_a, lib_b], "[\"B\"]", out);
        c13_case("later2", &format!("<import src=\"../lib/b\"/><import src=\"{}\"/><template is=\"x\"/>", sp), vec![lib_a, lib_b], "[\"A\"]", out);
    }
    // imports are not transitive: z is visible inside lib/t, not in the importer
    c13_case("transitive", "<import src=\"../lib/t\"/><template is=\"w\"/>|<template is=\"z\"/>", vec![lib_t, lib_c], "[\"W\", \"Z\", \"|\"]", out);
    // a missing target renders nothing
    c13_case("missing", "<import src=\"../lib/none\"/>a<template is=\"x\"/>b", vec![lib_a], "[\"a\", \"b\"]", out);
    // include and external scripts, by every spelling
    for sp in ["../lib/i", "/lib/i", "../lib/i.wxml", "/lib/../lib/i", "/./lib/i", "./../lib/./i"] {
        c13_case("include", &format!("<include src=\"{}\"/>", sp), vec![("lib/i", "<view>I{{ a }}</view>", false)], "[\"I7\"]", out);
    }
    for sp in ["../lib/s", "/lib/s", "../lib/s.wxs", "/lib/../lib/s", "/./lib/s.wxs"] {
        c13_case("script", &format!("<wxs module=\"m\" src=\"{}\"/><view>{{{{ m.k }}}}</view>", sp), vec![("lib/s", "exports.k = 5", true)], "[\"5\"]", out);
    }
    // inline and external modules of one file in every declaration order: each name reads its own module (C05: the module
    // list is the bottom of the scope stack, index for index), at top level, under wx:for, and in a <template name> body
    let inl = |n: &str| format!("<wxs module=\"{n}\">exports.v = 'inline-{n}'</wxs>", n = n);
    let ext = |n: &str, f: &str| format!("<wxs module=\"{}\" src=\"../lib/{}\"/>", n, f);
    let f1 = ("lib/f1", "exports.v = 'file-1'", true);
    let f2 = ("lib/f2", "exports.v = 'file-2'", true);
    let uses = "<view>{{ u.v }}</view><view>{{ f.v }}</view><view>{{ w.v }}</view><view>{{ g.v }}</view><block wx:for=\"{{ [1] }}\"><view>{{ g.v }}</view><view>{{ u.v }}</view></block><template name=\"t\"><view>{{ f.v }}</view><view>{{ w.v }}</view></template><template is=\"t\"/>";
    let want = "[\"inline-u\", \"file-1\", \"inline-w\", \"file-2\", \"file-2\", \"inline-u\", \"file-1\", \"inline-w\"]";
    let decls = [inl("u"), ext("f", "f1"), inl("w"), ext("g", "f2")];
    let mut order = vec![0usize, 1, 2, 3];
    // all 24 orders of the four declarations
    fn perms4(k: usize, v: &mut Vec<usize>, out: &mut Vec<Vec<usize>>) { if k == v.len() { out.push(v.clone()); return; } for i in k..v.len() { v.swap(k, i); perms4(k + 1, v, out); v.swap(k, i); } }
    let mut all = vec![];
    perms4(0, &mut order, &mut all);
    for o in all {
        let head: String = o.iter().map(|i| decls[*i].clone()).collect();
        c13_case("modules-mixed", &format!("{}{}", head, uses), vec![f1, f2], want, out);
    }
}

/// dataset / mark names that repeat their own prefix or another one: only ONE prefix is the attribute kind
fn family_c12_prefixed_names(out: &mut Vec<Case>) {
    let tpl = "<v data-data-id=\"x1\" data-data-data-source=\"x2\" data-a-data-b=\"x3\" data:dataK=\"x4\" data-mark-m=\"x5\" mark:mark-m=\"x6\" mark:data-d=\"x7\" data-bind-tap=\"x8\"/>";
    let checks = vec![("d:dataId", "\"x1\"".to_string(), false), ("d:dataDataSource", "\"x2\"".to_string(), false), ("d:aDataB", "\"x3\"".to_string(), false), ("d:dataK", "\"x4\"".to_string(), false),
        ("d:markM", "\"x5\"".to_string(), false), ("m:mark-m", "\"x6\"".to_string(), false), ("m:data-d", "\"x7\"".to_string(), false), ("d:bindTap", "\"x8\"".to_string(), false)];
    out.push(c12_case("c12/prefixed-names".to_string(), tpl.to_string(), checks));
    // a dash followed by a character without an upper-case form (digit, `_`, another dash): only the character directly
    // behind a dash is affected, later letters keep their case (seed C12-17)
    let tpl = "<v data-col-2nd=\"y1\" data-item-_id=\"y2\" data-a--b=\"y3\" data-p-3d-q=\"y4\" data-w-1-2x=\"y5\"/>";
    let checks = vec![("d:col2nd", "\"y1\"".to_string(), false), ("d:item_id", "\"y2\"".to_string(), false), ("d:aB", "\"y3\"".to_string(), false),
        ("d:p3dQ", "\"y4\"".to_string(), false), ("d:w12x", "\"y5\"".to_string(), false)];
    out.push(c12_case("c12/dash-nonletter-names".to_string(), tpl.to_string(), checks));
}

/// dev mode hands the runtime the list of attribute names each element carries (`R.devArgs(N).A`): the names are constants
/// of the template like any other (C12) -- compared as sets per element, in document order of the elements
fn family_c12_dev(out: &mut Vec<Case>) {
    for (tpl, want) in [
        ("<div mark:uid=\"u1\" data:idx=\"0\" hidden title=\"x\" id=\"i\" class=\"c\" style=\"s\" slot=\"s2\"/>", "[[\":class\", \":id\", \":slot\", \":style\", \"data:idx\", \"hidden\", \"mark:uid\", \"title\"]]"),
        ("<div mark:a=\"1\" mark:b=\"{{ a }}\"/><div data:a=\"1\" data:b=\"{{ a }}\"/><div mark:k=\"1\" data:k=\"2\"/>", "[[\"mark:a\", \"mark:b\"], [\"data:a\", \"data:b\"], [\"data:k\", \"mark:k\"]]"),
        ("<slot name=\"n\" mark:m=\"1\" data:d=\"2\" v=\"{{ a }}\"/><slot mark:only=\"1\"/>", "[[\":name\", \"data:d\", \"mark:m\", \"v\"], [\"mark:only\"]]"),
        ("<comp mark:mx=\"1\" data:dy=\"2\" p=\"{{ a }}\" change:p=\"{{ a }}\"/>", "[[\"data:dy\", \"mark:mx\", \"p\", \"p\"]]"),
    ] {
        let mut c = ev("c12", tpl.to_string(), vec![("devA", want.to_string(), true)], vec!["a".into()], pool_of(&["7"]), Pick::All);
        c.path = format!("c12/dev/{}", out.len());
        c.dev = true;
        out.push(Case::Eval(c));
    }
}

/// C05 through the editing API: replacing the body of one inline <wxs> module must not change which variable any name
/// of the template resolves to (module names are scopes; their order is their scope index)
fn family_c05_post(out: &mut Vec<Case>) {
    let src = "<wxs module=\"alpha\">exports.v = 'A'</wxs><wxs module=\"beta\">exports.v = 'B'</wxs><wxs module=\"gamma\">exports.v = 'G'</wxs><block wx:for=\"{{ l }}\"><p v=\"{{ [alpha.v, beta.v, gamma.v, item] }}\"/></block><q v=\"{{ [alpha.v, beta.v, gamma.v] }}\"/>";
    for (k, m) in ["alpha", "beta", "gamma"].iter().enumerate() {
        let mut want = vec!["'A'", "'B'", "'G'"];
        want[k] = "'N'";
        let w = want.join(", ");
        let mut c = ev("c05", src.to_string(), vec![("r:v", format!("[].concat($each($d[\"l\"], (i) => [{w}, i]), [[{w}]])", w = w), true)], vec!["l".into()], pool_of(&["[1, 2]", "[]"]), Pick::All);
        c.path = format!("c05/post/{}", m);
        c.post = vec![(m.to_string(), "exports.v = 'N'".to_string())];
        out.push(Case::Eval(c));
    }
    // two edits in a row, and an edit that restores the original text
    let mut c = ev("c05", src.to_string(), vec![("r:v", "[].concat($each($d[\"l\"], (i) => ['N', 'M', 'G', i]), [['N', 'M', 'G']])".to_string(), true)], vec!["l".into()], pool_of(&["[1]"]), Pick::All);
    c.path = "c05/post/two".into();
    c.post = vec![("alpha".into(), "exports.v = 'N'".into()), ("beta".into(), "exports.v = 'M'".into())];
    out.push(Case::Eval(c));
}

// ------------------------------------------------------------------------------------------------ C02 families
fn pc(family: &'static str, files: Vec<(&str, String)>, scripts: Vec<(&str, &str)>, out: &mut Vec<Case>) {
    for dev in [false, true] {
        out.push(Case::Parse(ParseCase {
            family,
            files: files.iter().map(|(p, s)| (p.to_string(), FileSrc::Text(s.clone()))).collect(),
            scripts: scripts.iter().map(|(p, s)| (p.to_string(), s.to_string())).collect(),
            dev,
            extra: None,
        }));
    }
}
const ODD_STRINGS: &[&str] = &[
    "\"", "'", "\\", "\\\\", "\\n", "a\"b'c\\d", "\u{2028}", "\u{2029}", "</script>", "<!--", "-->", "]]>", "*/", "/*", "//", "`${x}`", "\u{0}", "\u{0}1", "\u{1}\u{2}\u{7}\u{8}\u{b}\u{c}\u{e}\u{1f}",
    "\u{c}", "x\u{c}y", "\u{7f}", "\u{80}\u{9f}\u{a0}\u{ad}", "\u{feff}", "\u{1F600}", "\r", "\r\n", "\n", "\t", "\u{ffff}", "\\u{41}", "\\x4", "\\0", "\\08", "a\\", "'+alert(1)+'",
];
const ODD_EXPRS: &[&str] = &[
    "1e999", "-1e999", "1e-999", "1e999 + 1", "a.b[1e999]", "0xffffffffffffffffffff", "00000000", "9223372036854775808", "0777777777777777777777777", "1.7976931348623159e308",
    "- -1", "+ +1", "- - -a", "+ + +a", "a - -b", "a + +b", "a - - - b", "a + + + b", "-(-a)", "+(+a)", "a - -1", "a + +1", "- -a.b", "!-a", "~+a", "-!a", "typeof typeof a", "void void a",
    "typeof -a", "void +a", "-typeof a", "a / b / c", "a / (b / c)", "a < b > c", "a >> b >>> c", "a - (-b)", "a * -b", "a % +b", "a-b", "a+b", "a ?? b ?? c", "(a || b) ?? c", "a ?? (b && c)",
    "a ? b : c ? d : e", "(a ? b : c) ? d : e", "a ? b ? c : d : e", "a.new", "a.class.typeof", "{ new: 1 }", "{ class: a, if: b }", "[,]", "[,,a]", "[...a,,]", "{ ...a, b, ...c }", "a.b(c)(d)[e].f",
    "'\\u2028'", "'\\0' + '1'", "'\\x001'", "\"\\\"\"", "a instanceof b", "a.instanceof", "typeofa", "voida", "typeof(a)", "void(0)", "a?.1:b", "a ?.5 : b",
];
fn family_parse(out: &mut Vec<Case>) {
    // generated identifiers: enough declarations in one scope to walk over `do`, `if`, `in` (2200+) in normal and nested scopes
    let many = 2400;
    pc("idents", vec![("p/idents", "<a/>".repeat(many))], vec![], out);
    pc("idents", vec![("p/idents2", format!("{}{}", "<a b=\"{{ c }}\">{{ d }}</a>".repeat(many), "<template name=\"t\">".to_string() + &"<i/>".repeat(many) + "</template>"))], vec![], out);
    pc("idents", vec![("p/idents3", format!("<block wx:for=\"{{{{ l }}}}\">{}</block><c>{}</c>", "<a x=\"{{ item ? index : 1 }}\"/>".repeat(many), "<b wx:if=\"{{ x }}\"/>".repeat(many)))], vec![], out);
    pc("idents", vec![("p/idents6", "<block wx:for=\"{{ l }}\">x</block>".repeat(3000))], vec![], out);
    pc("idents", vec![("p/idents7", format!("{}{}", "<view/>".repeat(2180), "<block wx:for=\"{{ l }}\"><block wx:for=\"{{ item }}\">{{ item }}</block></block>".repeat(600)))], vec![], out);
    pc("idents", vec![("p/idents8", format!("<block wx:for=\"{{{{ l }}}}\">{}</block>", "<block wx:for=\"{{ item }}\" wx:for-item=\"j\"><i a=\"{{ j ? item : index }}\"/></block>".repeat(1200)))], vec![], out);
    pc("idents", vec![("p/idents4", format!("{}<slot/>{}", "<v>".repeat(60), "</v>".repeat(60)))], vec![], out);
    pc("idents", vec![("p/idents5", "<wxs module=\"m\">exports.a = 1</wxs>".to_string() + &"<a p=\"{{ m.a + x[y] }}\" bind:tap=\"{{ m.a }}\" change:q=\"{{ m.a }}\"/>".repeat(many))], vec![], out);
    // strings in every static position
    for s in ODD_STRINGS {
        let esc = s.replace('&', "&amp;").replace('<', "&lt;").replace('"', "&quot;");
        pc("strings", vec![("p/s", format!("<view title=\"{e}\" class=\"{e}\" style=\"{e}\" id=\"{e}\" data-k=\"{e}\" mark:m=\"{e}\" slot=\"{e}\" bind:tap=\"{e}\" hidden>{e}</view><slot name=\"{e}\"/><template is=\"{e}\"/><template name=\"{e}\">x</template>", e = esc))], vec![], out);
        pc("strings", vec![("p/s", format!("<view title=\"a{e}{{{{ b }}}}{e}\">{e}{{{{ b }}}}{e}</view><view wx:for=\"{{{{ l }}}}\" wx:key=\"{e}\"/><view wx:if=\"{e}\"/>", e = esc))], vec![], out);
        // raw (not entity-escaped) in a text node
        if !s.contains('<') && !s.contains("{{") { pc("strings", vec![("p/s", format!("<view>{}</view>", s))], vec![], out); }
        // inside a string literal of an expression
        if !s.contains('\'') && !s.contains('\\') && !s.contains('"') && !s.contains('\n') && !s.contains('\r') {
            pc("strings", vec![("p/s", format!("<view title=\"{{{{ '{e}' + a }}}}\">{{{{ '{e}' }}}} {{{{ a['{e}'] }}}}</view>", e = s.replace('<', "&lt;")))], vec![], out);
        }
        // as template path, script path, module name, attribute / tag / slot-value names
        pc("paths", vec![(s, "<view>{{ a }}</view>".to_string())], vec![], out);
        pc("paths", vec![(&format!("d/{}/t", s), "<import src=\"./o\"/><include src=\"../q\"/><template is=\"k\"/>".to_string()), (&format!("d/{}/o", s), "<template name=\"k\">k</template>".to_string())], vec![(&format!("lib/{}", s), "exports.a = 1")], out);
        pc("names", vec![("p/n", format!("<view {e}=\"1\" data-{e}=\"2\" mark:{e}=\"3\" bind:{e}=\"h\" data:{e}=\"{{{{ a }}}}\" {e}=\"{{{{ b }}}}\" model:{e}=\"{{{{ c }}}}\" change:{e}=\"{{{{ d }}}}\" class:{e}=\"{{{{ f }}}}\" style:{e}=\"{{{{ g }}}}\" slot:{e} generic:{e}=\"x\" worklet:{e}=\"w\"/><{e}/><slot {e}=\"{{{{ a }}}}\"/>", e = s))], vec![], out);
    }
    // legal but unusual names (what the tag parser accepts as a name: letters, digits, `-`, `_`, `.`, `:` ...) in every name position,
    // each position in its own element so that one rejected attribute does not hide the others
    // identifier-like words made of characters Rust calls alphabetic / alphanumeric but JavaScript does not accept in an
    // IdentifierName (and some it does): whatever the parser makes of them, every artefact must still be a Script
    for w in ["m\u{b2}", "a\u{bd}", "\u{24b6}", "a\u{2460}", "\u{540d}", "\u{e9}t\u{e9}", "x\u{2160}", "\u{661}a", "a\u{1F600}", "\u{aa}", "a\u{300}", "\u{2118}", "a\u{b7}b", "\u{3007}"] {
        pc("nonascii", vec![("p/u", format!("<view a=\"{{{{ {w} }}}}\" b=\"{{{{ o.{w} }}}}\" c=\"{{{{ {{ {w}: 1 }} }}}}\" d=\"{{{{ {{ {w} }} }}}}\" e=\"{{{{ {w}.f({w}) }}}}\">{{{{ {w} + 1 }}}}</view><template is=\"t\" data=\"{{{{ {w}: a, ...{w} }}}}\"/><view wx:for=\"{{{{ {w} }}}}\" wx:for-item=\"{w}\">{{{{ {w} }}}}</view><comp><view slot:{w}>{{{{ {w} }}}}</view></comp>", w = w))], vec![], out);
    }
    for e in ["a-b", "a.b", "a_b", "a--b", "a-", "a.", "a-b.c", "1a", "a1", "if", "new", "class", "default", "in", "do", "var", "null", "true", "constructor", "__proto__", "\u{3b1}", "a\u{1F600}", "A", "aB", "a$b", "$"] {
        pc("names", vec![("p/n", format!("<view {e}=\"1\"/><view data-{e}=\"2\"/><view mark:{e}=\"3\"/><view bind:{e}=\"h\" catch:{e}=\"h\" capture-bind:{e}=\"h\" mut-bind:{e}=\"h\"/><comp data:{e}=\"{{{{ a }}}}\"/><comp {e}=\"{{{{ b }}}}\"/><comp model:{e}=\"{{{{ c }}}}\"/><comp change:{e}=\"{{{{ d }}}}\"/><view class:{e}=\"{{{{ f }}}}\"/><view style:{e}=\"{{{{ g }}}}\"/><comp><view slot:{e}>{{{{ {i} }}}}</view></comp><comp generic:{e}=\"x\" generic:z=\"{e}\"/><comp worklet:{e}=\"w\"/><{e}/><slot {e}=\"{{{{ a }}}}\"/><slot name=\"{e}\"/><template name=\"{e}\">t</template><template is=\"{e}\"/><view slot=\"{e}\"/><view wx:for=\"{{{{ l }}}}\" wx:for-item=\"{e}\" wx:for-index=\"i{e}\" wx:key=\"{e}\"/>", e = e, i = if e.chars().all(|c| c.is_ascii_alphanumeric()) && !e.starts_with(|c: char| c.is_ascii_digit()) { e } else { "q" }))], vec![], out);
    }
    for s in ODD_STRINGS.iter().chain(["m", "$", "_", "new", "let", "static", "eval", "arguments", "if", "in", "do", "m#n", "a.b", "a-b", "1a", "", " m "].iter()) {
        let esc = s.replace('&', "&amp;").replace('<', "&lt;").replace('"', "&quot;");
        pc("wxs", vec![("p/x", format!("<wxs module=\"{}\" src=\"./lib\"/><view>{{{{ a }}}}</view>", esc))], vec![("p/lib", "exports.a = 1")], out);
        {
            pc("wxs", vec![("p/w", format!("<wxs module=\"{}\">exports.a = 1</wxs><view>{{{{ a }}}}</view>", esc))], vec![], out);
            pc("wxs", vec![(&format!("q/{}", s), "<wxs module=\"m\">exports.a = 1</wxs><view>{{ m.a }}</view>".to_string())], vec![], out);
        }
    }
    // an extra runtime script ("valid JavaScript statements, ended by semicolon"), with and without script modules in the group
    for extra in ["var zz=1;", "zz=1;var y=2;", "function zf(){};", ";", "/* c */;", "var zz=1;\n"] {
        for (files, scripts) in [
            (vec![("p/e", "<view>{{ a }}</view>".to_string())], vec![]),
            (vec![("p/e", "<wxs module=\"m\">exports.a = 1</wxs><view>{{ m.a }}</view>".to_string())], vec![]),
            (vec![("p/e", "<wxs module=\"n\" src=\"./s.wxs\"/><view>{{ n.a }}</view>".to_string())], vec![("p/s", "exports.a = 1")]),
            (vec![], vec![]),
        ] {
            for dev in [false, true] {
                out.push(Case::Parse(ParseCase {
                    family: "extra",
                    files: files.iter().map(|(p, s): &(&str, String)| (p.to_string(), FileSrc::Text(s.clone()))).collect(),
                    scripts: scripts.iter().map(|(p, s): &(&str, &str)| (p.to_string(), s.to_string())).collect(),
                    dev,
                    extra: Some(extra.to_string()),
                }));
            }
        }
    }
    // script bodies that are valid JavaScript on their own
    for body in ["exports.a = 1", "exports.a = 1;", "exports.a = 1 // trailing comment", "// only a comment", "// a comment\nexports.a = 1", "/* c */", "", "\n", "exports.a = '</wxs>'.length", "'use strict'; exports.a = 1",
        "exports.a = function () { return 1 }", "var a = 1\nvar b = 2\n", "exports.a = /[/]/.test('/')", "exports.a = `\n${1}\n`", "if (true) { exports.a = 1 } else { exports.a = 2 }", "label: for (;;) { break label }",
        "exports.a = 1 /* unterminated in a line comment // */", "exports.a = {}",
        "exports.a = 1 // c\n", "exports.a = 1 // c\r\n", "exports.a = 1 //", "exports.a = 1 // c\u{2028}", "exports.a = 1 /* c */", "exports.a = 1 /* c */\n", "exports.a = 1 /* c\nd */ // e", "//\n//", "/**/", "exports.a = 1 // });", "exports.a = 1 /* }) */ //"] {
        let inline = body.replace("</wxs>", "<\\/wxs>");
        pc("scripts", vec![("p/i", format!("<wxs module=\"m\">{}</wxs><view>{{{{ m.a }}}}</view>", inline)), ("p/j", "<wxs module=\"n\" src=\"./s.wxs\"/><view>{{ n.a }}</view>".to_string())], vec![("p/s", body)], out);
    }
    // numbers and operator sequences
    for e in ODD_EXPRS {
        pc("exprs", vec![("p/e", format!("<view a=\"{{{{ {e} }}}}\" b=\"x{{{{ {e} }}}}y\" wx:if=\"{{{{ {e} }}}}\" data-k=\"{{{{ {e} }}}}\" bind:tap=\"{{{{ {e} }}}}\">{{{{ {e} }}}} z{{{{ {e} }}}}</view><view wx:for=\"{{{{ {e} }}}}\" wx:key=\"k\"/><template is=\"{{{{ {e} }}}}\" data=\"{{{{ k: {e} }}}}\"/><slot name=\"{{{{ {e} }}}}\"/>", e = e))], vec![], out);
    }
    // structure
    let nest = |depth: usize| -> String {
        let mut s = String::new();
        for i in 0..depth {
            s += &match i % 6 {
                0 => format!("<view wx:for=\"{{{{ l{} }}}}\" wx:for-item=\"it{}\" wx:for-index=\"ix{}\" wx:key=\"k\">", i, i, i),
                1 => format!("<block wx:if=\"{{{{ c{} }}}}\">", i),
                2 => "<comp slot=\"s\" slot:v>".to_string(),
                3 => format!("<template is=\"t\" data=\"{{{{ a{}: it0 }}}}\"/><view class=\"a {{{{ b }}}}\">", i),
                4 => "<slot name=\"n\" v=\"{{ it0 }}\"/><view>".to_string(),
                _ => "<include src=\"./inc\"/><block>".to_string(),
            };
        }
        s += "{{ it0 + ix0 + m.a(v) }}";
        for i in (0..depth).rev() { s += match i % 6 { 0 | 3 | 4 => "</view>", 2 => "</comp>", _ => "</block>" }; }
        s
    };
    for depth in [1, 6, 13, 30] {
        pc("structure", vec![
            ("p/main", format!("<import src=\"./imp\"/><wxs module=\"m\">exports.a = function (x) {{ return x }}</wxs><wxs module=\"n\" src=\"../lib/s\"/><template name=\"t\"><i>{{{{ a0 }}}}</i><slot/></template>{}<view wx:if=\"{{{{ a }}}}\"/><view wx:elif=\"{{{{ b }}}}\"/><view wx:else/>", nest(depth))),
            ("p/imp", "<template name=\"t\">imp</template><template name=\"u\"><template is=\"t\"/></template>".to_string()),
            ("p/inc", "<view>{{ inc }}</view><include src=\"inc2\"/>".to_string()),
            ("p/inc2", "inc2".to_string()),
        ], vec![("lib/s", "exports.a = require('./t').a"), ("lib/t", "exports.a = 1")], out);
    }
    // ill-formed templates (diagnostics) still emit valid code
    for t in ["<view", "<view a=", "<view>{{ a", "{{ a + }}", "<view wx:for>", "</view>", "<view a=\"{{ 1 + }}\"/>", "<wxs module=\"m\">", "<template name=>", "<view wx:if=\"{{ a }}\" wx:else/>", "<a b=\"{{ c }}\" b=\"{{ d }}\"/>", "<block wx:for=\"{{ l }}\" wx:for-item=\"new\" wx:for-index=\"1\">{{ new }}</block>", "<view slot:new slot:if=\"let\">{{ new + let }}</view>", ""] {
        pc("illformed", vec![("p/bad", t.to_string())], vec![], out);
    }
    // 190000 sibling elements (walks the generated names over `var`, `for`, `new`, `let`, `try`): normal mode only
    out.push(Case::Parse(ParseCase { family: "huge", files: vec![("big".into(), FileSrc::Rep("<a/>".into(), 190_000))], scripts: vec![], dev: false, extra: None }));
}

// ------------------------------------------------------------------------------------------------ driver
/// Inputs (as accepted by `run`) that break the property on the UNMODIFIED compiler.  `search` excludes exactly these
/// classes (guards named in the comments); VX_JSEVAL_KNOWN=1 adds them / switches the guards off.
pub const KNOWN: &[&str] = &[
    // K1 (C03) array spread is emitted as [].concat(..): equals JavaScript's spread only for a dense Array operand.
    //    Guard: environments in which a spread operand is not a dense Array are skipped (`guards`).
    r#"{"k":"eval","src":"<div v=\"{{ [...l] }}\"/>","checks":[["r:v","[...$d[\"l\"]]",false]],"env":{"l":"ab"}}"#,
    r#"{"k":"eval","src":"<div v=\"{{ [...l] }}\"/>","checks":[["r:v","[...$d[\"l\"]]",false]],"env":{"l":[1,{"$":"hole"},3]}}"#,
    // K2 (C03) the condition of ?:, the left operand of ?? and the key of o[k] are hoisted into `var` statements in front
    //    of the expression: they are evaluated even when JavaScript short-circuits them, and before calls on their left.
    //    Only observable with an impure callee or a throwing operator (instanceof with a non-callable right operand).
    //    Guard: family `hoist` (impure callees; instanceof under && / || / ?:) is enumerated only with VX_JSEVAL_KNOWN=1.
    r#"{"k":"eval","src":"<div v=\"{{ c() + (c() ? 10 : 20) }}\"/>","checks":[["r:v","($call($d[\"c\"],[]) + ($call($d[\"c\"],[]) ? (10) : (20)))",false]],"env":{"c":{"$":"fn","k":"count"}}}"#,
    r#"{"k":"eval","src":"<div v=\"{{ [a && o[c()], c()] }}\"/>","checks":[["r:v","[($d[\"a\"] && $get($d[\"o\"],$call($d[\"c\"],[]))),$call($d[\"c\"],[])]",false]],"env":{"a":0,"o":0,"c":{"$":"fn","k":"count"}}}"#,
    r#"{"k":"eval","src":"<div v=\"{{ a && (a instanceof o ? 1 : 2) }}\"/>","checks":[["r:v","($d[\"a\"] && (($d[\"a\"] instanceof $d[\"o\"]) ? (1) : (2)))",false]],"env":{"a":0,"o":0}}"#,
];

const BOUND: &str = "C03: all 1680 operator trees of depth <= 2 (6 unary, 23 binary, ?:; every operator pair x operand position) x minimal / full parentheses x pool^vars (16 edge values for <= 2 vars, 12 for 3, 600 fixed-seed LCG tuples over the 16 for 4-5 vars) + 35 trees in 10 binding positions + 54 wx:if/elif/elif/else chains (?? and ?: roots in every branch position) x element/block + 62 number literals x 4 forms + 30 string literals x 3 forms + 49 array/object literal trees x 2 + 65 member/index/call chains x 2 (pool 19^vars) + 12 scope templates; every environment: creation, binding-map updaters, whole-data update. C05: 27 scope shapes (nested wx:for default/renamed/colliding, slot: value refs on elements/blocks/nested/aliased/duplicated, wxs modules, template-name bodies, siblings after scopes) x 28 expression forms with every name under test at every position. C12: 59 critical characters x 15 successors x raw/decimal/hex spelling in 11 static positions, 103 character-reference forms in 6 positions, 8 unquoted values, 26 escapes x 13 successors in string literals. C02: 1027 directed groups (normal and dev mode; identifiers up to 2400 per scope and 190000 siblings, odd strings/names/paths/module names incl. quotes, backslashes, CR/LF, U+2028, script bodies incl. trailing // and /* */ comments, numbers, sign sequences, nesting, ill-formed input) x every artefact x 2-3 wrappings x sloppy/strict. Excluded KNOWN classes K1, K2 (see KNOWN)";

fn all_cases() -> Vec<Case> {
    let mut v = vec![];
    family_ops(&mut v);
    family_pos(&mut v);
    family_wxif(&mut v);
    family_num_str(&mut v);
    family_lit(&mut v);
    family_mem(&mut v);
    family_scope(&mut v);
    family_c05(&mut v);
    family_c12(&mut v);
    family_c13(&mut v);
    family_c05_post(&mut v);
    family_c12_dev(&mut v);
    family_c12_prefixed_names(&mut v);
    if known_mode() {
        family_hoist(&mut v);
        for k in KNOWN { if let Some(c) = decode_input(k) { v.push(c); } }
    }
    family_parse(&mut v);
    v
}

fn pick_json(p: &Pick) -> J {
    match p {
        Pick::All => js("all"),
        Pick::Lcg(n, seed) => jo(vec![("n", J::Num(*n as f64)), ("seed", J::Num(*seed as f64))]),
        Pick::Tuples(t) => jo(vec![("tuples", J::Arr(t.iter().map(|x| J::Arr(x.iter().map(|i| J::Num(*i as f64)).collect())).collect()))]),
    }
}
fn checks_json(c: &EvalCase) -> J { J::Arr(c.checks.iter().map(|(s, e, q)| J::Arr(vec![js(s), js(e), J::Bool(*q)])).collect()) }
/// witness encoding of an eval case with ONE environment
fn encode_eval(c: &EvalCase, tuple: &[usize]) -> String { encode_eval_alt(c, tuple, None) }
fn encode_eval_alt(c: &EvalCase, tuple: &[usize], alt: Option<(String, J)>) -> String {
    let env = J::Obj(c.vars.iter().zip(tuple).map(|(v, i)| (v.clone(), c.pool[*i].clone())).collect());
    let mut o = vec![("k", js("eval")), ("path", js(&c.path)), ("src", js(&c.src)), ("checks", checks_json(c)), ("env", env)];
    if !c.name.is_empty() { o.push(("name", js(&c.name))); }
    if !c.guards.is_empty() { o.push(("guards", J::Arr(c.guards.iter().map(|g| js(g)).collect()))); }
    if c.any_diag { o.push(("anydiag", J::Bool(true))); }
    if let Some((f, v)) = alt { o.push(("alts", J::Obj(vec![(f, v)]))); } else if !c.alts.is_empty() { o.push(("alts", J::Obj(c.alts.clone()))); }
    if !c.files.is_empty() { o.push(("gfiles", J::Arr(c.files.iter().map(|(p, s, sc)| J::Arr(vec![js(p), js(s), J::Bool(*sc)])).collect()))); }
    if c.files_first { o.push(("ffirst", J::Bool(true))); }
    if c.dev { o.push(("devm", J::Bool(true))); }
    if c.wx { o.push(("wxb", J::Bool(true))); }
    if !c.post.is_empty() { o.push(("post", J::Arr(c.post.iter().map(|(m, t)| J::Arr(vec![js(m), js(t)])).collect()))); }
    jo(o).text()
}
fn encode_parse(c: &ParseCase) -> String {
    let mut o = vec![
        ("k", js("parse")),
        ("files", J::Arr(c.files.iter().map(|(p, s)| J::Arr(vec![js(p), s.json()])).collect())),
        ("scripts", J::Arr(c.scripts.iter().map(|(p, s)| J::Arr(vec![js(p), js(s)])).collect())),
        ("dev", J::Bool(c.dev)),
    ];
    if let Some(e) = &c.extra { o.push(("extra", js(e))); }
    jo(o).text()
}
fn decode_input(input: &str) -> Option<Case> {
    let j = parse_json(input)?;
    match j.get("k")?.str()? {
        "eval" => {
            let env = if let J::Obj(o) = j.get("env")? { o.clone() } else { return None };
            Some(Case::Eval(EvalCase {
                family: "replay",
                path: j.get("path").and_then(|x| x.str()).unwrap_or("a").to_string(),
                src: j.get("src")?.str()?.to_string(),
                name: j.get("name").and_then(|x| x.str()).unwrap_or("").to_string(),
                checks: j.get("checks")?.arr().iter().map(|c| (c.arr()[0].str().unwrap_or("").to_string(), c.arr()[1].str().unwrap_or("").to_string(), c.arr()[2].truthy())).collect(),
                guards: j.get("guards").map(|g| g.arr().iter().filter_map(|x| x.str().map(|s| s.to_string())).collect()).unwrap_or_default(),
                vars: env.iter().map(|(k, _)| k.clone()).collect(),
                pool: env.iter().map(|(_, v)| v.clone()).collect(),
                pick: Pick::Tuples(vec![(0..env.len()).collect()]),
                flat: None,
                any_diag: j.get("anydiag").map(|d| d.truthy()).unwrap_or(false),
                bmap1: j.get("alts").is_some(),
                alts: if let Some(J::Obj(o)) = j.get("alts") { o.clone() } else { vec![] },
                files_first: j.get("ffirst").map(|d| d.truthy()).unwrap_or(false),
                dev: j.get("devm").map(|d| d.truthy()).unwrap_or(false),
                wx: j.get("wxb").map(|d| d.truthy()).unwrap_or(false),
                post: j.get("post").map(|f| f.arr().iter().map(|x| (x.arr()[0].str().unwrap_or("").to_string(), x.arr()[1].str().unwrap_or("").to_string())).collect()).unwrap_or_default(),
                files: j.get("gfiles").map(|f| f.arr().iter().map(|x| (x.arr()[0].str().unwrap_or("").to_string(), x.arr()[1].str().unwrap_or("").to_string(), x.arr()[2].truthy())).collect()).unwrap_or_default(),
            }))
        }
        "parse" => Some(Case::Parse(ParseCase {
            family: "replay",
            files: j.get("files")?.arr().iter().map(|f| {
                let s = &f.arr()[1];
                (f.arr()[0].str().unwrap_or("").to_string(), match s { J::Arr(a) => FileSrc::Rep(a[0].str().unwrap_or("").to_string(), a[1].num() as usize), x => FileSrc::Text(x.str().unwrap_or("").to_string()) })
            }).collect(),
            scripts: j.get("scripts").map(|s| s.arr().iter().map(|f| (f.arr()[0].str().unwrap_or("").to_string(), f.arr()[1].str().unwrap_or("").to_string())).collect()).unwrap_or_default(),
            dev: j.get("dev").map(|d| d.truthy()).unwrap_or(false),
            extra: j.get("extra").and_then(|x| x.str()).map(|s| s.to_string()),
        })),
        _ => None,
    }
}

/// the property a case belongs to (family, or the path prefix of a replayed witness)
fn prop_of(c: &EvalCase) -> &'static str {
    if c.family == "c13" || !c.files.is_empty() { "C13" } else if c.family == "c05" || c.path.starts_with("c05/") { "C05" } else if c.family == "c12" || c.path.starts_with("c12/") { "C12" } else { "C03" }
}
enum Compiled { Line(String), Early(Outcome), Dup }
fn found(input: String, observed: String, expected: String) -> Outcome {
    Outcome { found: true, input, observed, expected, evaluations: 0, bound: BOUND.into() }
}
fn first_tuple(c: &EvalCase) -> Vec<usize> { match &c.pick { Pick::Tuples(t) => t[0].clone(), _ => vec![0; c.vars.len()] } }
/// compile with the real TmplGroup and produce the harness line
fn compile(id: usize, case: &Case, seen: &mut std::collections::HashSet<String>) -> Compiled {
    match case {
        Case::Eval(c) => {
            let c2 = c.clone();
            let r = std::panic::catch_unwind(move || {
                let mut g = if c2.dev { TmplGroup::new_dev() } else { TmplGroup::new() };
                if c2.files_first { for (p, s, script) in &c2.files { if *script { g.add_script(p, s); } else { let _ = g.add_tmpl(p, s); } } }
                let diags = g.add_tmpl(&c2.path, &c2.src);
                if !c2.files_first { for (p, s, script) in &c2.files { if *script { g.add_script(p, s); } else { let _ = g.add_tmpl(p, s); } } }
                for (m, t) in &c2.post { let _ = g.set_inline_script_content(&c2.path, m, t); }
                // Note / Warn diagnostics (e.g. `duplicated name` for `{ x: 1, x: 2 }`) do not reject the expression
                let diag = diags.iter().filter(|d| d.prevent_success()).map(|d| format!("{:?}", d)).collect::<Vec<_>>().join("; ");
                let code = if c2.files.is_empty() { g.get_tmpl_gen_object(&c2.path).map_err(|e| e.to_string()) } else if c2.wx { g.get_wx_gen_object_groups().map_err(|e| e.to_string()) } else { g.get_tmpl_gen_object_groups().map_err(|e| e.to_string()) };
                (diag, g.get_runtime_string(), code)
            });
            let input = encode_eval(c, &first_tuple(c));
            let (diag, runtime, code) = match r {
                Ok(x) => x,
                Err(_) => return Compiled::Early(found(input, "panic while compiling".into(), "no panic".into())),
            };
            if !diag.is_empty() && !c.any_diag {
                return Compiled::Early(found(input, format!("the parser rejects a supported expression: {}", diag), "accepted without Error / Fatal diagnostics".into()));
            }
            let code = match code { Ok(c) => c, Err(e) => return Compiled::Early(found(input, format!("get_tmpl_gen_object failed: {}", e), "code".into())) };
            let mut o = vec![
                ("kind", js("eval")), ("runtime", js(&runtime)), ("code", js(&code)), ("name", js(&c.name)),
                ("vars", J::Arr(c.vars.iter().map(|v| js(v)).collect())), ("pool", J::Arr(c.pool.clone())), ("pick", pick_json(&c.pick)),
                ("checks", checks_json(c)), ("guards", J::Arr(c.guards.iter().map(|g| js(g)).collect())),
            ];
            if let Some(f) = &c.flat { o.push(("flat", js(f))); }
            if c.bmap1 { o.push(("bmap1", J::Bool(true))); }
            if !c.files.is_empty() { o.push(("group", J::Bool(true))); o.push(("gpath", js(&norm_path(&c.path)))); if c.wx { o.push(("gwx", J::Bool(true))); } }
            if !c.alts.is_empty() { o.push(("alts", J::Obj(c.alts.clone()))); }
            let body = jo(o).text();
            // the two parenthesisations of a tree usually compile to the same code: execute it once
            if !seen.insert(body.clone()) { return Compiled::Dup; }
            Compiled::Line(format!("{{\"id\":{},{}", id, &body[1..]))
        }
        Case::Parse(c) => {
            let c2 = c.clone();
            let r = std::panic::catch_unwind(move || {
                let mut g = if c2.dev { TmplGroup::new_dev() } else { TmplGroup::new() };
                for (p, s) in &c2.files { let _ = g.add_tmpl(p, &s.text()); }
                for (p, s) in &c2.scripts { g.add_script(p, s); }
                if let Some(e) = &c2.extra { g.set_extra_runtime_script(e); }
                let mut arts: Vec<(String, String, &str)> = vec![("get_runtime_string".into(), g.get_runtime_string(), "stmts")];
                if let Ok(x) = g.export_globals() { arts.push(("export_globals".into(), x, "stmts")); }
                if let Ok(x) = g.export_all_scripts() { arts.push(("export_all_scripts".into(), x, "stmts")); }
                let paths: Vec<String> = g.list_template_trees().map(|(p, _)| p.to_string()).collect();
                for p in paths { if let Ok(x) = g.get_tmpl_gen_object(&p) { arts.push((format!("get_tmpl_gen_object({:?})", p), x, "expr")); } }
                if let Ok(x) = g.get_tmpl_gen_object_groups() { arts.push(("get_tmpl_gen_object_groups".into(), x, "expr")); }
                if let Ok(x) = g.get_wx_gen_object_groups() { arts.push(("get_wx_gen_object_groups".into(), x, "expr")); }
                arts
            });
            let arts = match r { Ok(a) => a, Err(_) => return Compiled::Early(found(encode_parse(c), "panic while emitting".into(), "no panic".into())) };
            let a = J::Arr(arts.iter().map(|(n, code, form)| jo(vec![("name", js(n)), ("code", js(code)), ("form", js(form))])).collect());
            Compiled::Line(format!("{{\"id\":{},\"kind\":\"parse\",\"artefacts\":{}}}", id, a.text()))
        }
    }
}
fn harness_dir() -> String { std::env::var("VX_REPLAY_DIR").unwrap_or_else(|_| env!("CARGO_MANIFEST_DIR").to_string()) }
fn node_available() -> bool {
    std::process::Command::new("node").arg("--version").stdout(std::process::Stdio::null()).stderr(std::process::Stdio::null()).status().map(|s| s.success()).unwrap_or(false)
}
/// run the batch; Ok(result lines) or Err(message)
fn run_node(lines: &[String]) -> Result<Vec<J>, String> {
    let tag = format!("vxreplay-jseval-{}", std::process::id());
    let inp = std::env::temp_dir().join(format!("{}.in.jsonl", tag));
    let outp = std::env::temp_dir().join(format!("{}.out.jsonl", tag));
    std::fs::write(&inp, lines.join("\n") + "\n").map_err(|e| format!("cannot write {:?}: {}", inp, e))?;
    let script = std::path::Path::new(&harness_dir()).join("js").join("evalharness.js");
    let res = std::process::Command::new("node").arg("--stack-size=4000").arg(&script).arg(&inp).arg(&outp).output();
    let out = std::fs::read_to_string(&outp).unwrap_or_default();
    let _ = std::fs::remove_file(&inp);
    let _ = std::fs::remove_file(&outp);
    let res = res.map_err(|e| format!("cannot start node: {}", e))?;
    if !res.status.success() {
        return Err(format!("node {:?} exited with {:?}: {}", script, res.status.code(), String::from_utf8_lossy(&res.stderr).chars().take(600).collect::<String>()));
    }
    out.lines().filter(|l| !l.is_empty()).map(|l| parse_json(l).ok_or_else(|| format!("unreadable result line {:?}", l.chars().take(200).collect::<String>()))).collect()
}
fn clip(s: &str) -> String { if s.chars().count() > 700 { s.chars().take(700).collect::<String>() + "..." } else { s.to_string() } }
/// turn one harness result into a finding (None = the case passed); also returns the number of evaluations
fn judge(case: &Case, r: &J) -> (Option<Outcome>, u64) {
    if let Some(e) = r.get("harnessError") {
        let input = match case { Case::Eval(c) => encode_eval(c, &first_tuple(c)), Case::Parse(c) => encode_parse(c) };
        return (Some(found(input, format!("harness error: {}", clip(e.str().unwrap_or("?"))), "the generated code runs against the stub runtime".into())), 0);
    }
    match case {
        Case::Eval(c) => {
            let n = r.get("compared").map(|x| x.num()).unwrap_or(0.) as u64;
            if !r.get("parsed").map(|x| x.truthy()).unwrap_or(false) {
                let e = r.get("parseError").and_then(|x| x.str()).unwrap_or("?");
                return (Some(found(encode_eval(c, &first_tuple(c)), format!("[C02] generated code for {} does not parse: {}", clip(&c.src), e), "parses in sloppy and strict mode".into())), n);
            }
            if let Some(e) = r.get("flatError").and_then(|x| x.str()) {
                return (Some(found(encode_eval(c, &first_tuple(c)), format!("generator self-check failed ({}): {}", c.flat.clone().unwrap_or_default(), e), "source text and tree reference agree under node".into())), n);
            }
            if let Some(m) = r.get("mismatch").filter(|m| m.truthy()) {
                let tuple: Vec<usize> = m.get("tuple").map(|t| t.arr().iter().map(|x| x.num() as usize).collect()).unwrap_or_default();
                let g = |k: &str| m.get(k).and_then(|x| x.str()).unwrap_or("?").to_string();
                // single-field phase: the witness names the changed field and its new value
                let alt = m.get("altField").and_then(|f| f.str()).map(|f| {
                    let v = if let Some(a) = c.alts.iter().find(|(k, _)| k == f) { a.1.clone() } else { c.pool[m.get("altIndex").map(|x| x.num() as usize).unwrap_or(0) % c.pool.len().max(1)].clone() };
                    (f.to_string(), v)
                });
                let c07 = alt.is_some();
                return (Some(found(
                    encode_eval_alt(c, &tuple, alt),
                    format!("[{} {}] {} with data {}: {} observation {} = {}", if c07 { "C07" } else { prop_of(c) }, c.family, clip(&c.src), g("env"), g("phase"), g("sel"), clip(&g("got"))),
                    format!("{} ({})", clip(&g("want")), if c07 { "value of a fresh evaluation on the changed data: an offered binding-map updater must bring the node there" } else { match prop_of(c) { "C05" => "reference resolver: innermost enclosing scope that introduces the name, else data field", "C12" => "reference decoder: the code points the source denotes", "C13" => "WXML linking: a local definition beats every import, a later import beats an earlier one, imports are not transitive, references resolve by normalised path", _ => "JavaScript value of the fully parenthesised tree" } }),
                )), n);
            }
            (None, n)
        }
        Case::Parse(c) => {
            let fails = r.get("failures").map(|f| f.arr().to_vec()).unwrap_or_default();
            let n = 1;
            if let Some(f) = fails.first() {
                let g = |k: &str| f.get(k).and_then(|x| x.str()).unwrap_or("?").to_string();
                return (Some(found(
                    encode_parse(c),
                    format!("[C02 {}{}] {} does not parse ({} mode, as {}): {}", c.family, if c.dev { ", dev" } else { "" }, g("name"), g("mode"), g("wrap"), g("error")),
                    "every artefact parses in sloppy and strict mode".into(),
                )), n);
            }
            (None, n)
        }
    }
}
fn drive(cases: Vec<Case>, bound: &str) -> Outcome {
    std::panic::set_hook(Box::new(|_| {}));
    if !node_available() {
        return Outcome { found: false, input: String::new(), observed: "node is not available: nothing was executed".into(), expected: String::new(), evaluations: 0, bound: "node not available".into() };
    }
    let script = std::path::Path::new(&harness_dir()).join("js").join("evalharness.js");
    if !script.exists() {
        return Outcome { found: false, input: String::new(), observed: format!("harness script {:?} not found (set VX_REPLAY_DIR): nothing was executed", script), expected: String::new(), evaluations: 0, bound: "harness script not available".into() };
    }
    let mut seen = std::collections::HashSet::new();
    let mut lines = vec![];
    let mut early: Option<(usize, Outcome)> = None;
    for (i, c) in cases.iter().enumerate() {
        match compile(i, c, &mut seen) {
            Compiled::Line(l) => lines.push(l),
            Compiled::Dup => {}
            Compiled::Early(o) => { if std::env::var("VX_JSEVAL_ALL").is_ok() { eprintln!("FINDING {} :: {} :: expected {}", o.input, o.observed, o.expected); } if early.is_none() { early = Some((i, o)); } }
        }
    }
    if std::env::var("VX_JSEVAL_ALL").is_ok() {
        let mut fams: Vec<(String, usize)> = vec![];
        for c in &cases {
            let f = match c { Case::Eval(c) => format!("eval/{}", c.family), Case::Parse(c) => format!("parse/{}", c.family) };
            match fams.iter_mut().find(|(n, _)| *n == f) { Some(x) => x.1 += 1, None => fams.push((f, 1)) }
        }
        eprintln!("CASES {:?}; {} harness lines after de-duplication", fams, lines.len());
    }
    let results = match run_node(&lines) {
        Ok(r) => r,
        Err(e) => return Outcome { found: true, input: String::new(), observed: format!("node run failed: {}", clip(&e)), expected: "the harness runs the batch".into(), evaluations: 0, bound: bound.into() },
    };
    let mut evals = 0u64;
    let mut first: Option<(usize, Outcome)> = early;
    for r in &results {
        let id = r.get("id").map(|x| x.num()).unwrap_or(-1.);
        if id < 0. || id as usize >= cases.len() {
            return Outcome { found: true, input: String::new(), observed: format!("harness result without a case: {}", clip(&r.text())), expected: "one result per case".into(), evaluations: evals, bound: bound.into() };
        }
        let (o, n) = judge(&cases[id as usize], r);
        evals += n;
        if let Some(o) = &o { if std::env::var("VX_JSEVAL_ALL").is_ok() { eprintln!("FINDING {} :: {} :: expected {}", o.input, o.observed, o.expected); } }
        if let Some(o) = o { if first.as_ref().map(|(i, _)| (id as usize) < *i).unwrap_or(true) { first = Some((id as usize, o)); } }
    }
    if results.len() != lines.len() && first.is_none() {
        return Outcome { found: true, input: String::new(), observed: format!("{} results for {} cases", results.len(), lines.len()), expected: "one result per case".into(), evaluations: evals, bound: bound.into() };
    }
    match first {
        Some((_, mut o)) => { o.evaluations = evals; o.bound = bound.into(); o }
        None => Outcome::none(evals, bound),
    }
}
pub fn search() -> Outcome { drive(all_cases(), BOUND) }
pub fn run(input: &str) -> Outcome {
    match decode_input(input) {
        Some(c) => {
            let mut o = drive(vec![c], "single input");
            if o.input.is_empty() { o.input = input.to_string(); }
            if !o.found && o.observed.is_empty() { o.observed = "generated code parses and renders the reference value".into(); }
            o
        }
        None => Outcome { found: false, input: input.into(), observed: "input is not a JSEVAL witness (JSON with k = eval | parse)".into(), expected: String::new(), evaluations: 0, bound: "single input".into() },
    }
}
