//! PATH: exhaustive over (base, rel) with <= 4 segments over {a, b, ., .., ""}, optional leading '/'
//! (the quantifier of C13).  Oracle: the textbook stack algorithm, written here independently.
use crate::Outcome;
use glass_easel_template_compiler::verif_hooks as h;

fn step<'a>(acc: &mut Vec<&'a str>, seg: &'a str) {
    if seg == "." {
    } else if seg == ".." {
        acc.pop();
    } else {
        acc.push(seg);
    }
}
fn ref_normalize(p: &str) -> String {
    let mut acc = vec![];
    for s in p.split('/') {
        step(&mut acc, s);
    }
    acc.join("/")
}
fn ref_resolve(base: &str, rel: &str) -> String {
    let mut acc = vec![];
    if let Some(r) = rel.strip_prefix('/') {
        for s in r.split('/') {
            step(&mut acc, s);
        }
    } else {
        for s in base.split('/') {
            step(&mut acc, s);
        }
        acc.pop();
        for s in rel.split('/') {
            step(&mut acc, s);
        }
    }
    acc.join("/")
}
fn paths() -> Vec<String> {
    let segs = ["a", "b", ".", "..", ""];
    let mut out = vec![];
    for n in 1..=4usize {
        let mut idx = vec![0usize; n];
        loop {
            let p: Vec<&str> = idx.iter().map(|i| segs[*i]).collect();
            out.push(p.join("/"));
            out.push(format!("/{}", p.join("/")));
            let mut k = 0;
            while k < n {
                idx[k] += 1;
                if idx[k] < segs.len() {
                    break;
                }
                idx[k] = 0;
                k += 1;
            }
            if k == n {
                break;
            }
        }
    }
    out
}
fn check(base: &str, rel: &str) -> Option<Outcome> {
    let got = h::path_resolve(base, rel);
    let want = ref_resolve(base, rel);
    if got != want {
        return Some(Outcome { found: true, input: format!("resolve\t{}\t{}", base, rel), observed: got, expected: want, evaluations: 0, bound: String::new() });
    }
    None
}
const BOUND: &str = "all (base, rel) with <= 4 segments over {a,b,.,..,empty}, with and without leading '/'; normalize on the same set";
pub fn search() -> Outcome {
    let ps = paths();
    let mut n = 0u64;
    for p in &ps {
        n += 1;
        let got = h::path_normalize(p);
        let want = ref_normalize(p);
        if got != want {
            return Outcome { found: true, input: format!("normalize\t{}", p), observed: got, expected: want, evaluations: n, bound: BOUND.into() };
        }
    }
    for b in &ps {
        for r in &ps {
            n += 1;
            if let Some(mut o) = check(b, r) {
                o.evaluations = n;
                o.bound = BOUND.into();
                return o;
            }
        }
    }
    Outcome::none(n, BOUND)
}
pub fn run(input: &str) -> Outcome {
    let parts: Vec<&str> = input.split('\t').collect();
    if parts[0] == "normalize" {
        let got = h::path_normalize(parts[1]);
        let want = ref_normalize(parts[1]);
        return Outcome { found: got != want, input: input.into(), observed: got, expected: want, evaluations: 1, bound: "single input".into() };
    }
    let got = h::path_resolve(parts[1], parts[2]);
    let want = ref_resolve(parts[1], parts[2]);
    Outcome { found: got != want, input: input.into(), observed: got, expected: want, evaluations: 1, bound: "single input".into() }
}
