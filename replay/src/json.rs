pub fn quote(s: &str) -> String {
    let mut o = String::from("\"");
    for c in s.chars() {
        match c {
            '"' => o.push_str("\\\""),
            '\\' => o.push_str("\\\\"),
            '\n' => o.push_str("\\n"),
            '\r' => o.push_str("\\r"),
            '\t' => o.push_str("\\t"),
            c if (c as u32) < 0x20 => o.push_str(&format!("\\u{:04x}", c as u32)),
            c => o.push(c),
        }
    }
    o.push('"');
    o
}
