//! BMC (bounded stand-in for the binding-map analysis outside the verifier's reach: Element::for_each_value_mut,
//! init_scopes_and_binding_map_keys, emission in to_proc_gen_write_map): pairs of template fragments
//! (one mappable use of a field, one use in a position the binding map cannot reach) in both orders.
//! Oracle (property C07, second clause + density): a field used in an unreachable position is not advertised
//! in `A={...}`; every advertised field f with `new Array(n)` has exactly the assignments A["f"][0..n-1].
use crate::Outcome;
use glass_easel_template_compiler::TmplGroup;

/// fragments with a mappable use of {F}
const MAPPABLE: &[&str] = &[
    "<view data-i=\"{{F}}\">x</view>", "<view>{{F}}</view>", "<view class=\"{{F}}\">{{F ? 3 : G}}</view>", "<view a=\"{{ [ , F] }}\"/>",
    "<view a=\"{{ x[F] }}\"/>", "<view a=\"{{ f(F, 1) }}\"/>", "<view a=\"{{ {k: F} }}\"/>", "<view>{{F}}-{{G}}</view>",
    // one expression that reads the field more than once: every occurrence gets its own slot, and every slot its updater
    "<view data-a=\"{{F+F}}\">{{F}}</view>", "<view>{{F ? F : G}}</view>", "<view id=\"{{F.x}}-{{F.y}}\" a=\"{{ F[0] + F[1] }}\"/>",
];
/// fragments that use {F} where the map cannot reach
const UNREACHABLE: &[&str] = &[
    "<block wx:if=\"{{F}}\">a</block>", "<block wx:if=\"{{flags[F]}}\">a</block>", "<block wx:for=\"{{F}}\">a</block>",
    "<block wx:if=\"{{z}}\"><view>{{F}}</view></block>", "<block wx:for=\"{{z}}\"><view a=\"{{F}}\"/></block>",
    "<comp><block slot=\"{{F}}\">a</block></comp>", "<view wx:if=\"{{ [ , F] }}\">a</view>", "<template is=\"{{F}}\"/>",
    "<template is=\"t\" data=\"{{ {a: F} }}\"/>", "<include src=\"q\"/><block wx:if=\"{{ a ? F : 1 }}\">x</block>", "<slot name=\"{{F}}\"/>",
    "<block wx:for=\"{{z}}\" wx:key=\"k\"><view>{{ o[F] }}</view></block>",
    // still inside a dynamic subtree after a NESTED dynamic node has been closed (later sibling, later branch)
    "<block wx:for=\"{{z}}\"><div wx:if=\"{{c}}\">x</div><div>{{F}}</div></block>", "<block wx:if=\"{{c}}\"><slot name=\"{{n}}\"/></block><block wx:else><div class=\"{{F}}\"/></block>",
    "<block wx:if=\"{{c}}\"><block wx:for=\"{{z}}\">y</block><view a=\"{{F}}\"/></block>", "<block wx:for=\"{{z}}\"><template is=\"t\"/><view>{{F}}</view></block>",
    "<view wx:if=\"{{c}}\"><block wx:if=\"{{d}}\">1</block><block wx:elif=\"{{e}}\">2</block>{{F}}</view>", "<block wx:if=\"{{c}}\">1</block><block wx:elif=\"{{d}}\"><block wx:for=\"{{z}}\">y</block></block><block wx:else>{{F}}</block>",
];
const BOUND: &str = "11 mappable fragments x 18 unreachable-position fragments (6 of them: behind a closed nested dynamic node inside a dynamic subtree) x {same field, different fields} x both orders; 11 mappable fragments x 6 placements of an <include> (no field may be advertised)";

static MAPS_SEEN: std::sync::atomic::AtomicU64 = std::sync::atomic::AtomicU64::new(0);
fn advertised(js: &str) -> Vec<(String, usize)> {
    // A={"f":new Array(n),...}
    let mut out = vec![];
    let Some(p) = js.find("A={") else { return out };
    let rest = &js[p + 3..];
    let end = rest.find('}').unwrap_or(rest.len());
    for part in rest[..end].split("),") {
        let Some(q1) = part.find('"') else { continue };
        let Some(q2) = part[q1 + 1..].find('"') else { continue };
        let name = part[q1 + 1..q1 + 1 + q2].to_string();
        let Some(a) = part.find("new Array(") else { continue };
        let n: String = part[a + 10..].chars().take_while(|c| c.is_ascii_digit()).collect();
        out.push((name, n.parse().unwrap_or(0)));
    }
    out
}
fn check(tmpl: &str, must_not: &[&str]) -> Option<(String, String)> {
    let mut g = TmplGroup::new();
    g.add_tmpl("q", "<view/>");
    g.add_tmpl("p", tmpl);
    let js = match g.get_tmpl_gen_object("p") { Ok(j) => j, Err(_) => return None };
    let adv = advertised(&js);
    if !adv.is_empty() { MAPS_SEEN.fetch_add(1, std::sync::atomic::Ordering::SeqCst); }
    for (f, n) in &adv {
        if must_not.contains(&f.as_str()) || must_not.contains(&"*") {
            return Some((format!("field {:?} is advertised: A={:?}", f, adv), format!("{:?} not advertised (used where the binding map cannot reach)", f)));
        }
        for i in 0..*n {
            let pat = format!("A[\"{}\"][{}]=", f, i);
            let c = js.matches(&pat).count();
            if c != 1 {
                return Some((format!("{} occurs {} times for advertised field {:?} with new Array({})", pat, c, f, n), "exactly once for each index below n".into()));
            }
        }
    }
    None
}
fn cases() -> Vec<(String, Vec<&'static str>)> {
    let mut v = vec![];
    for m in MAPPABLE {
        for u in UNREACHABLE {
            for same in [true, false] {
                let mf = "fa";
                let uf = if same { "fa" } else { "fb" };
                let a = m.replace("F", mf).replace("G", "fg");
                let b = u.replace("F", uf);
                v.push((format!("{}{}", a, b), vec![uf]));
                v.push((format!("{}{}", b, a), vec![uf]));
            }
        }
    }
    // an <include> renders another file with the same data and that file's own map is not merged: NO field of the
    // including template may be offered a fast path, wherever the include stands relative to the field's uses
    for m in MAPPABLE {
        let a = m.replace("F", "fa").replace("G", "fg");
        for t in [
            format!("<include src=\"q\"/>{}", a), format!("{}<include src=\"q\"/>", a), format!("<view><include src=\"q\"/></view>{}", a),
            format!("{}<include src=\"q\"/>{}", a, m.replace("F", "fb").replace("G", "fg")), format!("<block wx:if=\"{{{{z}}}}\"><include src=\"q\"/></block>{}", a),
            format!("<view>x</view><include src=\"q.wxml\"/><view>{}</view>", a),
        ] {
            v.push((t, vec!["*"]));
        }
    }
    v
}
pub fn search() -> Outcome {
    std::panic::set_hook(Box::new(|_| {}));
    let mut n = 0u64;
    for (t, bad) in cases() {
        n += 1;
        let t2 = t.clone();
        let b2 = bad.clone();
        match std::panic::catch_unwind(move || check(&t2, &b2)) {
            Ok(Some((got, want))) => return Outcome { found: true, input: format!("{}\t{}", t, bad.join(",")), observed: got, expected: want, evaluations: n, bound: BOUND.into() },
            Err(_) => return Outcome { found: true, input: format!("{}\t{}", t, bad.join(",")), observed: "panic".into(), expected: "no panic".into(), evaluations: n, bound: BOUND.into() },
            _ => {}
        }
    }
    Outcome::none(n, &format!("{}; a non-empty binding map `A={{..}}` was recognised in {} of {} generated codes (0 would mean the textual oracle no longer applies)", BOUND, MAPS_SEEN.load(std::sync::atomic::Ordering::SeqCst), n))
}
pub fn run(input: &str) -> Outcome {
    let (t, bad) = input.split_once('\t').unwrap();
    let bad: Vec<&str> = bad.split(',').collect();
    match check(t, &bad) {
        Some((got, want)) => Outcome { found: true, input: input.into(), observed: got, expected: want, evaluations: 1, bound: "single input".into() },
        None => Outcome { found: false, input: input.into(), observed: String::new(), expected: String::new(), evaluations: 1, bound: "single input".into() },
    }
}
