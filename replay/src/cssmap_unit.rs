//! CSSMAP (bounded stand-in for STEP / source positions in lib.rs): all concatenations of <= 4 directed
//! pieces through the real StyleSheetTransformer.  Oracle (property C19): every source-map entry's source
//! position lies inside the source, on a character boundary, and the source text there starts a token --
//! it is not whitespace and not the start of a comment; generated columns are non-decreasing.
//! Second family: `@import` with every subset of layer()/supports()/media clauses under an import sign -- the wrappers
//! `@layer x{`, `@supports(..){`, `@media ..{` are synthesised by one clause each ("a token synthesised by a rewrite
//! points at the construct that triggered it"), so each closing `}` must carry the source position of its own `{`.
use crate::Outcome;
use glass_easel_stylesheet_compiler::{StyleSheetOptions, StyleSheetTransformer};

const PIECES: &[&str] = &[".a", "/*c*/", " ", "{", "}", "color:red", ";", ":is(", ")", "calc(1px + ", "2px", "1rpx", ",", "#b", "[x]", "\n", "\u{1F600}", "width:", "@media (min-width:1px)", "\u{feff}"];
const BOUND: &str = "all concatenations of <= 4 pieces from 20 directed pieces (selectors, comments, whitespace, blocks, calc, rpx, astral, a byte order mark), default options, prefix+rpx options and prefix+sign options (the sign comment points at its class name); 60 :host rules (5 heads x 3 bodies x 4 surroundings) with conversion on, normal and low-priority output; plus 8 clause subsets x 3 separators x 2 trailers of @import under an import sign";

fn u16_to_byte(line: &str, col: usize) -> Option<usize> {
    let mut u = 0;
    for (b, c) in line.char_indices() {
        if u == col { return Some(b); }
        u += c.len_utf16();
        if u > col { return None; }
    }
    if u == col { Some(line.len()) } else { None }
}
fn check(css: &str) -> Option<(String, String)> {
    const ALL: &[char] = &['@', '#', '{', '[', '(', ':', ',', ';'];
    // in the outputs of a :host conversion the selector `[wx-host="p"],[is="h"]` is synthesised: only characters that are always copied
    const HOST: &[char] = &['@', '#', '{', '(', ';'];
    for k in 0..5 {
        let opts = match k {
            0 => StyleSheetOptions::default(),
            1 => StyleSheetOptions { class_prefix: Some("p".into()), rpx_ratio: 750., ..Default::default() },
            4 => StyleSheetOptions { class_prefix: Some("p".into()), class_prefix_sign: Some("S".into()), rpx_ratio: 750., ..Default::default() },
            _ => StyleSheetOptions { class_prefix: Some("p".into()), rpx_ratio: 750., convert_host: true, host_is: Some("h".into()), ..Default::default() },
        };
        if (k == 2 || k == 3) && !css.to_ascii_lowercase().contains("host") { continue; }
        if k == 4 && !css.contains('.') { continue; }
        let low = k == 3;
        let copied = if k == 2 || k == 3 { HOST } else { ALL };
        let pick = |t: StyleSheetTransformer| { if k == 2 || k == 3 { let (n, l) = t.output_and_low_priority_output(); if low { l } else { n } } else { t.output() } };
        let mut text = String::new();
        pick(StyleSheetTransformer::from_css("p.wxss", css, opts.clone())).write_str(&mut text).unwrap();
        let text16: Vec<u16> = text.encode_utf16().collect();
        let out = pick(StyleSheetTransformer::from_css("p.wxss", css, opts));
        let sm = out.extract_source_map();
        let lines: Vec<&str> = css.split('\n').collect();
        let mut last = 0u32;
        for tk in sm.tokens() {
            if tk.get_dst_col() < last {
                return Some((format!("generated columns decrease: {} after {}", tk.get_dst_col(), last), "non-decreasing".into()));
            }
            last = tk.get_dst_col();
            let Some(line) = lines.get(tk.get_src_line() as usize) else {
                return Some((format!("source line {} does not exist", tk.get_src_line()), "an existing line".into()));
            };
            let Some(b) = u16_to_byte(line, tk.get_src_col() as usize) else {
                return Some((format!("source column {} of line {} is not a character boundary", tk.get_src_col(), tk.get_src_line()), "a boundary".into()));
            };
            let rest = &line[b..];
            if rest.starts_with("/*") {
                return Some((format!("entry at generated column {} points at source ({}, {}) = {:?}", tk.get_dst_col(), tk.get_src_line(), tk.get_src_col(), rest.chars().take(8).collect::<String>()), "the start of a token, not a comment".into()));
            }
            // a copied token maps to the start of its input token: never into whitespace (except the single space written for a
            // whitespace run), and an at-keyword / hash / opening bracket in the output maps to the same character in the source
            let out_ch = text16.get(tk.get_dst_col() as usize).and_then(|u| char::from_u32(*u as u32));
            let src_ch = rest.chars().next();
            if let (Some(o), Some(sc)) = (out_ch, src_ch) {
                if sc.is_whitespace() && o != ' ' {
                    return Some((format!("entry at generated column {} (output {:?}) points into whitespace at source ({}, {})", tk.get_dst_col(), o, tk.get_src_line(), tk.get_src_col()), "the start of the input token".into()));
                }
                if copied.contains(&o) && sc != o {
                    return Some((format!("entry at generated column {} is {:?} in the output but the source at ({}, {}) reads {:?}", tk.get_dst_col(), o, tk.get_src_line(), tk.get_src_col(), rest.chars().take(12).collect::<String>()), "the same punctuation / at-keyword in the source".into()));
                }
            }
            // the prefix-sign comment is synthesised by the rewrite of one class selector: it points at that class name
            // (the identifier directly behind a `.`)
            if k == 4 && text16.get(tk.get_dst_col() as usize..tk.get_dst_col() as usize + 5).map(|w| String::from_utf16_lossy(w)) == Some("/*S*/".to_string()) {
                let after_dot = b > 0 && line.as_bytes()[b - 1] == b'.';
                if !after_dot {
                    return Some((format!("the prefix-sign comment at generated column {} points at source ({}, {}) = {:?}", tk.get_dst_col(), tk.get_src_line(), tk.get_src_col(), rest.chars().take(8).collect::<String>()), "the class name whose rewrite produced it".into()));
                }
            }
            // a rewritten token (prefixed class, converted rpx length) carries the ORIGINAL spelling as its name: the
            // source text at the mapped position starts with it
            if let Some(name) = tk.get_name() {
                if !rest.starts_with(name) {
                    return Some((format!("entry at generated column {} has name {:?} but the source at ({}, {}) reads {:?}", tk.get_dst_col(), name, tk.get_src_line(), tk.get_src_col(), rest.chars().take(12).collect::<String>()), "a name that is the source spelling of the token".into()));
                }
            }
        }
    }
    None
}
fn check_import(css: &str) -> Option<(String, String)> {
    let opts = StyleSheetOptions { import_sign: Some("S".into()), ..Default::default() };
    let t = StyleSheetTransformer::from_css("p.wxss", css, opts);
    let out = t.output();
    let mut text = Vec::new();
    out.write(&mut text).ok()?;
    let text = String::from_utf8(text).ok()?;
    let sm = out.extract_source_map();
    let at = |col: usize| -> Option<(u32, u32)> {
        sm.tokens().find(|t| t.get_dst_line() == 0 && t.get_dst_col() as usize == col).map(|t| (t.get_src_line(), t.get_src_col()))
    };
    if !text.is_ascii() || text.contains('"') || text.contains('\'') { return None; }
    let mut stack = vec![];
    for (i, c) in text.char_indices() {
        if c == '{' { stack.push(i); }
        if c == '}' {
            let Some(o) = stack.pop() else { return Some((format!("output {:?} is unbalanced", text), "balanced brackets".into())) };
            let (a, b) = (at(o), at(i));
            if a.is_none() || b.is_none() || a != b {
                return Some((format!("output {:?}: `{{` at column {} maps to {:?} but its `}}` at column {} maps to {:?}", text, o, a, i, b), "a synthesised closing bracket carries the source position of its own opening bracket".into()));
            }
        }
    }
    None
}
fn import_inputs() -> Vec<String> {
    let mut v = vec![];
    for mask in 0..8u32 {
        for sep in [" ", "\n  ", " /*c*/ "] {
            for trailer in ["", "\n.b{top:0}"] {
                let mut s = String::from("@import './a'");
                if mask & 1 != 0 { s += sep; s += "layer(a)"; }
                if mask & 2 != 0 { s += sep; s += "supports(color: red)"; }
                if mask & 4 != 0 { s += sep; s += "print and (min-width: 10px)"; }
                s += ";"; s += trailer;
                v.push(s);
            }
        }
    }
    v
}
pub fn search() -> Outcome {
    std::panic::set_hook(Box::new(|_| {}));
    let n = PIECES.len();
    let mut count = 0u64;
    for css in import_inputs() {
        count += 1;
        let c2 = css.clone();
        match std::panic::catch_unwind(move || check_import(&c2)) {
            Ok(Some((got, want))) => return Outcome { found: true, input: css, observed: got, expected: want, evaluations: count, bound: BOUND.into() },
            Err(_) => return Outcome { found: true, input: css, observed: "panic".into(), expected: "no panic".into(), evaluations: count, bound: BOUND.into() },
            _ => {}
        }
    }
    // :host rules with conversion on, both outputs: the block and everything in it are copied tokens
    for head in [":host", ":host ", ":host\n", "/*\u{e9}\u{1F600}*/ :host\n\t", ":HOST/*c*/"] {
        for body in ["{color:red}", "{width:1rpx;top:0}", "{\n  margin:calc(1rpx + 2px) #fff;\n}"] {
            for (pre, post) in [("", ""), (".a{b:c}\n", ".d{e:f}"), ("@media (min-width:1px){\n", "}"), ("@supports (x:y){@media print{", "}}")] {
                let css = format!("{}{}{}{}", pre, head, body, post);
                count += 1;
                let c2 = css.clone();
                match std::panic::catch_unwind(move || check(&c2)) {
                    Ok(Some((got, want))) => return Outcome { found: true, input: css, observed: got, expected: want, evaluations: count, bound: BOUND.into() },
                    Err(_) => return Outcome { found: true, input: css, observed: "panic".into(), expected: "no panic".into(), evaluations: count, bound: BOUND.into() },
                    _ => {}
                }
            }
        }
    }
    for d in 1..=4usize {
        let mut idx = vec![0usize; d];
        loop {
            let css: String = idx.iter().map(|i| PIECES[*i]).collect();
            count += 1;
            let c2 = css.clone();
            match std::panic::catch_unwind(move || check(&c2)) {
                Ok(Some((got, want))) => return Outcome { found: true, input: css, observed: got, expected: want, evaluations: count, bound: BOUND.into() },
                Err(_) => return Outcome { found: true, input: css, observed: "panic".into(), expected: "no panic".into(), evaluations: count, bound: BOUND.into() },
                _ => {}
            }
            let mut k = 0;
            while k < d { idx[k] += 1; if idx[k] < n { break; } idx[k] = 0; k += 1; }
            if k == d { break; }
        }
    }
    Outcome::none(count, BOUND)
}
pub fn run(input: &str) -> Outcome {
    let r = if input.starts_with("@import") { check_import(input).or_else(|| check(input)) } else { check(input) };
    match r {
        Some((got, want)) => Outcome { found: true, input: input.into(), observed: got, expected: want, evaluations: 1, bound: "single input".into() },
        None => Outcome { found: false, input: input.into(), observed: String::new(), expected: String::new(), evaluations: 1, bound: "single input".into() },
    }
}
