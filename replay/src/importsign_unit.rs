//! IMPORTSIGN (bounded, deterministic stand-in for property C18 "@import is replaced by a faithful placeholder"):
//! stylesheets containing `@import` rules, through the real `StyleSheetTransformer`, checked against an oracle
//! written from the PROPERTY TEXT (the implementation is consulted only for the parts of a sheet that are NOT
//! imports, see clause 6).
//!
//! WHAT IS ENUMERATED (all deterministic; the only "randomness" is a fixed-seed LCG written below):
//!   family A  paths:      every path of `PATHS` (ASCII, spaces, `%`, `%2F`, `*/`, `/*`, both quotes, backslashes,
//!                         `?query#frag`, relative / absolute / URL, CJK, astral, combining marks, control characters,
//!                         the empty path) x 5 spellings (`"…"`, `'…'`, `url(…)`, `url("…")`, `url( '…' )`) x 2 escape
//!                         styles (minimal / every character as a CSS hex escape) x {no condition, layer+supports+media}
//!                         x 4 sheet shapes (alone, before a rule, after `@charset`, AFTER a rule) x 3 configurations;
//!   family B  conditions: 3 paths x 3 spellings x `LAYERS` x `SUPPORTS` x `MEDIA` (every combination) x 4 separator
//!                         styles (space, newline, comment, none) x all 7 configurations;
//!   family C  positions:  every shape of `SHAPES` (at the top, after other imports, after `@charset` / `@layer x;`
//!                         statements, after ordinary rules / `@media` / `@font-face` / `:host` blocks, several imports
//!                         per sheet, followed by ordinary rules, last import without `;`) x 200 LCG-drawn import
//!                         specifications per shape x all 7 configurations;
//!   family D  directed:   `DIRECTED` sheets (ill-formed or exotic imports; `@IMPORT`; `LAYER(..)`), weak oracle only
//!                         (clause 7) unless the import is well-formed;
//!   family E  composites: 12000 LCG-drawn sheets (optional `@charset`, 0-2 `@layer` statements, then 1-6 imports and
//!                         ordinary rules in any order) under an LCG-drawn configuration.
//! Configurations (`CFGS`): first letter `S` = import_sign Some("SIGN"), `N` = None; then `p` class_prefix "p",
//! `c` class_prefix_sign "CPS", `h` convert_host + host_is "IS", `r` rpx_ratio 375.
//!
//! ORACLE.  The input is split into top-level rules by this file's own splitter (on cssparser's tokeniser); every
//! `@import` rule is parsed by this file against the CSS grammar
//! `@import [<string>|<url>] [layer | layer(<name>)]? [supports(<cond>)]? <media-query-list>? ;`.
//! In the search the intended path value is additionally carried on the side by the generator (which writes the CSS
//! spelling with its own escaper), and a disagreement between the two is reported as a finding.
//! The output is re-tokenised (comments kept, blocks flattened to explicit open/close tokens, a block that is closed
//! only by the end of the text becomes `<unclosed }>`).  With an import sign:
//!   1. each well-formed import corresponds, at the place where it stood (relative order with all surrounding rules),
//!      to exactly `[@layer <name> {] [@supports (<cond>) {] [@media <queries> {] /*SIGN <text>*/ } } }` -- same layer
//!      name tokens, same supports tokens (a bare `@supports <cond>` is accepted too when <cond> is not a declaration),
//!      same media tokens, nesting order layer > supports > media, every opened block explicitly closed;
//!   2. `<text>` percent-decodes (decoder below: `%XX` -> byte, everything else literal, a `%` not followed by two hex
//!      digits is an error, result must be UTF-8) to EXACTLY the path value;
//!   3. the comment is one comment token of the output, i.e. the path cannot terminate it early (a premature `*/`
//!      makes the rest of the output fail clause 1/6);
//!   4. an import that stands after anything other than `@charset`, `@layer …;` statements and other imports is still
//!      rewritten (clause 1) and a warning of kind IllegalImportPosition is reported on its line;
//! without an import sign:
//!   5. each import passes through as `@import <path> <same condition tokens> ;` where <path> is a string or url token
//!      (or `url("…")`) carrying exactly the path value;
//! in both cases:
//!   6. every other top-level rule appears, in order, with exactly the tokens the transformer produces for that rule
//!      alone under the same options ("the rest of the sheet is unaffected"; whitespace is not compared except inside
//!      `selector(...)`);
//!   7. for an import that is ill-formed per the grammar above the oracle makes no claim about the import itself; the
//!      only demand is: some sequence of complete rules (possibly empty) stands at its place, and all following rules
//!      still satisfy clauses 1-6 (no unclosed block, nothing swallowed into a junk rule).
//! A panic of the transformer is a finding.
//!
//! KNOWN: none open on f79f80c (`KNOWN` is empty; the `IMPORTSIGN_STRICT=<id>` switch stays for future entries and
//! for the strict-only clauses W and F below).  Found by this unit on fb34d58 and repaired since, now ordinary fully
//! asserted inputs: url(...) spellings under a sign were dropped silently (ebd5d88); a bare `layer` keyword became
//! `@media layer{` (f79f80c); a dotted layer name was class-rewritten under a class prefix, `a.b` -> `a.p--b`
//! (3210c50); `@IMPORT` / `LAYER(` / `SUPPORTS(` in capitals were not recognised (de799fa, 0e38f6a).
//! `IMPORTSIGN_STATS=1` makes `search` print how many imports were asserted in full / by clause 7 only.
//!
//! NOT COVERED / NARROWED:
//!   - F: if the transformer reports a Fatal `unexpected character` warning for a sheet with an ill-formed import,
//!     clause 7 is NOT asserted and nothing but `no panic` is demanded.  Declared behaviour: that warning level is
//!     documented as "can cause continuous compiling issues, such as mismatched braces", and the property text says
//!     nothing about ill-formed imports.  Observed there: `@import "a" supports(x) 123;` leaves `@supports(x){`
//!     unclosed around the rest of the sheet; `@import "a" foo(bar);` emits the placeholder and then swallows the next
//!     rule into a junk rule `foo(bar); .b{...}`.  `IMPORTSIGN_STRICT=F` asserts clause 7 all the same (for `run`).
//!   - W: "no warning for a well-placed import" is not in the property text (it only demands that late imports are
//!     flagged).  Observed: every import except the very first rule of the sheet is flagged IllegalImportPosition,
//!     also the second of two leading imports and an import after `@charset` / `@layer x;`.  `IMPORTSIGN_STRICT=W`
//!     asserts it (e.g. `S|@import "a";^n@import "b";`).
//!   - whether the placeholder's wrapper order layer > supports > media is the *only* equivalent nesting (the oracle
//!     demands exactly that order, which is the order the CSS @import grammar defines and the unit tests show);
//!   - imports nested inside blocks, `url()` modifiers, `<general-enclosed>` media queries (only clause 7);
//!   - rpx inside import conditions and `.class` inside `supports(selector())` under a class prefix (documented
//!     rewrites of other properties; such inputs are not generated);
//!   - the low-priority output (`:host` rules) and the source map;
//!   - import signs other than "SIGN" (a sign containing `*/` is a configuration error, not an input).
use crate::Outcome;
use cssparser::{ParseError, Parser, ParserInput, Token};
use glass_easel_stylesheet_compiler::error::ParseErrorKind;
use glass_easel_stylesheet_compiler::{StyleSheetOptions, StyleSheetTransformer};
use std::cell::RefCell;
use std::collections::HashMap;

const SIGN: &str = "SIGN";
const WS: &str = "\u{2423}";

/// (id, input as accepted by `run`, description).  `IMPORTSIGN_STRICT=<id> vxreplay IMPORTSIGN run '<input>'` exits 1
/// with the observation; without the variable the same input (and the whole search) is clean.
/// None open on f79f80c (the former K1, K2, K3, K5 are repaired, see the module doc; K4 is the narrowing F).
pub const KNOWN: &[(&str, &str, &str)] = &[];

const BOUND: &str = "A: 75 paths (ASCII, spaces, %, %2F, */, /*, quotes, backslashes, ?query#frag, relative/absolute/URL, CJK, astral, combining, controls, empty) x 5 spellings (\"..\", '..', url(..), url(\"..\"), url( '..' )) x 2 escape styles x {no condition, layer(a) supports(display: grid) print and (min-width: 10px)} x 4 shapes (alone, before a rule, after @charset, after a rule) x cfg {S, N, Spc}; B: 3 paths x 3 spellings x 5 layer forms x 7 supports forms x 10 media query lists x 4 separator styles x 7 cfgs; C: 18 sheet shapes (top, after imports, after @charset/@layer statements, after rules/@media/@font-face/:host blocks, up to 4 imports, missing final `;`) x 200 LCG-drawn import specifications x 7 cfgs; D: 38 directed ill-formed/exotic sheets x 7 cfgs (clause 7 only for the ill-formed imports); E: 12000 LCG-drawn sheets of 1-6 imports/rules after optional @charset and 0-2 @layer statements, LCG-drawn cfg.  cfgs: S/N = import sign SIGN/none, p class prefix, c class-prefix sign, h convert_host, r rpx_ratio 375.  Narrowed: a sheet with an ill-formed import AND a Fatal `unexpected character` warning is checked for `no panic` only (F); N: 7 rule-bearing at-rule wrappers (also nested two deep) x 4 import forms x {alone, before a rule} x cfg {S, N, Sp}: every nested import is replaced by one placeholder (or passes through without a sign), blocks stay balanced";

fn strict(id: &str) -> bool {
    static S: std::sync::OnceLock<String> = std::sync::OnceLock::new();
    let s = S.get_or_init(|| std::env::var("IMPORTSIGN_STRICT").unwrap_or_default());
    s.split(',').any(|x| x == id || x == "all" || x == "1")
}

// ------------------------------------------------------------------------------------------------------------
// shell-safe input encoding: `<cfg>|<css>` where in <css> `^q` = `'`, `^n` = newline, `^^` = `^`, `^u{HEX}` = any char
// ------------------------------------------------------------------------------------------------------------
fn enc(css: &str) -> String {
    let mut o = String::new();
    for c in css.chars() {
        match c {
            '\'' => o.push_str("^q"),
            '\n' => o.push_str("^n"),
            '^' => o.push_str("^^"),
            c if (c as u32) < 0x20 || c as u32 == 0x7f || c == '\u{feff}' || c == '\u{a0}' || c == '\u{301}' || c as u32 >= 0xf0000 => o.push_str(&format!("^u{{{:x}}}", c as u32)),
            c => o.push(c),
        }
    }
    o
}
fn dec(s: &str) -> Option<String> {
    let mut o = String::new();
    let mut it = s.chars();
    while let Some(c) = it.next() {
        if c != '^' { o.push(c); continue; }
        match it.next()? {
            'q' => o.push('\''),
            'n' => o.push('\n'),
            '^' => o.push('^'),
            'u' => {
                if it.next()? != '{' { return None; }
                let mut h = String::new();
                loop { let d = it.next()?; if d == '}' { break; } h.push(d); }
                o.push(char::from_u32(u32::from_str_radix(&h, 16).ok()?)?);
            }
            _ => return None,
        }
    }
    Some(o)
}

// ------------------------------------------------------------------------------------------------------------
// configurations
// ------------------------------------------------------------------------------------------------------------
#[derive(Clone, Copy, PartialEq, Eq, Hash)]
struct Cfg { sign: bool, prefix: bool, prefix_sign: bool, host: bool, rpx: bool }
const CFGS: &[&str] = &["S", "N", "Sp", "Np", "Spc", "Shr", "Nhr"];
fn parse_cfg(s: &str) -> Option<Cfg> {
    let mut c = Cfg { sign: false, prefix: false, prefix_sign: false, host: false, rpx: false };
    let mut it = s.chars();
    match it.next()? { 'S' => c.sign = true, 'N' => {} _ => return None }
    for f in it {
        match f { 'p' => c.prefix = true, 'c' => c.prefix_sign = true, 'h' => c.host = true, 'r' => c.rpx = true, _ => return None }
    }
    Some(c)
}
fn options(c: Cfg) -> StyleSheetOptions {
    StyleSheetOptions {
        class_prefix: c.prefix.then(|| "p".to_string()),
        class_prefix_sign: c.prefix_sign.then(|| "CPS".to_string()),
        rpx_ratio: if c.rpx { 375. } else { 750. },
        import_sign: c.sign.then(|| SIGN.to_string()),
        convert_host: c.host,
        host_is: c.host.then(|| "IS".to_string()),
    }
}
/// (normal output text, lines of the IllegalImportPosition warnings, number of other warnings)
fn compile(c: Cfg, css: &str) -> (String, Vec<u32>, usize) {
    let t = StyleSheetTransformer::from_css("p.wxss", css, options(c));
    let mut lines = vec![];
    let mut other = 0;
    for w in t.warnings() {
        if w.kind == ParseErrorKind::IllegalImportPosition { lines.push(w.location.start.line); } else { other += 1; }
    }
    let mut s = String::new();
    t.output().write_str(&mut s).unwrap();
    (s, lines, other)
}

// ------------------------------------------------------------------------------------------------------------
// canonical token list
// ------------------------------------------------------------------------------------------------------------
/// Flattens the tokens of `p` into `out`; returns the byte index at which this block's content ended.
/// Whitespace is dropped, except (as `WS`) inside `selector(...)` where it can be a descendant combinator.
fn canon_block(p: &mut Parser, keep_comments: bool, sel: bool, out: &mut Vec<String>) -> usize {
    let mut pending_ws = false;
    let block_start = out.len();
    loop {
        let tok = match p.next_including_whitespace_and_comments() { Ok(t) => t.clone(), Err(_) => break };
        match &tok {
            Token::WhiteSpace(_) => { pending_ws = true; continue; }
            Token::Comment(c) => {
                if keep_comments { out.push(format!("comment:{}", c)); pending_ws = false; }
                continue;
            }
            _ => {}
        }
        if pending_ws && sel && out.len() > block_start {
            let prev_comb = matches!(out.last().unwrap().as_str(), "," | ">" | "+" | "~");
            let next_comb = matches!(&tok, Token::Comma | Token::Delim('>') | Token::Delim('+') | Token::Delim('~'));
            if !prev_comb && !next_comb { out.push(WS.into()); }
        }
        pending_ws = false;
        let block = match &tok {
            Token::Function(n) => Some((format!("fn:{}(", n), ")", sel || n.eq_ignore_ascii_case("selector"))),
            Token::ParenthesisBlock => Some(("(".to_string(), ")", sel)),
            Token::SquareBracketBlock => Some(("[".to_string(), "]", sel)),
            Token::CurlyBracketBlock => Some(("{".to_string(), "}", false)),
            _ => None,
        };
        if let Some((open, close, inner_sel)) = block {
            out.push(open);
            let mut inner_end = usize::MAX;
            let _ = p.parse_nested_block(|q| -> Result<(), ParseError<()>> { inner_end = canon_block(q, keep_comments, inner_sel, out); Ok(()) });
            let closed = p.position().byte_index() == inner_end.wrapping_add(1);
            out.push(if closed { close.to_string() } else { format!("<unclosed {}>", close) });
            continue;
        }
        out.push(match &tok {
            Token::Ident(v) => format!("id:{}", v),
            Token::AtKeyword(v) => format!("@{}", v.to_ascii_lowercase()),
            Token::Hash(v) | Token::IDHash(v) => format!("#{}", v),
            Token::QuotedString(v) => format!("str:{}", v),
            Token::UnquotedUrl(v) => format!("url:{}", v),
            Token::Delim(c) => c.to_string(),
            Token::Number { value, .. } => format!("num:{:.4e}", *value as f64),
            Token::Percentage { unit_value, .. } => format!("num:{:.4e}%", *unit_value as f64),
            Token::Dimension { value, unit, .. } => format!("num:{:.4e}{}", *value as f64, unit),
            Token::Colon => ":".into(),
            Token::Semicolon => ";".into(),
            Token::Comma => ",".into(),
            Token::IncludeMatch => "~=".into(),
            Token::DashMatch => "|=".into(),
            Token::PrefixMatch => "^=".into(),
            Token::SuffixMatch => "$=".into(),
            Token::SubstringMatch => "*=".into(),
            Token::CDO => "<!--".into(),
            Token::CDC => "-->".into(),
            Token::BadUrl(v) => format!("<bad url {}>", v),
            Token::BadString(v) => format!("<bad string {}>", v),
            Token::CloseParenthesis => "<stray )>".into(),
            Token::CloseSquareBracket => "<stray ]>".into(),
            Token::CloseCurlyBracket => "<stray }>".into(),
            _ => unreachable!(),
        });
    }
    p.position().byte_index()
}
fn canon_str(css: &str, keep_comments: bool) -> Vec<String> {
    let mut pi = ParserInput::new(css);
    let mut p = Parser::new(&mut pi);
    let mut out = vec![];
    canon_block(&mut p, keep_comments, false, &mut out);
    out
}
fn is_open(t: &str) -> bool { t == "(" || t == "[" || t == "{" || (t.starts_with("fn:") && t.ends_with('(')) }
fn is_close(t: &str) -> bool { t == ")" || t == "]" || t == "}" }
fn is_broken(t: &str) -> bool { t.starts_with("<unclosed ") || t.starts_with("<stray ") }
fn show(v: &[String]) -> String { v.join(" ") }

// ------------------------------------------------------------------------------------------------------------
// the oracle's own model of the input sheet
// ------------------------------------------------------------------------------------------------------------
struct Import {
    keyword: String,
    path: String,
    layer: Option<Vec<String>>,
    supports: Option<Vec<String>>,
    media: Vec<String>,
    /// canonical tokens of everything after the path, without the final `;`
    rest: Vec<String>,
    /// Some(reason) if the rule does not fit the @import grammar stated in the module doc
    ill_formed: Option<String>,
    line: u32,
}
enum Kind { Import(Import), Statement, Other }
struct Item { text: String, kind: Kind }

fn split_items(css: &str) -> Vec<Item> {
    let mut pi = ParserInput::new(css);
    let mut p = Parser::new(&mut pi);
    let mut items = vec![];
    loop {
        p.skip_whitespace();
        let start = p.position();
        let line = p.current_source_location().line;
        let first = match p.next() { Ok(t) => t.clone(), Err(_) => break };
        let at = match &first { Token::AtKeyword(n) => Some(n.to_ascii_lowercase()), _ => None };
        let mut tok = first;
        let mut ended_by_block = false;
        loop {
            match &tok {
                Token::Semicolon if at.is_some() => break,
                Token::CurlyBracketBlock => {
                    let _ = p.parse_nested_block(|_| -> Result<(), ParseError<()>> { Ok(()) });
                    ended_by_block = true;
                    break;
                }
                _ => {}
            }
            tok = match p.next() { Ok(t) => t.clone(), Err(_) => break };
        }
        let text = p.slice_from(start).to_string();
        let kind = match at.as_deref() {
            Some("import") => Kind::Import(parse_import(&text, line)),
            Some("charset") | Some("layer") if !ended_by_block => Kind::Statement,
            _ => Kind::Other,
        };
        items.push(Item { text, kind });
    }
    items
}

fn parse_import(text: &str, line: u32) -> Import {
    let mut pi = ParserInput::new(text);
    let mut p = Parser::new(&mut pi);
    let mut imp = Import { keyword: String::new(), path: String::new(), layer: None, supports: None, media: vec![], rest: vec![], ill_formed: None, line };
    if let Ok(Token::AtKeyword(k)) = p.next() { imp.keyword = k.to_string(); }
    match p.next().map(|t| t.clone()) {
        Ok(Token::QuotedString(v)) => imp.path = v.to_string(),
        Ok(Token::UnquotedUrl(v)) => imp.path = v.to_string(),
        Ok(Token::Function(n)) if n.eq_ignore_ascii_case("url") => {
            let r = p.parse_nested_block(|q| -> Result<String, ParseError<()>> {
                let v = q.expect_string()?.to_string();
                q.expect_exhausted()?;
                Ok(v)
            });
            match r { Ok(v) => imp.path = v, Err(_) => imp.ill_formed = Some("url() with anything but one string".into()) }
        }
        _ => { imp.ill_formed = Some("no <string> or <url> after @import".into()); return imp; }
    }
    let after_path = p.state();
    // [ layer | layer(<layer-name>) ]?
    let st = p.state();
    match p.next().map(|t| t.clone()) {
        Ok(Token::Ident(n)) if n.eq_ignore_ascii_case("layer") => { imp.layer = Some(vec![]); }
        Ok(Token::Function(n)) if n.eq_ignore_ascii_case("layer") => {
            let mut v = vec![];
            let _ = p.parse_nested_block(|q| -> Result<(), ParseError<()>> { canon_block(q, false, false, &mut v); Ok(()) });
            let ok = !v.is_empty() && v.iter().enumerate().all(|(i, t)| if i % 2 == 0 { t.starts_with("id:") } else { t == "." }) && v.len() % 2 == 1;
            if !ok { imp.ill_formed = Some("layer() argument is not a layer name".into()); }
            imp.layer = Some(v);
        }
        _ => p.reset(&st),
    }
    // [ supports(<supports-condition> | <declaration>) ]?
    let st = p.state();
    match p.next().map(|t| t.clone()) {
        Ok(Token::Function(n)) if n.eq_ignore_ascii_case("supports") => {
            let mut v = vec![];
            let _ = p.parse_nested_block(|q| -> Result<(), ParseError<()>> { canon_block(q, false, false, &mut v); Ok(()) });
            if v.is_empty() { imp.ill_formed = Some("empty supports()".into()); }
            imp.supports = Some(v);
        }
        _ => p.reset(&st),
    }
    // <media-query-list>? ;
    let mut v = vec![];
    canon_block(&mut p, false, false, &mut v);
    if v.last().map(|s| s == ";").unwrap_or(false) { v.pop(); }
    if v.iter().any(|t| t == "{" || t == ";" || is_broken(t)) {
        imp.ill_formed.get_or_insert("a block, a second `;` or an unbalanced bracket inside the import".into());
    } else if v.iter().any(|t| t.eq_ignore_ascii_case("id:layer")) {
        // Media Queries 4: <media-type> excludes `layer`, so `supports(..) layer` / `layer layer` is not a valid list
        imp.ill_formed.get_or_insert("`layer` after the layer position (it is not a <media-type>)".into());
    } else if let Some(f) = v.first() {
        if !(f.starts_with("id:") || f == "(") {
            imp.ill_formed.get_or_insert(format!("media query list starts with `{}` (neither an identifier nor `(`)", f));
        }
    }
    imp.media = v;
    p.reset(&after_path);
    let mut r = vec![];
    canon_block(&mut p, false, false, &mut r);
    if r.last().map(|s| s == ";").unwrap_or(false) { r.pop(); }
    if r.iter().any(|t| is_broken(t)) { imp.ill_formed.get_or_insert("an unbalanced bracket inside the import".into()); }
    imp.rest = r;
    imp
}

// ------------------------------------------------------------------------------------------------------------
// percent decoding (clause 2)
// ------------------------------------------------------------------------------------------------------------
fn pct_decode(s: &str) -> Result<String, String> {
    let b = s.as_bytes();
    let mut o = vec![];
    let mut i = 0;
    let hex = |x: u8| -> Option<u8> { (x as char).to_digit(16).map(|d| d as u8) };
    while i < b.len() {
        if b[i] == b'%' {
            match (b.get(i + 1).and_then(|x| hex(*x)), b.get(i + 2).and_then(|x| hex(*x))) {
                (Some(h), Some(l)) => { o.push(h * 16 + l); i += 3; }
                _ => return Err(format!("`%` at byte {} of {:?} is not followed by two hex digits", i, s)),
            }
        } else { o.push(b[i]); i += 1; }
    }
    String::from_utf8(o).map_err(|_| format!("{:?} does not percent-decode to UTF-8", s))
}

// ------------------------------------------------------------------------------------------------------------
// matching the output against the model
// ------------------------------------------------------------------------------------------------------------
enum Want { Exact(Vec<String>), Import(usize), Wild(String) }

fn expect(obs: &[String], c: &mut usize, tok: &str, what: &str) -> Result<(), String> {
    if obs.get(*c).map(|s| s.as_str()) == Some(tok) { *c += 1; Ok(()) } else {
        Err(format!("output token #{} is `{}` where {} requires `{}`", *c, obs.get(*c).map(|s| s.as_str()).unwrap_or("<end of output>"), what, tok))
    }
}
fn expect_all(obs: &[String], c: &mut usize, toks: &[String], what: &str) -> Result<(), String> {
    for t in toks { expect(obs, c, t, what)?; }
    Ok(())
}
/// clauses 1-3
fn match_import_sign(obs: &[String], cur: usize, imp: &Import) -> Result<usize, String> {
    let mut c = cur;
    let mut depth = 0;
    if let Some(name) = &imp.layer {
        expect(obs, &mut c, "@layer", "the import's layer")?;
        expect_all(obs, &mut c, name, "the layer name")?;
        expect(obs, &mut c, "{", "the @layer wrapper")?;
        depth += 1;
    }
    if let Some(cond) = &imp.supports {
        expect(obs, &mut c, "@supports", "the import's supports()")?;
        let is_decl = cond.len() >= 2 && cond[0].starts_with("id:") && cond[1] == ":";
        let mut bare = c;
        if !is_decl && expect_all(obs, &mut bare, cond, "").is_ok() && obs.get(bare).map(|s| s == "{").unwrap_or(false) {
            c = bare;
        } else {
            expect(obs, &mut c, "(", "the supports condition")?;
            expect_all(obs, &mut c, cond, "the supports condition")?;
            expect(obs, &mut c, ")", "the supports condition")?;
        }
        expect(obs, &mut c, "{", "the @supports wrapper")?;
        depth += 1;
    }
    if !imp.media.is_empty() {
        expect(obs, &mut c, "@media", "the import's media query list")?;
        expect_all(obs, &mut c, &imp.media, "the media query list")?;
        expect(obs, &mut c, "{", "the @media wrapper")?;
        depth += 1;
    }
    let Some(text) = obs.get(c).and_then(|t| t.strip_prefix("comment:")) else {
        return Err(format!("output token #{} is `{}` where the placeholder comment of import {:?} must stand", c, obs.get(c).map(|s| s.as_str()).unwrap_or("<end of output>"), imp.path));
    };
    let Some(encoded) = text.strip_prefix(SIGN).and_then(|t| t.strip_prefix(' ')) else {
        return Err(format!("placeholder comment {:?} does not start with `{} `", text, SIGN));
    };
    match pct_decode(encoded) {
        Ok(p) if p == imp.path => {}
        Ok(p) => return Err(format!("placeholder {:?} percent-decodes to {:?}, the import path is {:?}", encoded, p, imp.path)),
        Err(e) => return Err(format!("placeholder of import {:?}: {}", imp.path, e)),
    }
    c += 1;
    for _ in 0..depth { expect(obs, &mut c, "}", "the closing of the wrapper blocks right after the placeholder")?; }
    Ok(c)
}
/// clause 5
fn match_import_plain(obs: &[String], cur: usize, imp: &Import) -> Result<usize, String> {
    let mut c = cur;
    expect(obs, &mut c, "@import", "the passed-through import")?;
    let path_ok = |t: Option<&String>| t.map(|t| t.strip_prefix("str:").or_else(|| t.strip_prefix("url:")) == Some(imp.path.as_str())).unwrap_or(false);
    if obs.get(c).map(|t| t.eq_ignore_ascii_case("fn:url(")).unwrap_or(false) && path_ok(obs.get(c + 1)) && obs.get(c + 2).map(|t| t == ")").unwrap_or(false) {
        c += 3;
    } else if path_ok(obs.get(c)) {
        c += 1;
    } else {
        return Err(format!("output token #{} is `{}` where a string/url with the exact value {:?} must stand", c, obs.get(c).map(|s| s.as_str()).unwrap_or("<end of output>"), imp.path));
    }
    expect_all(obs, &mut c, &imp.rest, "the import's conditions (unchanged)")?;
    if c < obs.len() { expect(obs, &mut c, ";", "the end of the import")?; }
    Ok(c)
}
/// `v` is a sequence of complete top-level constructs: comments, at-rules ended by `;` or a `{}` block, qualified
/// rules ended by a `{}` block (at the very end of the output an at-rule may lack its `;`); nothing unclosed, no
/// stray closer.
fn complete_rules(v: &[String], at_eof: bool) -> bool {
    #[derive(PartialEq)]
    enum St { Start, At, Qualified }
    let mut st = St::Start;
    let mut d = 0i32;
    for t in v {
        if is_broken(t) { return false; }
        if d == 0 && st == St::Start {
            if t.starts_with("comment:") { continue; }
            st = if t.starts_with('@') { St::At } else { St::Qualified };
        }
        if is_open(t) { d += 1; }
        if is_close(t) {
            d -= 1;
            if d < 0 { return false; }
            if d == 0 && t == "}" { st = St::Start; }
        }
        if d == 0 && t == ";" && st == St::At { st = St::Start; }
    }
    d == 0 && (st == St::Start || (at_eof && st == St::At))
}
fn match_from(wants: &[Want], imports: &[&Import], sign: bool, i: usize, obs: &[String], cur: usize) -> Result<(), String> {
    if i == wants.len() {
        return if cur == obs.len() { Ok(()) } else { Err(format!("output continues after the last rule of the sheet with `{}`", show(&obs[cur..]))) };
    }
    match &wants[i] {
        Want::Exact(toks) => {
            let mut c = cur;
            expect_all(obs, &mut c, toks, &format!("rule #{} of the sheet (compiled alone it gives `{}`)", i, show(toks)))?;
            match_from(wants, imports, sign, i + 1, obs, c)
        }
        Want::Import(k) => {
            let c = if sign { match_import_sign(obs, cur, imports[*k])? } else { match_import_plain(obs, cur, imports[*k])? };
            match_from(wants, imports, sign, i + 1, obs, c)
        }
        Want::Wild(why) => {
            let mut last = String::new();
            for j in cur..=obs.len() {
                if !complete_rules(&obs[cur..j], j == obs.len()) { continue; }
                match match_from(wants, imports, sign, i + 1, obs, j) { Ok(()) => return Ok(()), Err(e) => if last.is_empty() { last = e; } }
            }
            if last.is_empty() { last = "the output from there on is not a sequence of complete rules".into(); }
            Err(format!("no claim is made about rule #{} itself ({}), but what follows it is damaged: {}", i, why, last))
        }
    }
}

thread_local! { static ALONE: RefCell<HashMap<(Cfg, String), Vec<String>>> = RefCell::new(HashMap::new()); }
fn alone(c: Cfg, text: &str) -> Vec<String> {
    if let Some(v) = ALONE.with(|m| m.borrow().get(&(c, text.to_string())).cloned()) { return v; }
    let v = canon_str(&compile(c, text).0, true);
    ALONE.with(|m| m.borrow_mut().insert((c, text.to_string()), v.clone()));
    v
}

struct Verdict { fail: Option<(String, String)>, notes: Vec<String> }

/// counters for `IMPORTSIGN_STATS=1` (printed to stderr by `search`): imports asserted in full with / without sign,
/// imports with clause 7 only, sheets without any claim (narrowing F), late imports whose warning was asserted
static STATS: [std::sync::atomic::AtomicU64; 5] = [std::sync::atomic::AtomicU64::new(0), std::sync::atomic::AtomicU64::new(0), std::sync::atomic::AtomicU64::new(0), std::sync::atomic::AtomicU64::new(0), std::sync::atomic::AtomicU64::new(0)];
fn stat(i: usize, n: u64) { STATS[i].fetch_add(n, std::sync::atomic::Ordering::Relaxed); }

/// `intended`: the path values the generator meant to write, in order (search only)
fn check(c: Cfg, css: &str, intended: Option<&[String]>) -> Verdict {
    let mut notes = vec![];
    let items = split_items(css);
    let imports: Vec<&Import> = items.iter().filter_map(|i| if let Kind::Import(x) = &i.kind { Some(x) } else { None }).collect();
    if let Some(want) = intended {
        let got: Vec<&str> = imports.iter().map(|i| i.path.as_str()).collect();
        if got != want.iter().map(|s| s.as_str()).collect::<Vec<_>>() {
            return Verdict { fail: Some((format!("HARNESS: this file's CSS writer and cssparser disagree: the sheet reads back with import paths {:?}", got), format!("{:?}", want))), notes };
        }
    }
    let (out, warn_lines, other) = compile(c, css);
    notes.push(format!("output {:?}, IllegalImportPosition on lines {:?}, {} other warnings", out, warn_lines, other));
    let obs = canon_str(&out, true);
    let mut wants = vec![];
    let mut k = 0;
    let mut late = false;
    let mut late_lines = vec![];
    let mut early_lines = vec![];
    for it in &items {
        match &it.kind {
            Kind::Import(imp) => {
                if let Some(why) = &imp.ill_formed {
                    notes.push(format!("import on line {} is outside the oracle's grammar ({}): only clause 7", imp.line, why));
                    wants.push(Want::Wild(why.clone()));
                } else {
                    wants.push(Want::Import(k));
                    if c.sign { if late { late_lines.push(imp.line); } else { early_lines.push(imp.line); } }
                }
                k += 1;
            }
            Kind::Statement => wants.push(Want::Exact(alone(c, &it.text))),
            Kind::Other => { late = true; wants.push(Want::Exact(alone(c, &it.text))); }
        }
    }
    if other > 0 && !strict("F") && wants.iter().any(|w| matches!(w, Want::Wild(_))) {
        notes.push("an ill-formed import (see above) comes with a Fatal `unexpected character` warning (narrowing F; IMPORTSIGN_STRICT=F asserts clause 7 all the same): nothing but `no panic` is claimed for this sheet".into());
        stat(3, 1);
        return Verdict { fail: None, notes };
    }
    for w in &wants {
        match w { Want::Import(_) => stat(if c.sign { 0 } else { 1 }, 1), Want::Wild(_) => stat(2, 1), _ => {} }
    }
    stat(4, late_lines.len() as u64);
    if let Err(e) = match_from(&wants, &imports, c.sign, 0, &obs, 0) {
        let want = if c.sign {
            "clauses 1-3, 6, 7: every import replaced in place by [@layer n{][@supports (c){][@media q{]/*SIGN <percent-encoded path>*/}}} and all other rules as when compiled alone"
        } else {
            "clauses 5-7: every import passed through with the same path value and condition tokens, all other rules as when compiled alone"
        };
        return Verdict { fail: Some((format!("output {:?}: {}", out, e), want.into())), notes };
    }
    for l in &late_lines {
        if !warn_lines.contains(l) {
            return Verdict { fail: Some((format!("output {:?}; IllegalImportPosition warnings on lines {:?} (0-based), none for the late import on line {}", out, warn_lines, l), "clause 4: an import after ordinary rules is rewritten AND flagged".into())), notes };
        }
    }
    if strict("W") {
        for l in &early_lines {
            if warn_lines.contains(l) {
                return Verdict { fail: Some((format!("IllegalImportPosition warning for the import on line {} (0-based), which is preceded only by @charset / @layer statements / imports", l), "strict clause W (beyond the property text): no position warning for a well-placed import".into())), notes };
            }
        }
    }
    Verdict { fail: None, notes }
}

// ------------------------------------------------------------------------------------------------------------
// generator: CSS writers
// ------------------------------------------------------------------------------------------------------------
fn hex_escape(c: char) -> String { format!("\\{:x} ", c as u32) }
/// CSS <string> with value `v`: minimal escaping, or every character as a hex escape
fn css_string(v: &str, q: char, all_hex: bool) -> String {
    let mut o = String::new();
    o.push(q);
    for c in v.chars() {
        if all_hex { o.push_str(&hex_escape(c)); continue; }
        match c {
            c if c == q => { o.push('\\'); o.push(c); }
            '\\' => o.push_str("\\\\"),
            c if (c as u32) < 0x20 || c as u32 == 0x7f => o.push_str(&hex_escape(c)),
            c => o.push(c),
        }
    }
    o.push(q);
    o
}
/// unquoted `url(...)` with value `v`
fn css_url(v: &str, all_hex: bool) -> String {
    let mut o = String::from("url(");
    for c in v.chars() {
        if all_hex || c.is_whitespace() || matches!(c, '"' | '\'' | '(' | ')' | '\\') || (c as u32) < 0x20 || c as u32 == 0x7f { o.push_str(&hex_escape(c)); } else { o.push(c); }
    }
    o.push(')');
    o
}

const PATHS: &[&str] = &[
    "a.wxss", "./a", "../b/c.wxss", "/abs/d.wxss", "https://example.com/x.css?v=1&w=2#frag", "//cdn.example/x.css", "?q#f",
    "a b.css", " lead", "trail ", "  ", "a%20b", "100%", "%", "%%", "%2F", "a%2Fb%zz", "%25", "%e4%b8", "+", "a+b c",
    "a*/b", "*/", "/*", "/* x */", "a/**/b", "*", "**//", "*/ .x{color:red} /*",
    "it's", "say \"hi\"", "'", "\"", "'\"", "\\", "a\\b", "a\\\\b", "\\2a", "\\\"", "a\\",
    "中文/样式.wxss", "日本語", "😀.css", "a😀b*/😀", "𠮷野家", "é", "e\u{301}", "\u{feff}x", "\u{a0}", "\u{fffd}", "\u{10ffff}", "\u{fb01}",
    "a\tb", "a\nb", "\r", "\u{1}", "\u{7f}", "\u{c}",
    "", "~-._", ";", "a;b", "{}", "a{b}c", "(", ")", "a(b)c", "@import", "<!--", "-->", "url(x)", "layer(a)", "a,b", "#", "&amp;",
];
const LAYERS: &[&str] = &["", "layer", "layer(a)", "layer(a.b)", "layer(my-layer.sub_1.x)"];
/// the last entry contains `.class` selectors and is used only without a class prefix
const SUPPORTS: &[&str] = &["", "supports(display: grid)", "supports(not (display: grid))", "supports((display: flex) and (not (display: grid)))", "supports(selector(a > b))", "supports(--x: y)", "supports(selector(.x .y:not(.z)))"];
const MEDIA: &[&str] = &["", "screen", "print and (min-width: 10px)", "screen, print", "(min-width: 100px) and (max-width: 200px)", "not all and (monochrome)", "only screen and (orientation: landscape)", "(width >= 600px)", "(400px <= width <= 700px)", "screen and (min-resolution: 2dppx), (aspect-ratio: 16/9)", "all and (min-width: 10px)", "all, print", "ALL and (color)"];
// (a lone `all` is not enumerated: leaving its wrapper out would be an equivalent rewrite, and the oracle asks for the wrapper)
const SEPS: &[&str] = &[" ", "\n  ", " /*c*/ ", ""];
const RULES: &[&str] = &[
    ".a{color:red}", ".b .c>.d{width:2rpx;margin:calc(1px + 2rpx)}", "@media print{.e{top:0}}", "@font-face{font-family:x;src:url(f.woff)}",
    "#i[x=y]::before{content:\"@import 'z';\"}", "@keyframes k{from{top:0}to{top:1px}}", ":host{color:blue}", "view,.f:not(.g){background:url(\"i.png\")}",
];
/// C `@charset`, L `@layer` statement, I import, i import without `;` (last in the sheet), R rule (drawn), M @media block, F @font-face, H :host rule
const SHAPES: &[&str] = &["I", "IR", "CIR", "LIR", "CLLIIR", "III", "RI", "IRIR", "MI", "FIR", "i", "Ii", "CLIIRIMI", "HIR", "RRIIR", "CRi", "LI", "IIRi"];

#[derive(Clone)]
struct Spec { path: String, form: usize, all_hex: bool, layer: usize, supports: usize, media: usize, sep: usize }
fn ident_char(c: char) -> bool { c.is_alphanumeric() || c == '-' || c == '_' || !c.is_ascii() }
fn render(s: &Spec, semicolon: bool) -> String {
    let path = match s.form {
        0 => css_string(&s.path, '"', s.all_hex),
        1 => css_string(&s.path, '\'', s.all_hex),
        2 => css_url(&s.path, s.all_hex),
        3 => format!("url({})", css_string(&s.path, '"', s.all_hex)),
        _ => format!("url( {} )", css_string(&s.path, '\'', s.all_hex)),
    };
    let mut pieces = vec!["@import".to_string(), path];
    for p in [LAYERS[s.layer], SUPPORTS[s.supports], MEDIA[s.media]] { if !p.is_empty() { pieces.push(p.to_string()); } }
    let mut o = String::new();
    for p in pieces {
        if !o.is_empty() {
            let sep = SEPS[s.sep];
            let a = o.chars().last().unwrap();
            let b = p.chars().next().unwrap();
            if sep.is_empty() && ident_char(a) && (ident_char(b) || b == '(') { o.push(' '); } else { o.push_str(sep); }
        }
        o.push_str(&p);
    }
    if semicolon { o.push(';'); }
    o
}
struct Lcg(u64);
impl Lcg {
    fn next(&mut self, n: usize) -> usize {
        self.0 = self.0.wrapping_mul(6364136223846793005).wrapping_add(1442695040888963407);
        ((self.0 >> 33) as usize) % n
    }
}
fn draw_spec(r: &mut Lcg, prefix: bool) -> Spec {
    let supports_n = if prefix { SUPPORTS.len() - 1 } else { SUPPORTS.len() };
    Spec { path: PATHS[r.next(PATHS.len())].to_string(), form: r.next(5), all_hex: r.next(4) == 0, layer: r.next(LAYERS.len()), supports: r.next(supports_n), media: r.next(MEDIA.len()), sep: r.next(SEPS.len()) }
}
/// one sheet from a shape; import specifications are taken from `next_spec`
fn sheet(shape: &str, r: &mut Lcg, mut next_spec: impl FnMut(&mut Lcg) -> Spec) -> (String, Vec<String>) {
    let mut lines = vec![];
    let mut paths = vec![];
    let mut layer_n = 0;
    for ch in shape.chars() {
        match ch {
            'C' => lines.push("@charset \"utf-8\";".to_string()),
            'L' => { layer_n += 1; lines.push(if layer_n == 1 { "@layer base;".to_string() } else { "@layer x, y.z;".to_string() }); }
            'I' | 'i' => { let s = next_spec(r); paths.push(s.path.clone()); lines.push(render(&s, ch == 'I')); }
            'R' => lines.push(RULES[r.next(RULES.len())].to_string()),
            'M' => lines.push("@media print{.e{top:0}}".to_string()),
            'F' => lines.push("@font-face{font-family:x;src:url(f.woff)}".to_string()),
            'H' => lines.push(":host{color:blue}".to_string()),
            _ => unreachable!(),
        }
    }
    (lines.join("\n"), paths)
}

/// family D: imports outside the grammar get clause 7 only, well-formed ones (`@IMPORT`, `LAYER(..)`, ...) all clauses
const DIRECTED: &[&str] = &[
    "@import \"a\" supports(x) 123;\n.b{color:red}",
    "@import \"a\" layer(x) 123;\n.b{color:red}",
    "@import \"a\" layer(x) supports(y:z) [q];\n.b{color:red}\n.c{top:0}",
    "@import \"a\" 123;\n.b{color:red}",
    "@import \"a\" foo(bar);\n.b{color:red}\n.c{top:0}",
    "@import \"a\" layer(x) foo(bar);\n.b{color:red}\n.c{top:0}",
    "@import \"a\" screen {}\n.b{color:red}",
    "@import \"a\" supports(x:y) screen {}\n.b{color:red}",
    "@import 123;\n.b{color:red}",
    "@import;\n.b{color:red}",
    "@import url(a b);\n.b{color:red}",
    "@import \"a\" layer();\n.b{color:red}",
    "@import \"a\" layer(1);\n.b{color:red}",
    "@import \"a\" supports();\n.b{color:red}",
    "@import \"a\" supports(x:y) layer(z);\n.b{color:red}",
    "@import \"a\" supports(x:y) supports(z:w);\n.b{color:red}",
    "@import \"a\" layer(x) layer(y);\n.b{color:red}",
    "@import \"a\" supports(x:y) layer;\n.b{color:red}",
    "@import \"a\" layer layer;\n.b{color:red}",
    "@import \"a\" screen;;\n.b{color:red}",
    "@import \"a\" (min-width:1px;\n.b{color:red}",
    "@import \"a\" supports((x:y);\n.b{color:red}",
    "@import \"a\" layer(x;\n.b{color:red}",
    "@import \"a\" , screen;\n.b{color:red}",
    "@import \"a\" !important;\n.b{color:red}",
    "@import \"a\" \"b\";\n.b{color:red}",
    "@import url(\"a\" foo);\n.b{color:red}",
    "@IMPORT \"a\";\n.b{color:red}",
    "@Import \"a\" screen;\n.b{color:red}",
    "@import \"a\" LAYER(x);\n.b{color:red}",
    "@import \"a\" Layer;\n.b{color:red}",
    "@import \"a\" SUPPORTS(x:y);\n.b{color:red}",
    "@import \"a\" layer(x) SCREEN AND (COLOR);\n.b{color:red}",
    "@import URL(a.css);\n.b{color:red}",
    "@import \"a\";\n@import \"b\" supports(x) 123;\n@import \"c\";\n.b{color:red}",
    "/* c */ @import /* c */ \"a\" /* c */ ; /* c */ .b{color:red}",
    "@import \"a\";@import \"b\";.b{color:red}@import \"c\";",
    "<!-- @import \"a\"; -->\n.b{color:red}",
];

fn verdict_to_outcome(v: Verdict, input: String, evaluations: u64, bound: String) -> Outcome {
    match v.fail {
        Some((observed, expected)) => Outcome { found: true, input, observed, expected, evaluations, bound },
        None => Outcome { found: false, input, observed: v.notes.join("; "), expected: String::new(), evaluations, bound },
    }
}

pub fn search() -> Outcome {
    std::panic::set_hook(Box::new(|_| {}));
    let mut count = 0u64;
    let mut eval = |cfg: &str, css: &str, paths: Option<&[String]>| -> Option<Outcome> {
        count += 1;
        let c = parse_cfg(cfg).unwrap();
        let (css2, paths2) = (css.to_string(), paths.map(|p| p.to_vec()));
        let input = format!("{}|{}", cfg, enc(css));
        match std::panic::catch_unwind(move || check(c, &css2, paths2.as_deref())) {
            Ok(v) if v.fail.is_some() => Some(verdict_to_outcome(v, input, count, BOUND.into())),
            Ok(_) => None,
            Err(_) => Some(Outcome { found: true, input, observed: "panic".into(), expected: "no panic".into(), evaluations: count, bound: BOUND.into() }),
        }
    };
    // family A
    let mut r = Lcg(1);
    for path in PATHS {
        for form in 0..5 {
            for all_hex in [false, true] {
                for full in [false, true] {
                    for shape in ["I", "IR", "CIR", "RI"] {
                        for cfg in ["S", "N", "Spc"] {
                            let spec = Spec { path: path.to_string(), form, all_hex, layer: if full { 2 } else { 0 }, supports: if full { 1 } else { 0 }, media: if full { 2 } else { 0 }, sep: 0 };
                            let (css, paths) = sheet(shape, &mut r, |_| spec.clone());
                            if let Some(o) = eval(cfg, &css, Some(&paths)) { return o; }
                        }
                    }
                }
            }
        }
    }
    // family B
    for path in ["./a.wxss", "a*/b c%.css", "中文 😀.wxss"] {
        for form in [0, 1, 2] {
            for layer in 0..LAYERS.len() {
                for supports in 0..SUPPORTS.len() {
                    for media in 0..MEDIA.len() {
                        for sep in 0..SEPS.len() {
                            for cfg in CFGS {
                                if parse_cfg(cfg).unwrap().prefix && supports == SUPPORTS.len() - 1 { continue; }
                                let spec = Spec { path: path.to_string(), form, all_hex: false, layer, supports, media, sep };
                                let (css, paths) = sheet("IR", &mut r, |_| spec.clone());
                                if let Some(o) = eval(cfg, &css, Some(&paths)) { return o; }
                            }
                        }
                    }
                }
            }
        }
    }
    // family C
    for shape in SHAPES {
        for cfg in CFGS {
            let prefix = parse_cfg(cfg).unwrap().prefix;
            for _ in 0..200 {
                let (css, paths) = sheet(shape, &mut r, |r| draw_spec(r, prefix));
                if let Some(o) = eval(cfg, &css, Some(&paths)) { return o; }
            }
        }
    }
    // family D
    for css in DIRECTED {
        for cfg in CFGS {
            if let Some(o) = eval(cfg, css, None) { return o; }
        }
    }
    // family E
    for _ in 0..12000 {
        let cfg = CFGS[r.next(CFGS.len())];
        let prefix = parse_cfg(cfg).unwrap().prefix;
        let mut shape = String::new();
        if r.next(3) == 0 { shape.push('C'); }
        for _ in 0..r.next(3) { shape.push('L'); }
        let n = 1 + r.next(6);
        for k in 0..n {
            let last = k + 1 == n;
            shape.push(match r.next(10) { 0..=5 => if last && r.next(3) == 0 { 'i' } else { 'I' }, 6..=7 => 'R', 8 => 'M', _ => 'H' });
        }
        let (css, paths) = sheet(&shape, &mut r, |r| draw_spec(r, prefix));
        if let Some(o) = eval(cfg, &css, Some(&paths)) { return o; }
    }
    // family N
    for (a, b) in NESTED_WRAP {
        for (imp, _path) in NESTED_IMPORTS {
            for tail in ["", ".b{color:red}"] {
                for cfg in ["S", "N", "Sp"] {
                    let css = format!("{}{}{}{}", a, imp, tail, b);
                    count += 1;
                    if let Some((got, want)) = check_nested(cfg, &css) {
                        return Outcome { found: true, input: format!("nested:{}|{}", cfg, enc(&css)), observed: got, expected: want, evaluations: count, bound: BOUND.into() };
                    }
                }
            }
        }
    }
    if std::env::var_os("IMPORTSIGN_STATS").is_some() {
        let g = |i: usize| STATS[i].load(std::sync::atomic::Ordering::Relaxed);
        eprintln!("imports asserted in full: {} with sign, {} without; imports with clause 7 only: {}; sheets without claim (F): {}; late-import warnings asserted: {}", g(0), g(1), g(2), g(3), g(4));
    }
    Outcome::none(count, BOUND)
}

// ---- family N: imports nested in the block of a rule-bearing at-rule ("forall positions") -------------------------
fn scan_nested(p: &mut cssparser::Parser, imports: &mut usize, comments: &mut Vec<String>) {
    loop {
        let t = match p.next_including_whitespace_and_comments() { Ok(t) => t.clone(), Err(_) => break };
        match &t {
            cssparser::Token::AtKeyword(k) if k.eq_ignore_ascii_case("import") => *imports += 1,
            cssparser::Token::Comment(c) => comments.push(c.to_string()),
            cssparser::Token::Function(_) | cssparser::Token::ParenthesisBlock | cssparser::Token::SquareBracketBlock | cssparser::Token::CurlyBracketBlock => {
                let _ = p.parse_nested_block(|q| -> Result<(), cssparser::ParseError<()>> { scan_nested(q, imports, comments); Ok(()) });
            }
            _ => {}
        }
    }
}
const NESTED_WRAP: &[(&str, &str)] = &[("@media screen{", "}"), ("@supports (display:grid){", "}"), ("@layer l{", "}"), ("@media screen{@supports (a:b){", "}}"), ("@container c (min-width:1px){.z{color:red}", "}"), ("@scope (.a){", "}"), ("@MEDIA print{", "}")];
const NESTED_IMPORTS: &[(&str, &str)] = &[("@import \"a.wxss\";", "a.wxss"), ("@import url(b.wxss) print;", "b.wxss"), ("@import 'c d' layer(x) supports(display:grid) screen;", "c d"), ("@import url(\"e\");@import 'f';", "e")];
fn check_nested(cfg: &str, css: &str) -> Option<(String, String)> {
    let c = parse_cfg(cfg)?;
    let (out, _warn_lines, _other) = compile(c, css);
    let count = |text: &str| { let mut pi = cssparser::ParserInput::new(text); let mut p = cssparser::Parser::new(&mut pi); let (mut n, mut cm) = (0usize, vec![]); scan_nested(&mut p, &mut n, &mut cm); (n, cm) };
    let (n_in, _) = count(css);
    let (n_out, comments) = count(&out);
    let opens = out.matches('{').count();
    let closes = out.matches('}').count();
    if opens != closes { return Some((format!("output {:?}: {} `{{` but {} `}}`", out, opens, closes), "balanced blocks".into())); }
    if cfg.starts_with('S') {
        let signs: Vec<&String> = comments.iter().filter(|c| c.starts_with("SIGN ")).collect();
        if n_out != 0 || signs.len() != n_in {
            return Some((format!("output {:?}: {} `@import` left, {} placeholder comments for {} imports", out, n_out, signs.len(), n_in), "every import, at any nesting depth, replaced by one placeholder comment".into()));
        }
    } else if n_out != n_in {
        return Some((format!("output {:?}: {} `@import` rules for {} in the input", out, n_out, n_in), "without an import sign every import passes through".into()));
    }
    None
}

pub fn run(input: &str) -> Outcome {
    if let Some(rest) = input.strip_prefix("nested:") {
        let (cfg, css) = rest.split_once('|').unwrap_or(("S", rest));
        let css = dec(css).unwrap_or_default();
        return match check_nested(cfg, &css) {
            Some((got, want)) => Outcome { found: true, input: input.into(), observed: got, expected: want, evaluations: 1, bound: "single input".into() },
            None => Outcome { found: false, input: input.into(), observed: String::new(), expected: String::new(), evaluations: 1, bound: "single input".into() },
        };
    }
    let parsed = input.split_once('|').and_then(|(c, s)| Some((parse_cfg(c)?, dec(s)?)));
    let Some((c, css)) = parsed else {
        return Outcome { found: true, input: input.into(), observed: "input is not `<cfg>|<css>` (cfg: S or N, then any of p c h r; css with ^q ^n ^^ ^u{HEX} escapes)".into(), expected: "a well-formed input".into(), evaluations: 0, bound: "single input".into() };
    };
    match std::panic::catch_unwind(move || check(c, &css, None)) {
        Ok(v) => verdict_to_outcome(v, input.into(), 1, "single input".into()),
        Err(_) => Outcome { found: true, input: input.into(), observed: "panic".into(), expected: "no panic".into(), evaluations: 1, bound: "single input".into() },
    }
}
