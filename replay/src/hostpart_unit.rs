//! HOSTPART (bounded, deterministic generator with an oracle for property C17: ":host conversion partitions rules
//! without loss").  Stylesheets are assembled from rule pieces and pushed through the REAL StyleSheetTransformer;
//! both outputs and the warnings are compared, on token level, with an expectation computed by a small reference
//! reader of the INPUT (written from the property text, it shares no code with the transformer).
//!
//! ENUMERATED (every sheet under all 12 configurations {convert_host on/off} x {class_prefix none/"p"/""} x
//! {host_is none/"h"}, rpx_ratio 750); every rule carries `order:<position>` so that all rules of a sheet are distinct:
//!  A  all sequences of <= 4 rule pieces from 10 pieces (2 `:host{..}` spellings with rpx / calc values, 4 ordinary
//!     rules incl. `:root`, 4 `:host` combinations `:host .a` `:host(.x)` `:host, .a` `:host:hover`) at depth 0, and
//!     all sequences of <= 3 of them inside one chain of depth 1, 2 and 3;
//!  B  all well-nested strings of <= 7 symbols over {host rule, ordinary rule, combination, open at-rule, close}
//!     with nesting depth <= 3 (this contains every interleaving of rules with at-rule boundaries, empty at-rules,
//!     sibling at-rules with the same prelude); the concrete spelling of each symbol rotates through the pools below;
//!  C  all sequences of <= 2 pieces from the 10 pieces of A plus 15 probes (`:h\6f st`, `:\68ost`, `:/**/host`, `.a :host`, `.a, :host`, `:HOST`,
//!     `:host-context()`, `@font-face{}`, `@layer y;`, `:host/*c*/{`, `:host{}`, `:host>.a`, `#x:hover`, ...), at
//!     depth 0, inside `@media`, inside `@MEDIA` and inside `@supports selector(.c){@layer x{`.
//!
//! ORACLE (clauses of the property text).  The reference reader splits the input into leaf rules, each with its
//! chain of enclosing rule-list at-rules (@media/@supports/@document/@layer/@container/@scope/@starting-style) and a
//! kind: HOST (prelude is exactly `:host`), COMBINATION (`:host` or `:host(` occurs in the prelude together with
//! anything else) or ORDINARY.  Preludes and bodies are canonical token lists (comments and insignificant white
//! space dropped; descendant combinators and the blanks around + - in math functions kept) with the documented
//! rewrites applied (rpx -> vw everywhere in blocks, `.x` -> `.<prefix>--x` in selector context).
//!  O1 conversion on : the normal output, read back the same way, is exactly the ORDINARY leaves, same chains, in
//!     source order (so no HOST and no COMBINATION rule is in it);
//!  O2 conversion on : the low-priority output is exactly one leaf per HOST rule: selector `[wx-host="<prefix>"]`
//!     (`,[is="<host>"]` appended when host_is is set; no prefix -> ""), the rule's declarations rewritten like any
//!     other, the SAME chain of (rewritten) at-rule preludes.  Compared as a multiset (the text does not order the
//!     low-priority output).  Whether equal chains are emitted once per rule or merged is not observed (leaves are
//!     compared, not the wrapper layout);
//!  O3 conversion on : one HostSelectorCombination warning per COMBINATION rule, none otherwise;
//!  O4 conversion off: the low-priority output is the empty string and the normal output is every leaf in order;
//!  O5 both outputs are bracket-balanced as raw text (cssparser would silently close a missing `}`);
//!  O1+O2+O3 together are "the two outputs contain each input rule exactly once".
//!  X1 (extra, NOT in the property text, reported with that label): the HOST leaves appear in the low-priority
//!     output in source order.
//!
//! Names are read the CSS way: `:HOST` is `:host`, `@MEDIA` is `@media` (asserted since fixes de799fa / 7df6e59).
//!
//! KNOWN deviation (see `KNOWN`): K1, a `:host` that is not the first token of the prelude.  By default an input is
//! accepted when it matches the property reading OR the reading in which such a rule is an ordinary rule (what the
//! implementation does); `HOSTPART_STRICT=K1` (or `all`) removes that alternative, so that `run` on the listed input
//! exits 1.  Inputs without that construct read the same under both readings, so nothing is weakened for them.
//! `HOSTPART_ALL=1 vxreplay HOSTPART search` lists every failing input on stderr.
//!
//! NOT covered: malformed sheets (unclosed blocks, `:host` without a block, stray `}`), `:host` nested in `:not()` /
//! `:is()`, `::host`, class_prefix_sign, import_sign, rpx ratios other than 750, prefixes or
//! host names that need escaping, source maps, CSS nesting (rules inside declaration blocks), @import.
use crate::Outcome;
use cssparser::{ParseError, Parser, ParserInput, ToCss, Token};
use glass_easel_stylesheet_compiler::error::ParseErrorKind;
use glass_easel_stylesheet_compiler::{StyleSheetOptions, StyleSheetTransformer};

/// (id, input as accepted by `run`, description).  `HOSTPART_STRICT=<id> vxreplay HOSTPART run '<input>'` exits 1.
pub const KNOWN: &[(&str, &str, &str)] = &[
    ("K1", "conv=1 pfx=p is=h :: .a :host{color:red}", "`:host` that is not the FIRST token of the prelude (`.a :host{}`, `.a, :host{}`) is not recognised: the rule stays in the normal output and no warning is reported, although the property drops every `:host` combination with a warning"),
];

const BOUND: &str = "12 configurations x { A: all sequences of <= 4 rules from 10 pieces at depth 0 and of <= 3 inside one at-rule chain of depth 1, 2, 3, and of <= 2 inside chains of depth 6, 8, 12; B: all well-nested strings of <= 7 symbols over {:host rule, ordinary rule, :host combination, open at-rule, close} with depth <= 3, spellings rotating through 3/7/5 rule spellings (one ordinary rule with non-ASCII content) and 6 at-rule preludes; C: all sequences of <= 2 from 22 pieces (the 10 plus 12 probes) under 4 wrappers }";

// ---------------------------------------------------------------- canonical token lists
#[derive(Clone, Copy, PartialEq)]
enum Ctx { Sel, Decl, Math, AtPrelude }
enum End { Eof, Curly, Semi }
/// the documented rewrites, applied to INPUT text only (outputs are read back with `on: false`)
struct Rw<'a> { on: bool, prefix: Option<&'a str> }
const SP: &str = "\u{2423}"; // a significant blank

fn is_math(name: &str) -> bool {
    matches!(name.to_ascii_lowercase().as_str(), "calc" | "min" | "max" | "clamp" | "round" | "mod" | "rem" | "sin" | "cos" | "tan" | "asin" | "acos" | "atan" | "atan2" | "pow" | "sqrt" | "hypot" | "log" | "exp" | "abs" | "sign")
}
fn num(v: f64) -> String { format!("{:.4e}", v) }

/// Appends the canonical tokens of `p` to `out`.  With `prelude`, stops in front of the `{` block that ends a rule
/// prelude (End::Curly; the caller enters the block) and, for at-rules, at the terminating `;` (End::Semi).
fn canon(p: &mut Parser, ctx: Ctx, rw: &Rw, prelude: bool, out: &mut Vec<String>) -> End {
    let start = out.len();
    let mut pending_ws = false;
    let mut in_class = false;
    loop {
        let tok = match p.next_including_whitespace() { Ok(t) => t.clone(), Err(_) => return End::Eof };
        if let Token::WhiteSpace(_) = tok { pending_ws = true; in_class = false; continue; }
        if prelude {
            match tok {
                Token::CurlyBracketBlock => return End::Curly,
                Token::Semicolon if ctx == Ctx::AtPrelude => return End::Semi,
                _ => {}
            }
        }
        if pending_ws && out.len() > start {
            let prev = out.last().map(|s| s.as_str()).unwrap_or("");
            let sig = match ctx {
                Ctx::Sel => {
                    let prev_comb = matches!(prev, "," | ">" | "+" | "~");
                    let next_comb = matches!(&tok, Token::Comma | Token::Delim('>') | Token::Delim('+') | Token::Delim('~'));
                    !prev_comb && !next_comb
                }
                Ctx::Math => prev == "+" || prev == "-" || matches!(&tok, Token::Delim('+') | Token::Delim('-')),
                _ => false,
            };
            if sig { out.push(SP.into()); }
        }
        pending_ws = false;
        let was_class = in_class;
        in_class = false;
        match &tok {
            Token::CurlyBracketBlock | Token::ParenthesisBlock | Token::SquareBracketBlock => {
                let (o, c) = match tok { Token::CurlyBracketBlock => ("{", "}"), Token::ParenthesisBlock => ("(", ")"), _ => ("[", "]") };
                let inner = match (&tok, ctx) {
                    (_, Ctx::Math) => Ctx::Math,
                    (Token::CurlyBracketBlock, _) => Ctx::Decl,
                    (_, Ctx::AtPrelude) => Ctx::Sel,
                    (_, c) => c,
                };
                out.push(o.into());
                let _ = p.parse_nested_block(|q| -> Result<(), ParseError<()>> { canon(q, inner, rw, false, out); Ok(()) });
                out.push(c.into());
            }
            Token::Function(name) => {
                let inner = if ctx == Ctx::Math || is_math(name) { Ctx::Math } else if ctx == Ctx::Decl { Ctx::Decl } else { Ctx::Sel };
                out.push(format!("{}(", name));
                let _ = p.parse_nested_block(|q| -> Result<(), ParseError<()>> { canon(q, inner, rw, false, out); Ok(()) });
                out.push(")".into());
            }
            Token::Delim('.') => { out.push(".".into()); in_class = ctx == Ctx::Sel; }
            Token::Ident(name) if was_class && rw.on && rw.prefix.is_some() => {
                out.push(Token::Ident(format!("{}--{}", rw.prefix.unwrap(), name).into()).to_css_string());
            }
            Token::Dimension { value, unit, .. } if rw.on && unit.as_ref() == "rpx" => out.push(format!("{}vw", num(*value as f64 * 100.0 / 750.0))),
            Token::Dimension { value, unit, .. } => out.push(format!("{}{}", num(*value as f64), unit)),
            Token::Number { value, .. } => out.push(num(*value as f64)),
            Token::Percentage { unit_value, .. } => out.push(format!("{}%", num(*unit_value as f64))),
            t => out.push(t.to_css_string()),
        }
    }
}
fn canon_sel_text(css: &str) -> String {
    let mut pi = ParserInput::new(css);
    let mut p = Parser::new(&mut pi);
    let mut out = vec![];
    canon(&mut p, Ctx::Sel, &Rw { on: false, prefix: None }, false, &mut out);
    out.join(" ")
}

// ---------------------------------------------------------------- reference reader: sheet -> leaf rules
/// Which reading of the KNOWN construct K1 is used: `true` = the property text reading.
#[derive(Clone, Copy, PartialEq, Debug)]
struct Dialect { k1: bool }
#[derive(Clone, Copy, PartialEq, Debug)]
enum Kind { Ordinary, Host, Combination }
#[derive(Clone, PartialEq, Eq, PartialOrd, Ord, Debug)]
struct Leaf { chain: Vec<String>, sel: String, body: String }

const RULE_LISTS: &[&str] = &["media", "supports", "document", "layer", "container", "scope", "starting-style"];

/// Kind of the qualified rule whose prelude starts at the parser's position (the parser is not advanced).
fn classify(p: &mut Parser, d: &Dialect) -> Kind {
    let st = p.state();
    // top-level tokens of the prelude: ':' | name of ident | name of function + "(" | " " | "?"
    let mut toks: Vec<String> = vec![];
    loop {
        match p.next_including_whitespace() {
            Err(_) | Ok(Token::CurlyBracketBlock) => break,
            Ok(Token::WhiteSpace(_)) => toks.push(" ".into()),
            Ok(Token::Colon) => toks.push(":".into()),
            Ok(Token::Ident(n)) => toks.push(format!("i{}", n)),
            Ok(Token::Function(n)) => toks.push(format!("f{}", n)),
            Ok(_) => toks.push("?".into()),
        }
    }
    p.reset(&st);
    while toks.last().map(|s| s == " ").unwrap_or(false) { toks.pop(); }
    let is_host = |s: &str| -> bool {
        if s.len() < 2 { return false; }
        let name = &s[1..];
        name.eq_ignore_ascii_case("host")
    };
    let mut first_occurrence = None;
    for i in 0..toks.len() {
        if toks[i] == ":" && i + 1 < toks.len() && (toks[i + 1].starts_with('i') || toks[i + 1].starts_with('f')) && is_host(&toks[i + 1]) && (i == 0 || toks[i - 1] != ":") {
            first_occurrence = Some(i);
            break;
        }
    }
    match first_occurrence {
        None => Kind::Ordinary,
        Some(0) if toks.len() == 2 && toks[1].starts_with('i') => Kind::Host,
        Some(0) => Kind::Combination,
        Some(_) => if d.k1 { Kind::Combination } else { Kind::Ordinary },
    }
}

fn read_rules(p: &mut Parser, chain: &Vec<String>, d: &Dialect, rw: &Rw, leaves: &mut Vec<(Kind, Leaf)>) {
    loop {
        p.skip_whitespace();
        let st = p.state();
        let first = match p.next() { Ok(t) => t.clone(), Err(_) => return };
        p.reset(&st);
        let mut pre: Vec<String> = vec![];
        let mut body: Vec<String> = vec![];
        if let Token::AtKeyword(name) = &first {
            let end = canon(p, Ctx::AtPrelude, rw, true, &mut pre);
            let lname = name.to_ascii_lowercase();
            match end {
                End::Curly if RULE_LISTS.contains(&lname.as_str()) => {
                    let mut inner = chain.clone();
                    inner.push(pre.join(" "));
                    let _ = p.parse_nested_block(|q| -> Result<(), ParseError<()>> { read_rules(q, &inner, d, rw, leaves); Ok(()) });
                }
                End::Curly => {
                    let _ = p.parse_nested_block(|q| -> Result<(), ParseError<()>> { canon(q, Ctx::Decl, rw, false, &mut body); Ok(()) });
                    leaves.push((Kind::Ordinary, Leaf { chain: chain.clone(), sel: pre.join(" "), body: body.join(" ") }));
                }
                End::Semi => leaves.push((Kind::Ordinary, Leaf { chain: chain.clone(), sel: pre.join(" "), body: ";".into() })),
                End::Eof => leaves.push((Kind::Ordinary, Leaf { chain: chain.clone(), sel: pre.join(" "), body: "<end of input>".into() })),
            }
        } else {
            let kind = classify(p, d);
            match canon(p, Ctx::Sel, rw, true, &mut pre) {
                End::Curly => {
                    let _ = p.parse_nested_block(|q| -> Result<(), ParseError<()>> { canon(q, Ctx::Decl, rw, false, &mut body); Ok(()) });
                    leaves.push((kind, Leaf { chain: chain.clone(), sel: pre.join(" "), body: body.join(" ") }));
                }
                _ => leaves.push((kind, Leaf { chain: chain.clone(), sel: pre.join(" "), body: "<end of input>".into() })),
            }
        }
    }
}
fn read_sheet(css: &str, d: &Dialect, rw: &Rw) -> Vec<(Kind, Leaf)> {
    let mut pi = ParserInput::new(css);
    let mut p = Parser::new(&mut pi);
    let mut leaves = vec![];
    read_rules(&mut p, &vec![], d, rw, &mut leaves);
    leaves
}
/// raw-text bracket balance (strings skipped)
fn balanced(s: &str) -> bool {
    let mut st = vec![];
    let mut it = s.chars();
    while let Some(c) = it.next() {
        match c {
            '"' | '\'' => { while let Some(e) = it.next() { if e == '\\' { it.next(); } else if e == c { break; } } }
            '(' | '{' | '[' => st.push(c),
            ')' => if st.pop() != Some('(') { return false },
            '}' => if st.pop() != Some('{') { return false },
            ']' => if st.pop() != Some('[') { return false },
            _ => {}
        }
    }
    st.is_empty()
}
fn show(v: &[Leaf]) -> String {
    let mut s = String::from("[");
    for (i, l) in v.iter().enumerate() {
        if i > 0 { s += " | "; }
        for c in &l.chain { s += c; s += " > "; }
        s += &format!("{} {{ {} }}", l.sel, l.body);
    }
    s + "]"
}

// ---------------------------------------------------------------- configuration and the check
#[derive(Clone, Debug)]
struct Cfg { convert: bool, prefix: Option<String>, host_is: Option<String> }
impl Cfg {
    fn encode(&self, css: &str) -> String {
        format!("conv={} pfx={} is={} :: {}", self.convert as u8, self.prefix.as_deref().unwrap_or("-"), self.host_is.as_deref().unwrap_or("-"), css)
    }
    fn decode(input: &str) -> Option<(Cfg, String)> {
        let (head, css) = input.split_once(" :: ").or_else(|| input.split_once("::"))?;
        let mut cfg = Cfg { convert: true, prefix: None, host_is: None };
        for f in head.split(' ') {
            let Some((k, v)) = f.split_once('=') else { continue };
            let opt = if v == "-" { None } else { Some(v.to_string()) };
            match k { "conv" => cfg.convert = v == "1", "pfx" => cfg.prefix = opt, "is" => cfg.host_is = opt, _ => return None }
        }
        Some((cfg, css.to_string()))
    }
    fn all() -> Vec<Cfg> {
        let mut v = vec![];
        for convert in [true, false] { for prefix in [None, Some("p"), Some("")] { for host_is in [None, Some("h")] {
            v.push(Cfg { convert, prefix: prefix.map(String::from), host_is: host_is.map(String::from) });
        } } }
        v
    }
}
struct Observed { normal: String, low: String, host_warnings: usize }

fn observe(cfg: &Cfg, css: &str) -> Observed {
    let t = StyleSheetTransformer::from_css("p.wxss", css, StyleSheetOptions {
        class_prefix: cfg.prefix.clone(), convert_host: cfg.convert, host_is: cfg.host_is.clone(), rpx_ratio: 750., ..Default::default()
    });
    let host_warnings = t.warnings().filter(|w| w.kind == ParseErrorKind::HostSelectorCombination).count();
    let (n, l) = t.output_and_low_priority_output();
    let (mut normal, mut low) = (String::new(), String::new());
    n.write_str(&mut normal).unwrap();
    l.write_str(&mut low).unwrap();
    Observed { normal, low, host_warnings }
}

/// the property clauses under one reading; None = satisfied
fn check_dialect(cfg: &Cfg, css: &str, o: &Observed, d: &Dialect) -> Option<(String, String)> {
    let input = read_sheet(css, d, &Rw { on: true, prefix: cfg.prefix.as_deref() });
    let off = Rw { on: false, prefix: None };
    let got_normal: Vec<Leaf> = read_sheet(&o.normal, d, &off).into_iter().map(|x| x.1).collect();
    let got_low: Vec<Leaf> = read_sheet(&o.low, d, &off).into_iter().map(|x| x.1).collect();
    if !balanced(&o.normal) { return Some((format!("normal output {:?}", o.normal), "O5: bracket-balanced text".into())); }
    if !balanced(&o.low) { return Some((format!("low-priority output {:?}", o.low), "O5: bracket-balanced text".into())); }
    if !cfg.convert {
        if !o.low.is_empty() { return Some((format!("low-priority output {:?}", o.low), "O4: empty (conversion off, nothing is moved)".into())); }
        let want: Vec<Leaf> = input.into_iter().map(|x| x.1).collect();
        if got_normal != want { return Some((format!("normal output {:?} = {}", o.normal, show(&got_normal)), format!("O4: every rule in order {}", show(&want)))); }
        return None;
    }
    let want_normal: Vec<Leaf> = input.iter().filter(|x| x.0 == Kind::Ordinary).map(|x| x.1.clone()).collect();
    let mut host_sel = format!("[wx-host=\"{}\"]", cfg.prefix.as_deref().unwrap_or(""));
    if let Some(h) = &cfg.host_is { host_sel += &format!(",[is=\"{}\"]", h); }
    let host_sel = canon_sel_text(&host_sel);
    let want_low: Vec<Leaf> = input.iter().filter(|x| x.0 == Kind::Host).map(|x| Leaf { chain: x.1.chain.clone(), sel: host_sel.clone(), body: x.1.body.clone() }).collect();
    let want_warnings = input.iter().filter(|x| x.0 == Kind::Combination).count();
    if got_normal != want_normal {
        return Some((format!("normal output {:?} = {}", o.normal, show(&got_normal)), format!("O1: the ordinary rules in order {}", show(&want_normal))));
    }
    let (mut a, mut b) = (got_low.clone(), want_low.clone());
    a.sort();
    b.sort();
    if a != b {
        return Some((format!("low-priority output {:?} = {}", o.low, show(&got_low)), format!("O2: one converted rule per `:host` rule, same at-rule chain {}", show(&want_low))));
    }
    if o.host_warnings != want_warnings {
        return Some((format!("{} HostSelectorCombination warnings", o.host_warnings), format!("O3: {} (one per `:host` combination)", want_warnings)));
    }
    if got_low != want_low {
        return Some((format!("low-priority output {:?} = {}", o.low, show(&got_low)), format!("X1 (extra, not in the property text): source order {}", show(&want_low))));
    }
    None
}

fn strict() -> bool {
    let v = std::env::var("HOSTPART_STRICT").unwrap_or_default();
    let has = |k: &str| v.split(',').any(|x| x.trim().eq_ignore_ascii_case(k) || x.trim().eq_ignore_ascii_case("all"));
    has("K1")
}
/// None = the property holds for this input under this configuration (or the input only deviates in a KNOWN way)
fn check(cfg: &Cfg, css: &str, strict: bool) -> Option<(String, String)> {
    let o = observe(cfg, css);
    let first = check_dialect(cfg, css, &o, &Dialect { k1: true });
    if first.is_none() { return None; }
    // alternative: the KNOWN construct K1 read the implementation's way, unless K1 is strict
    if !strict && check_dialect(cfg, css, &o, &Dialect { k1: false }).is_none() { return None; }
    first
}

// ---------------------------------------------------------------- generators
// `{N}` is replaced by the position of the rule in the sheet, so that all rules of a sheet are distinct
const HOSTS: &[&str] = &[":host{width:2rpx;order:{N}}", ":host {margin:calc(1rpx + 2px) 75rpx;order:{N}}", "\n:host\n{ order:{N}; top:-15rpx }"];
const ORDS: &[&str] = &[".a{width:1rpx;order:{N}}", ".a .b>#x{height:3rpx;order:{N}}", "view{color:blue;order:{N}}", ":root{--w:4rpx;order:{N}}", "#x:hover , .c.d{order:{N};min-width:min(7.5rpx, 1px)}", ":host-context(.d) .e{left:1rpx;order:{N}}", ".u{content:\"\u{2192}\u{5b57}\u{1F600}\";order:{N}}"];
const COMBOS: &[&str] = &[":host .a{color:red;order:{N}}", ":host(.x){top:1rpx;order:{N}}", ":host, .a{left:1rpx;order:{N}}", ":host:hover{color:pink;order:{N}}", ":host>.a{order:{N}}"];
const WRAPS: &[&str] = &["@media (min-width:1rpx)", "@supports (color:red)", "@layer x", "@container n (min-width:2rpx)", "@supports selector(.c .d)", "@media screen and (max-width:calc(10rpx + 1px))", "@starting-style", "@scope (.c) to (.d)", "@document url(x)", "@STARTING-STYLE"];
/// the 10 pieces of family A
const PIECES_A: &[&str] = &[HOSTS[0], HOSTS[1], ORDS[0], ORDS[1], ORDS[2], ORDS[3], COMBOS[0], COMBOS[1], COMBOS[2], COMBOS[3]];
/// probes of family C
const PROBES: &[&str] = &[
    ".a :host{color:red;order:{N}}", ".a, :host{color:red;order:{N}}", ":HOST{color:red;order:{N}}", ORDS[5], ORDS[4],
    "@font-face{font-family:f;width:5rpx;order:{N}}", "@layer y{N};", ":host/*c*/{bottom:6rpx;order:{N}}", ":host{}", COMBOS[4], HOSTS[2],
    "@keyframes k{N}{from{top:1rpx}to{top:2rpx}}",
    // the same `:host` token pair in other source spellings: escapes in the identifier, a comment behind the colon
    ":h\\6f st{color:red;order:{N}}", ":\\68ost{top:1rpx;order:{N}}", ":/**/host{color:red;order:{N}}",
];
const CHAINS_A: &[&[&str]] = &[&[WRAPS[0]], &[WRAPS[1], WRAPS[2]], &[WRAPS[5], WRAPS[3], WRAPS[4]]];
const CHAINS_C: &[&[&str]] = &[&[], &[WRAPS[0]], &["@MEDIA (min-width:1px)"], &[WRAPS[4], WRAPS[2]]];

fn sequences(n: usize, max_len: usize, mut f: impl FnMut(&[usize]) -> bool) -> bool {
    for d in 1..=max_len {
        let mut idx = vec![0usize; d];
        loop {
            if !f(&idx) { return false; }
            let mut k = 0;
            while k < d { idx[k] += 1; if idx[k] < n { break; } idx[k] = 0; k += 1; }
            if k == d { break; }
        }
    }
    true
}
fn sheet_of(pieces: &[&str], idx: &[usize], chain: &[&str]) -> String {
    let mut s = String::new();
    for w in chain { s += w; s += "{"; }
    for (n, i) in idx.iter().enumerate() { s += &pieces[*i].replace("{N}", &n.to_string()); }
    for _ in chain { s += "}"; }
    s
}
/// family B: all well-nested strings over H O C ( ) with <= max_len symbols and depth <= max_depth
fn shapes(max_len: usize, max_depth: usize) -> Vec<Vec<u8>> {
    fn go(cur: &mut Vec<u8>, depth: usize, max_len: usize, max_depth: usize, out: &mut Vec<Vec<u8>>) {
        if depth == 0 && !cur.is_empty() { out.push(cur.clone()); }
        if cur.len() + depth >= max_len {
            if depth > 0 && cur.len() < max_len { cur.push(b')'); go(cur, depth - 1, max_len, max_depth, out); cur.pop(); }
            return;
        }
        for s in [b'H', b'O', b'C'] { cur.push(s); go(cur, depth, max_len, max_depth, out); cur.pop(); }
        if depth < max_depth && cur.len() + depth + 2 <= max_len { cur.push(b'('); go(cur, depth + 1, max_len, max_depth, out); cur.pop(); }
        if depth > 0 { cur.push(b')'); go(cur, depth - 1, max_len, max_depth, out); cur.pop(); }
    }
    let mut out = vec![];
    go(&mut vec![], 0, max_len, max_depth, &mut out);
    out
}
fn sheet_of_shape(shape: &[u8], salt: usize) -> String {
    let mut s = String::new();
    let (mut n, mut w) = (0usize, 0usize);
    for c in shape {
        match c {
            b'H' => { s += &HOSTS[(n + salt) % HOSTS.len()].replace("{N}", &n.to_string()); n += 1; }
            b'O' => { s += &ORDS[(n + salt) % ORDS.len()].replace("{N}", &n.to_string()); n += 1; }
            b'C' => { s += &COMBOS[(n + salt) % COMBOS.len()].replace("{N}", &n.to_string()); n += 1; }
            b'(' => { s += WRAPS[(w + salt / 3) % WRAPS.len()]; s += "{"; w += 1; }
            _ => s += "}",
        }
    }
    s
}

pub fn search() -> Outcome {
    std::panic::set_hook(Box::new(|_| {}));
    let strict = strict();
    let cfgs = Cfg::all();
    let mut count = 0u64;
    let mut found: Option<Outcome> = None;
    // HOSTPART_ALL=1: list every failing input on stderr instead of stopping at the first (the first is still returned)
    let list_all = std::env::var("HOSTPART_ALL").is_ok();
    let mut eval = |css: String| -> bool {
        for cfg in &cfgs {
            count += 1;
            let (c2, s2) = (cfg.clone(), css.clone());
            let r = std::panic::catch_unwind(move || check(&c2, &s2, strict));
            let (got, want) = match r { Ok(None) => continue, Ok(Some(x)) => x, Err(_) => ("panic".to_string(), "no panic".to_string()) };
            if list_all { eprintln!("{}\t{}\t{}", cfg.encode(&css).replace('\n', "\\n"), got.replace('\n', "\\n"), want); }
            if found.is_none() { found = Some(Outcome { found: true, input: cfg.encode(&css), observed: got, expected: want, evaluations: count, bound: BOUND.into() }); }
            if !list_all { return false; }
        }
        true
    };
    // A
    let mut ok = sequences(PIECES_A.len(), 4, |idx| eval(sheet_of(PIECES_A, idx, &[])));
    for chain in CHAINS_A { ok = ok && sequences(PIECES_A.len(), 3, |idx| eval(sheet_of(PIECES_A, idx, chain))); }
    // deep chains: the same wrappers repeated to depth 6, 8 and 12 (the property holds at every nesting depth)
    for depth in [6usize, 8, 12] {
        let deep: Vec<&str> = (0..depth).map(|i| WRAPS[[0usize, 1, 2, 3, 5][i % 5]]).collect();
        ok = ok && sequences(PIECES_A.len(), 2, |idx| eval(sheet_of(PIECES_A, idx, &deep)));
    }
    // B
    if ok { for (i, shape) in shapes(7, 3).iter().enumerate() { if !eval(sheet_of_shape(shape, i)) { ok = false; break; } } }
    // C
    if ok {
        let all: Vec<&str> = PIECES_A.iter().chain(PROBES.iter()).cloned().collect();
        for chain in CHAINS_C { if !sequences(all.len(), 2, |idx| eval(sheet_of(&all, idx, chain))) { break; } }
    }
    drop(eval);
    match found { Some(o) => o, None => Outcome::none(count, BOUND) }
}

pub fn run(input: &str) -> Outcome {
    let Some((cfg, css)) = Cfg::decode(input) else {
        return Outcome { found: true, input: input.into(), observed: "input not understood".into(), expected: "conv=<0|1> pfx=<-|text> is=<-|text> :: <css>".into(), evaluations: 0, bound: "single input".into() };
    };
    match check(&cfg, &css, strict()) {
        Some((got, want)) => Outcome { found: true, input: input.into(), observed: got, expected: want, evaluations: 1, bound: "single input".into() },
        None => Outcome { found: false, input: input.into(), observed: String::new(), expected: String::new(), evaluations: 1, bound: "single input".into() },
    }
}
