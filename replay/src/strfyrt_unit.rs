//! STRFYRT (bounded differential stand-in for property C14: "stringify is a faithful, stable inverse of parse").
//! The printer (stringify/{mod,tag,expr}.rs + escape.rs) is outside the verifier's subset as a whole, so this
//! unit drives the REAL parser, printer and code generator over a deterministic, directed enumeration of WXML
//! templates (no RNG; the enumeration order is fixed, the first failing template is the witness).
//!
//! WHAT IS ENUMERATED (the exact counts are printed in the `bound` field):
//!  single  : the shortest members of the families below (enumerated first so that witnesses are small).
//!  node    : every LEAF alone, every CONTAINER(LEAF), CONTAINER(CONTAINER(small LEAF)), CONTAINER^3 on a few leaves
//!            (small LEAF = every 5th leaf + 3 scope-mixing ones).
//!            LEAF = static text incl. `<` `&` `"` and text that spells an entity after decoding (`&amp;lt;`),
//!            `{{ }}` bindings alone and mixed with text, normal elements with every attribute kind (static,
//!            dynamic, class/style, data-* / data:, mark:, bind/catch/capture-/mut- events, model:, change:,
//!            worklet:, generic:, extra-attr:, slot, slot:), <slot>, <include>, <template is>, comments, meta tags.
//!            CONTAINER = <view>, <block>, wx:if / elif / else chains, wx:for with default and renamed item/index
//!            (also renamed onto data-field names), slot: value refs on element / <block>, <template name>, and
//!            ill-formed wrappers (unclosed, wrong end tag, stray end tag).
//!  pair    : every ordered pair LEAF LEAF; all triples and all CONTAINER(pair) of the small leaves; every childless
//!            scope declarer (`<child slot:a/>`, `<block slot:a/>`, `<slot slot:a/>`, EMPTY `<block wx:for>` ...)
//!            followed by every scope user or binding (later siblings that use scope variables or data fields with
//!            the same names): bare, declarer twice, declarer nested, and inside every container.
//!  attr    : 10 host tags (view, slot, block, wx:for element, template is / name, import, include, wxs, custom
//!            component) x 40 attribute names x 24 value spellings (none, empty, quoted both ways, unquoted,
//!            unterminated, bindings, mixed, entities, raw `<` `>` `&`, newline), every ordered pair of names.
//!  expr    : all `a o1 b o2 c`, `(a o1 b) o2 c`, `a o1 (b o2 c)` over 23 binary operators, ternary and unary mixes
//!            with each operator, and a directed list (literals, members, calls, object/array literals, spreads,
//!            nested ternaries in all three positions) in 12 value positions (text, mixed text, attribute with
//!            either quote, class, wx:if, wx:for, template data, data:, event, model:, slot name).
//!  globals : every sequence of <= 3 items from <import>, <include>, <wxs> inline / src / empty, <template name>,
//!            <template is data>, and users of the script modules (incl. scopes shadowing a module name).
//!  broken  : for a base corpus of well-formed templates: every prefix, every single-character deletion, and
//!            every insertion of a fragment (`</x>`, `</view>`, `</>`, `<`, `>`, `"`, `{{`, `}}`, `/`, ` =`, `<!--`,
//!            ` a`) before every `<`, `>`, space and `"`.
//!
//! ORACLES, from the property text; for each template t, with T1 = parse(t), and for printing both without and
//! with scope-name mangling:  p1 = print(T1), T2 = parse(p1), p2 = print(T2)
//!  (a) p2 == p1 (printing is a fixpoint after one round; for the mangled text also with the plain printer);
//!  (b) parsing p1 gives no diagnostic above Note level;
//!  (c) behaviour(T2) == behaviour(T1), approximated by the SUFFICIENT condition that TmplGroup's generated code
//!      for T1 and T2 is textually identical (the mangled round trip is compared with the code of T1 as well:
//!      the generated code never contains scope names).
//!      Both codes are first passed through `canon` (see there): a constant string written as `{{ 'a' }}` and as
//!      static text differ only in the update guard and a to-string wrapper.
//! A panic anywhere is reported as found.
//!
//! REPAIRED, NOW ENUMERATED (found by this unit on 3a0d4a2, fixed up to f442e10; the former KNOWN inputs are in REPAIRED):
//!  K1 static text that contains `{{` after entity decoding (`&#123;{x}}`): repaired by fix commit 294b1de (runs of
//!     >= 2 `{` are printed as `&#123;`), now enumerated in text and attribute values.  Residual: K11.
//!  K2 user-written `+` chains with a string literal operand (`{{ 'a' + b }}`): repaired by 540108e (only parser-built
//!     mixed text is split), now enumerated in every value position.  Not enumerated: chains of string literals ONLY
//!     (`{{ 'a' + 'b' }}`), still printed as the static text `ab` - constant folding, irrelevant.
//!  K3 a value that is only a BLANK string literal (`<view>{{ ' ' }}</view>`): repaired by 6525a06 (stays `{{" "}}`), now
//!     enumerated in every value position.  Non-blank whole-value literals (`{{ 'a' }}`) are still printed as static
//!     text, which is fine; they are enumerated in text and in the attribute positions LIT_POSITIONS (see LIT_VALUES
//!     for the positions that are dropped and why).  Residual: K3r.
//!  K7 comment-only `<template name>`: repaired by f442e10 (printed self-closing), narrowing removed.
//!  K9 member access on a number literal (`{{ (1).a }}`): repaired by 3d6b8a3 (parentheses kept), now enumerated together
//!     with index / call on number literals.
//!
//! NOT COVERED / DELIBERATELY NARROWED (every item fails on the compiler at f442e10; see KNOWN, which gives for each input
//! whether VX_STRFYRT_STRICT=1 is needed to see it fail):
//!  K3r a value that is only the EMPTY string literal (`<view>{{ '' }}</view>`, `<view id="{{ '' }}"/>`) is printed as empty
//!     text (pinned by an existing unit test): the text node disappears, resp. `id=""` re-prints as `id` (oracle (a)).
//!     Minor.  Not enumerated (`x{{ '' }}y` and `''` inside larger expressions are).
//!  K4 with mangling, wx:for prints the ORIGINAL item/index names (or omits the default ones) in the attributes but
//!     the mangled names in the body (`<block wx:for="{{l}}">{{_$0}}</block>`), so the re-parsed body refers to
//!     data fields.  GENUINE.  Narrowing: oracle (c) of the mangled round trip is skipped when T1 contains a
//!     wx:for element ((a), (b) and the whole plain round trip are still checked).
//!  K5 inline <wxs> content containing `</wxs` + name character (`"</wxsa"`) is printed as `< /wxsa`: the script
//!     text changes.  GENUINE (minor).  Not enumerated.
//!  K6 sibling text nodes separated only by a comment or an ignored stray end tag (`x<!-- c -->y`, `x</view>y`)
//!     are printed adjacently and re-parse as ONE text node.  Same text content, different node structure
//!     (low severity).  Narrowing: oracle (c) is skipped when T1 has adjacent text siblings (comments ignored).
//!  K8 `data-` with nothing after the dash (`<view data-="d"/>`) is kept as a data attribute with an EMPTY name and
//!     printed as `data:="d"`, which re-parses with the Warn-level "invalid attribute prefix".  GENUINE (minor).
//!     Narrowing: inputs whose T1 has a data attribute with an empty name are skipped altogether.
//!  K10 a `data` value on `<template is>` that is static text or printed as static text (unquoted `data=v`, ill-formed;
//!     `data="{{ 'x' }}"`) is printed as `data="v"`, which the parser drops (Note), so the second print loses it: oracle
//!     (a) fails.  GENUINE (minor).  Not enumerated (these name/value combinations are skipped).
//!  K11 (residual of K1) a static piece ENDING in a single `{` directly followed by a binding (`a&#123;{{b}}`) is printed
//!     as `a{{{b}}`, which re-parses with the Fatal "missing expression end": oracle (b) fails.  A lone trailing `{`
//!     printed raw is pinned by an existing unit test.  GENUINE.  Not enumerated.
//!  The number of inputs hit by each narrowing is printed in the `bound` field.
//!  Also not covered: behaviour is never executed (no JS runtime here) - (c) can only say "identical code";
//!  dev-mode code, source maps / locations (C16), templates deeper than 3 levels, attribute values / expressions
//!  outside the pools below, other files of the group (imports/includes stay unresolved).
//!
//! Environment: VX_STRFYRT_ALL=1 keeps going after a finding and lists every failing input on stderr;
//! VX_STRFYRT_KNOWN=1 additionally enumerates the KNOWN inputs (then `search` reports the first of them);
//! VX_STRFYRT_STRICT=1 switches the narrowings K4, K6, K8 off (search and run), to reproduce those findings.
use crate::Outcome;
use glass_easel_template_compiler::parse::tag::{ElementKind, Node};
use glass_easel_template_compiler::parse::{ParseError, ParseErrorLevel};
use glass_easel_template_compiler::stringify::{Stringifier, Stringify};
use glass_easel_template_compiler::TmplGroup;
use std::collections::HashSet;

/// the template's own path: two levels, so that relative imports / includes / script sources resolve non-trivially
const PATH: &str = "p/t";

// ---------------------------------------------------------------------------------------------------------------
// oracle
// ---------------------------------------------------------------------------------------------------------------

fn print_with(g: &TmplGroup, mangling: bool) -> String {
    let tree = g.get_tree(PATH).expect("the tree was just added");
    let mut s = Stringifier::new(String::new(), PATH, "");
    s.set_mangling(mangling);
    tree.stringify_write(&mut s).expect("writing to a String cannot fail");
    s.finish().0
}
fn gen_code(g: &TmplGroup) -> String {
    match g.get_tmpl_gen_object(PATH) {
        Ok(c) => c,
        Err(e) => format!("<<code generation failed: {}>>", e.message),
    }
}
fn above_note(d: &[ParseError]) -> Vec<String> {
    d.iter().filter(|e| e.level() > ParseErrorLevel::Note).map(|e| e.to_string()).collect()
}
/// Generated code modulo the two differences between a constant string written as `{{ 'a' }}` and as static text `a`
/// (the printer may turn the former into the latter): a value without data dependencies is guarded by
/// `C||K||undefined` (re-applied when the whole data changes - idempotent for a constant) where static text is
/// guarded by `C`, and a text-node expression is wrapped in the to-string helper `Y(...)`, the identity on a
/// string literal.  So: `C||K||undefined` -> `C`, `Y("lit")` -> `"lit"`.
fn canon(code: &str) -> String {
    let s = code.replace("C||K||undefined", "C");
    let b = s.as_bytes();
    let mut out = String::with_capacity(s.len());
    let mut i = 0;
    while let Some(k) = s[i..].find("Y(\"") {
        let at = i + k;
        let ident_before = at > 0 && (b[at - 1].is_ascii_alphanumeric() || b[at - 1] == b'_' || b[at - 1] == b'$' || b[at - 1] == b'.');
        let mut j = at + 3; // just after the opening quote
        while j < b.len() && b[j] != b'"' { if b[j] == b'\\' { j += 1; } j += 1; }
        if !ident_before && j + 1 < b.len() && b[j + 1] == b')' {
            out.push_str(&s[i..at]);
            out.push_str(&s[at + 2..=j]);
            i = j + 2;
        } else {
            out.push_str(&s[i..at + 3]);
            i = at + 3;
        }
    }
    out.push_str(&s[i..]);
    out
}

/// the neighbourhood of the first difference of two generated codes
fn first_diff(got: &str, want: &str) -> String {
    let n = got.bytes().zip(want.bytes()).take_while(|(x, y)| x == y).count();
    let cut = |x: &str| {
        let (mut s, mut e) = (n.saturating_sub(40).min(x.len()), (n + 60).min(x.len()));
        while !x.is_char_boundary(s) { s -= 1; }
        while !x.is_char_boundary(e) { e += 1; }
        x[s..e].to_string()
    };
    format!("re-parsed: ...{}...  original: ...{}...", cut(got), cut(want))
}

/// VX_STRFYRT_STRICT=1 switches the narrowings K4, K6, K8 off (to reproduce those findings)
fn strict() -> bool { std::env::var_os("VX_STRFYRT_STRICT").is_some() }

/// properties of T1 = parse(t) that narrow oracle (c) (K4, K6 in the header)
#[derive(Default)]
struct Shape { has_for: bool, adjacent_text: bool, empty_data_name: bool }
fn scan(nodes: &[Node], s: &mut Shape) {
    let mut prev_text = false;
    for n in nodes {
        match n {
            Node::Text(_) => { if prev_text { s.adjacent_text = true; } prev_text = true; }
            Node::Comment(_) => {} // not printed: the text nodes around it become adjacent
            Node::Element(e) => {
                prev_text = false;
                if let ElementKind::Normal { common, .. } | ElementKind::Slot { common, .. } = &e.kind {
                    if common.data.iter().any(|a| a.name.name.is_empty()) { s.empty_data_name = true; }
                }
                match &e.kind {
                    ElementKind::Normal { children, .. } | ElementKind::Pure { children, .. } => scan(children, s),
                    ElementKind::For { children, .. } => { s.has_for = true; scan(children, s); }
                    ElementKind::If { branches, else_branch, .. } => {
                        for (_, _, children) in branches { scan(children, s); }
                        if let Some((_, children)) = else_branch { scan(children, s); }
                    }
                    _ => {}
                }
            }
            _ => { prev_text = false; }
        }
    }
}

/// (None, shape) = the property holds on `src`; (Some((observed, expected)), shape) otherwise.
/// `shape` says which narrowings (K4, K6, K8) applied to this input.
fn check(src: &str) -> (Option<(String, String)>, Shape) {
    let mut g1 = TmplGroup::new();
    let _ = g1.add_tmpl(PATH, src); // the input may be ill-formed: its own diagnostics are not constrained
    let mut shape = Shape::default();
    {
        let t1 = g1.get_tree(PATH).expect("the tree was just added");
        scan(&t1.content, &mut shape);
        for sub in t1.globals.sub_templates.iter() { scan(&sub.content, &mut shape); }
    }
    if strict() { shape = Shape::default(); }
    if shape.empty_data_name { return (None, shape); } // K8
    let plain = g1.stringify_tmpl(PATH).expect("the tree was just added");
    let mangled = print_with(&g1, true);
    let code1 = canon(&gen_code(&g1));
    for (label, p1, mangling) in [("plain", &plain, false), ("mangled", &mangled, true)] {
        let mut g2 = TmplGroup::new();
        let diag = g2.add_tmpl(PATH, p1);
        // (b)
        let bad = above_note(&diag);
        if !bad.is_empty() {
            return (Some((format!("[{}] printed text {:?} re-parses with {:?}", label, p1, bad), "no diagnostics above Note level".into())), shape);
        }
        // (a)
        let p2 = print_with(&g2, mangling);
        if &p2 != p1 {
            return (Some((format!("[{}] not a fixpoint: first print {:?}, second print {:?}", label, p1, p2), "second print == first print".into())), shape);
        }
        if mangling {
            let p2 = print_with(&g2, false);
            if &p2 != p1 {
                return (Some((format!("[mangled, re-printed plainly] not a fixpoint: first print {:?}, second print {:?}", p1, p2), "second print == first print".into())), shape);
            }
        }
        // (c), not under K6, and not under K4 for the mangled text
        if shape.adjacent_text || (mangling && shape.has_for) { continue; }
        let code2 = canon(&gen_code(&g2));
        if code2 != code1 {
            return (Some((format!("[{}] printed as {:?}; generated code differs: {}", label, p1, first_diff(&code2, &code1)), "generated code of parse(print(parse(t))) identical to that of parse(t)".into())), shape);
        }
    }
    (None, shape)
}

fn check_caught(src: &str) -> (Option<(String, String)>, Shape) {
    let s = src.to_string();
    match std::panic::catch_unwind(move || check(&s)) {
        Ok(r) => r,
        Err(e) => {
            let msg = e.downcast_ref::<String>().cloned().or_else(|| e.downcast_ref::<&str>().map(|x| x.to_string())).unwrap_or_default();
            (Some((format!("panic: {}", msg), "returns normally".into())), Shape::default())
        }
    }
}

// ---------------------------------------------------------------------------------------------------------------
// pools
// ---------------------------------------------------------------------------------------------------------------

/// (K-number, input, needs VX_STRFYRT_STRICT=1 to fail): inputs known to break the property on the compiler at f442e10.
/// `VX_STRFYRT_STRICT=1 vxreplay STRFYRT run '<input>'` exits 1 for every one of them.  Enumerated by `search` only with
/// VX_STRFYRT_KNOWN=1.
const KNOWN: &[(&str, &str, bool)] = &[
    ("K3r", "<view>{{ '' }}</view>", false), ("K3r", "{{ '' }}", false), ("K3r", "<view id=\"{{ '' }}\"/>", false),
    ("K4", "<block wx:for=\"{{l}}\">{{item}}</block>", true),
    ("K5", "<wxs module=\"m\">var s = \"</wxsa\"</wxs>", false),
    ("K6", "x<!-- c -->y", true), ("K6", "x</view>y", true),
    ("K8", "<view data-=\"d\"/>", true),
    ("K10", "<template is=\"t\" data=v/>", false), ("K10", "<template is=\"t\" data=\"{{ 'x' }}\"/>", false),
    ("K11", "a&#123;{{b}}", false), ("K11", "<view title=\"a&#123;{{b}}\"/>", false),
];
/// former KNOWN inputs of the repaired classes K1, K2, K3, K7, K9: ordinary enumerated inputs now
const REPAIRED: &[&str] = &[
    "&#123;{x}}", "&#123;&#123;x}}", "{{ 'a' + b }}", "{{ a + 'b' }}", "<view title=\"{{ 'x' + a }}\"/>", "<view>{{ ' ' }}</view>", "{{ 'a' }}",
    "<template name=\"t\"><!-- c --></template>", "{{ (1).a }}", "<view title=\"{{ 1 .a }}\"/>", "{{ (1.5).a }}",
];

const TEXTS: &[&str] = &[
    "hello", " a b ", "a &lt; b", "x &amp; y", "&amp;lt;", "&amp;amp;", "&amp;quot;q&amp;quot;", "&amp;gt;", "&amp;lt",
    "&amp;nbsp;", "&#38;lt;", "&#x26;#60;", "say \"hi\"", "&quot;", "a > b", "&gt;", "&nbsp;", "&#x41;&#97;", "&#x3c;&#60;",
    "&lt", "R&D", "&", "it's", "{ {", "a}}b",
    // static text that decodes to `{{`, `{{{` (K1, repaired)
    "&#123;{x}}", "&#123;&#123;x}}", "{&#123;x}}", "&#x7b;&#x7B;&#123;x}}}", "a&#123;&#123;", "&#123;&#123;&#123;", "x&#123;y", "{&#123;{", "{{a}}&#123;&#123;b}}", "line\nbreak", "\u{4e2d}\u{6587}\u{a0}", "<", "1<2", "<-",
];
const BINDS: &[&str] = &[
    "{{a}}", "{{ a.b.c }}", "{{ a[0] }}", "{{a}}{{b}}", "x {{a}} y {{b}} z", "{{a}}&amp;lt;", "&amp;amp;{{a}}", "{{a}}\"{{b}}",
    "{{a}}<", "{{ a ? b : c }}", "{{ a ? '&lt;' : \"<\" }}", "{{ item }}:{{ index }}", "{{ x }}{{ i }}", "{{ m.f(a) }}",
    "{{ 'a' + b }}", "{{ a + 'b' }}", "{{ 'a' }}", "{{ ' ' }}", "x{{ ' ' }}", "x{{ '' }}y", "{{ (1).a }}", "{{ a < b && c > d }}", "{{ {k: a}.k }}", "{{ [a, b][0] }}", "{{}}", "{{ a b }}", "{{ a",
];
/// elements that do not introduce scopes
const ELEMS: &[&str] = &[
    "<view/>", "<view></view>", "<view id=\"i\"/>", "<view id=\"{{a}}\"/>", "<view class=\"a b\"/>", "<view class=\"{{a}} x\"/>",
    "<view style=\"color:red\"/>", "<view style=\"w:{{a}}px\"/>", "<view hidden/>", "<view hidden=\"{{a}}\"/>",
    "<view title=\"a&quot;b\"/>", "<view title='a\"b'/>", "<view title=\"&amp;lt;\"/>", "<view title=\"x &amp;amp; {{a}}\"/>",
    "<view data-k=\"1\"/>", "<view data:kK=\"{{a}}\"/>", "<view mark:m=\"{{a}}\"/>", "<view bind:tap=\"onTap\"/>", "<view bindtap=\"onTap\"/>",
    "<view catch:tap=\"{{ a }}\"/>", "<view capture-bind:tap=\"f\" mut-bind:tap=\"g\"/>", "<input model:value=\"{{a}}\"/>",
    "<comp change:prop=\"{{ m.f }}\"/>", "<comp worklet:w=\"f\" generic:g=\"x\" extra-attr:e=\"y\"/>", "<view slot=\"s\"/>", "<view slot=\"{{a}}\">t</view>",
    "<slot/>", "<slot name=\"n\"/>", "<slot name=\"{{a}}\" v=\"{{b}}\"/>", "<include src=\"inc\"/>", "<template is=\"t\"/>",
    "<template is=\"{{a}}\" data=\"{{ ...b, c: 1 }}\"/>", "<!-- c -->", "<!meta k=\"v\">", "<view>{{a}}</view>", "<view>t</view>",
    "<view><text>{{b}}</text><text>b</text></view>", "<View Title=\"T\"/>", "<view", "<view>", "</view>", "<view x=></view>",
];
/// elements that declare scope names and have NO children
const SCOPE_DECLS: &[&str] = &[
    "<child slot:a/>", "<child slot:a></child>", "<child slot:a=\"x\"/>", "<child slot:b slot:a/>", "<block slot:a/>", "<slot slot:a/>",
    "<child slot:item/>", "<child slot:a><!-- c --></child>", "<block wx:for=\"{{l}}\"/>", "<block wx:for=\"{{l}}\"></block>",
    "<block wx:for=\"{{l}}\" wx:for-item=\"x\" wx:for-index=\"i\"/>", "<block wx:for=\"{{l}}\" wx:for-item=\"a\"/>", "<view wx:if=\"{{c}}\" slot:a/>",
];
/// elements whose children use scope names (and data fields with the same names)
const SCOPE_USES: &[&str] = &[
    "<child slot:b>{{b}}</child>", "<child slot:a slot:b=\"c\">{{a}}{{c}}{{b}}</child>", "<block slot:x>{{x}}{{a}}</block>",
    "<slot slot:v name=\"{{v}}\"/>", "<block wx:for=\"{{l}}\">{{index}}:{{item}}</block>",
    "<view wx:for=\"{{l}}\" wx:for-item=\"x\" wx:for-index=\"i\" wx:key=\"k\" title=\"{{x}}\">{{x}}{{i}}{{item}}</view>",
    "<block wx:for=\"{{l}}\"><block wx:for=\"{{item}}\" wx:for-item=\"y\">{{item}}{{y}}{{index}}</block></block>",
    "<child slot:item><view wx:for=\"{{item}}\" wx:for-index=\"a\">{{a}}{{item}}</view></child>", "<view>{{a}}{{x}}</view>",
    "<child slot:a-b=\"c-d\" title=\"{{aB}}\">{{a}}</child>",
    "<block wx:for=\"{{l}}\" wx:for-item=\"index\" wx:for-index=\"item\">{{item}}{{index}}</block>", "<view wx:for=\"{{l}}\" wx:for-index=\"item\">{{item}}{{index}}</view>",
];
/// wrappers; `@` is the hole
const CONTAINERS: &[&str] = &[
    "<view>@</view>", "<view class=\"c {{a}}\" bind:tap=\"f\">@</view>", "<block>@</block>", "<block wx:if=\"{{c}}\">@</block>",
    "<view wx:if=\"{{c}}\">@</view><view wx:else>e</view>", "<block wx:if=\"{{c}}\">x</block><block wx:elif=\"{{d}}\">@</block><view wx:else>@</view>",
    "<block wx:for=\"{{l}}\">@</block>", "<view wx:for=\"{{l}}\" wx:for-item=\"a\" wx:for-index=\"b\">@</view>",
    "<view wx:for=\"{{l}}\" wx:for-item=\"x\" wx:for-index=\"i\" wx:key=\"*this\">@</view>", "<view wx:if=\"{{c}}\" wx:for=\"{{l}}\">@</view>",
    "<child slot:a>@</child>", "<child slot:item=\"b\" slot:x>@</child>", "<block slot=\"s\" slot:a>@</block>", "<template name=\"t\">@</template>",
    "<view>@</view><view>{{a}}{{item}}</view>", "\n<view>\n  @\n</view>\n", "<view>@", "<view>@</span>", "<view><span>@</view>", "@</view>", "<view @>",
];

const BINOPS: &[&str] = &[
    "*", "/", "%", "+", "-", "<<", ">>", ">>>", "<", ">", "<=", ">=", "instanceof", "==", "!=", "===", "!==", "&", "^", "|", "&&", "||", "??",
];
const UNOPS: &[&str] = &["!", "-", "+", "~", "typeof ", "void "];
const EXPRS: &[&str] = &[
    // user-written `+` chains with string literal operands (K2, repaired)
    "'a' + b", "a + 'b'", "\"a\" + b", "a + 'b' + c", "'a' + b + 'c'", "a + 1 + 'x'", "'x' + (a + 1)", "('x' + a)", "(a + 'b') + c", "a + ('b' + c)", "'a' + b.c[0]",
    "'a' + (b ? 'c' : d)", "' ' + a", "a + ' '", "'&lt;' + a + '<'", "'a' + b + c + 'd' + e", "a + '{{'", "'a' + -b", "'a' + !b + 1",
    // blank string literals as a whole value stay expressions (K3, repaired)
    "' '", "'  '", "'\\n'", "'\\t '",
    // member / index / call on number literals (K9, repaired)
    "(1).a", "1 .a", "(1.5).a", "(1).a.b", "(1).a(2)", "(0x1f).a", "(1e3).a", "(-1).a", "-(1).a", "(1)[0]", "1[0]", "1.5[a]", "(1)(2)", "1(2)", "(1).a + (2).b", "[1][0].a", "(1 + 2).a",
    "a", "a.b", "a[0]", "a[b]", "a[b.c]", "a.b[c].d", "1", "1.5", "0x1f", "1e3", "0", "true", "false", "null", "undefined",
    "1.0", "0.5", ".5", "5.", "1e21", "1e-7", "0.1e2", "123456789012", "9007199254740993", "0777", "0b11", "0o17", "1.5.a", "1..a", "(a).b", "-1", "- 1.5", "a ? 1.50 : -0",
    "a ? '\\n' : '\\\\'", "a ? '\\u4e2d' : '\\x41'", "a ? '\u{4e2d}' : '\u{1F600}'", "a ? 'a\\'b' : \"a\\\"b\"", "[1, 'x', true, null, undefined]", "{1: a, 'b c': d, e_f: g, $h: i}",
    "a ? b : c", "(a ? b : c) ? d : e", "a ? (b ? c : d) : e", "a ? b : (c ? d : e)", "a ? b : c ? d : e", "a ? b ? c : d : e",
    "(a ? b : c).d", "(a ? b : c)[0]", "(a ? b : c)(d)", "((a ? b : c) ? d : e) ? f : g", "a ? 'x' : 'y'", "a ? \"x\" : \"y\"",
    "a ? 'it\\'s' : b", "a ? '<' : '&lt;'", "a ? '&amp;lt;' : '&'", "a ? '{{' : '}}'", "a ? '</view>' : '<!--'", "a ? ' ' : ''", "a ? 'x' + b : c",
    "['x', \"y\"]", "{k: 'v'}", "f('x')", "f('x' + a)", "('x' + a) * 2", "'x' - a", "a == 'x'", "a['k']", "a['k-1'].b",
    "[a, , b]", "[a, , ]", "[...a, , b]", "[, a]", "[, , a, , , b, ]", "[a, [ , b], ]", "[,]", "[, ,]", "[a, , b].length", "[a, , b][1]",
    "[a, b]", "[a, ...b]", "[[a], []]", "[]", "{}", "{a: 1, b}", "{...a, b: c}", "{'k-1': a}", "{a: {b: [c]}}", "[a, b][0]", "{a: 1}.a", "({a: 1}).a",
    "f()", "f(a, b)", "f(a)(b)", "a.f(b).g", "m.f(a, 1)", "f(a ? b : c, d)", "f((a, b))", "(a + b).c", "(a + b)[c]", "(a || b)(c)", "(-a).b", "(!a)[0]",
    "- -a", "-(-a)", "+(+a)", "-(+a)", "+(-a)", "!!a", "~~a", "typeof typeof a", "typeof (a + b)", "(typeof a) + b", "typeof a.b", "void 0", "-a.b", "-a[0]", "-f(a)",
    "a - (b - c)", "a - b - c", "a / (b * c)", "(a, b)", "a + b + c", "a + (b + c)", "a * (b + c)", "a ** b", "a?.b", "a in b", "a = b", "a => b", "new a", "a++", "`t`",
];
/// non-blank, non-empty string literals as a WHOLE value (K3): printed as static text.  Only in LIT_POSITIONS: for event
/// bindings, change:, the wx:for list and the slot name the static and the dynamic form of the attribute are compiled by
/// different code paths (dynamic-listener flag, change listener only for dynamic values, update-path arguments),
/// equal in behaviour for a constant but not in text, so oracle (c) cannot compare them.
const LIT_VALUES: &[&str] = &["'a'", "\"a\"", "' a '", "'<'", "'&lt;'", "'&amp;lt;'", "'a\"b'", "'it\\'s'", "'{{'", "'{{{x}}'", "'}}'", "'{'", "'\u{a0}'", "'</view>'"];
/// indices into POSITIONS
const LIT_POSITIONS: &[usize] = &[0, 1, 2, 3, 4, 5, 7, 8, 10];
fn literal_value_compiled_differently(host: &str, name: &str) -> bool {
    ["bind", "catch", "capture-", "mut-bind", "change:"].iter().any(|p| name.starts_with(p)) || name == "wx:for"
        || (host == "slot" && name == "name")
        || (host.starts_with("template is") && name == "data") // K10: printed as static text, which the parser drops
}

/// value positions; `@` is the expression, the second field is the quote character that must not occur in it
const POSITIONS: &[(&str, char)] = &[
    ("<view>{{ @ }}</view>", '\0'), ("<view>x {{ @ }} y{{b}}</view>", '\0'), ("<view title=\"{{ @ }}\"/>", '"'), ("<view title='{{@}}'/>", '\''),
    ("<view class=\"x {{ @ }}\" style=\"{{ @ }}\"/>", '"'), ("<view wx:if=\"{{ @ }}\">t</view><view wx:elif=\"{{ @ }}\"/>", '"'),
    ("<block wx:for=\"{{ @ }}\">{{ item }}</block>", '"'), ("<template is=\"t\" data=\"{{ k: @, ...r }}\"/>", '"'), ("<view data:k=\"{{ @ }}\" mark:m=\"{{ @ }}\"/>", '"'),
    ("<view bind:tap=\"{{ @ }}\" change:p=\"{{ @ }}\"/>", '"'), ("<input model:value=\"{{ @ }}\"/>", '"'), ("<slot name=\"{{ @ }}\" v=\"{{ @ }}\"/>", '"'),
];

/// (text after `<`, end tag name)
const ATTR_HOSTS: &[(&str, &str)] = &[
    ("view", "view"), ("slot", "slot"), ("block", "block"), ("comp-a generic:g=\"x\"", "comp-a"), ("view wx:for=\"{{l}}\"", "view"), ("template is=\"t\"", "template"),
    ("template name=\"t\"", "template"), ("import", "import"), ("include", "include"), ("wxs module=\"m\"", "wxs"),
];
const ATTR_NAMES: &[&str] = &[
    "title", "hidden", "class", "style", "id", "slot", "name", "data-k", "data:kK", "mark:m", "bind:tap", "bindtap", "catch:tap", "catchtap",
    "capture-bind:tap", "capture-catch:tap", "mut-bind:tap", "capture-mut-bind:tap", "model:value", "change:prop", "worklet:w", "generic:g",
    "extra-attr:e", "wx:if", "wx:for", "wx:key", "wx:for-item", "wx:for-index", "slot:v", "slot:a-b", "aria-label", "camelCase", "class:foo", "style:color",
    "src", "is", "data", "module", "wx:else", "wx:elif",
];
const ATTR_VALUES: &[&str] = &[
    "", "=\"\"", "=\"v\"", "='v'", "=v", "=\"{{v}}\"", "={{v}}", "=\"a {{v}} b\"", "=\"{{v}}{{w}}\"", "=\"a&quot;b\"", "='a\"b'", "=\"a'b\"", "=\"&amp;lt;\"", "=\"&lt;\"",
    "=\"<\"", "=\">\"", "=\"&amp;\"", "=\"&\"", "=\"{{ v ? 'a' : 'b' }}\"", "='{{ v ? \"a\" : \"b\" }}'", "=\" \"", "=\"a\nb\"", "=\"{{v}}&amp;quot;\"", "=\"v",
    "=\"&#123;{x}}\"", "=\"a&#123;&#123;&#123;\"", "=\"{{ 'x' }}\"", "=\"{{ ' ' }}\"", "=\"{{ 'x' + v }}\"",
];

const GLOBALS: &[&str] = &[
    "<import src=\"a\"/>", "<import src=\"../b.wxml\"/>", "<import src=\"/c/d\"></import>", "<include src=\"i\"/>", "<include src=\"./i.wxml\"/>",
    "<wxs module=\"m\">exports.f = function (x) { return x < 1 && x > 0 ? \"a\" : 'b' }</wxs>", "<wxs module=\"m\" src=\"./m.wxs\"/>", "<wxs module=\"n\" src=\"/lib/n\"/>",
    "<wxs module=\"m\"/>", "<wxs module=\"n\">\n// c\nmodule.exports = { g: 1 }\n</wxs>", "<template name=\"t\"><view>{{a}}</view></template>",
    "<template name=\"u\">{{ m.f(a) }}<slot/></template>", "<template name=\"t\"/>", "<template is=\"t\"/>", "<template is=\"u\" data=\"{{ a, b: m.f(1) }}\"/>",
    "<template is=\"{{ c ? 't' : 'u' }}\" data=\"{{ ...d }}\"/>", "<view>{{ m.f(a) }}{{ n.g }}</view>", "<view change:p=\"{{ m.f }}\" bind:tap=\"{{ m.f }}\"/>",
    "<child slot:m>{{ m }}</child>", "<block wx:for=\"{{ l }}\" wx:for-item=\"m\">{{ m }}{{ n.g }}</block>", "text",
];

/// base corpus of the `broken` family (well-formed, one feature group each)
const BASES: &[&str] = &[
    "<view class=\"a {{b}}\" bind:tap=\"f\">x &amp;lt; {{ c }}</view>",
    "<view wx:if=\"{{a}}\">1</view><view wx:elif=\"{{b}}\">2</view><view wx:else>3</view>",
    "<block wx:for=\"{{l}}\" wx:for-item=\"x\" wx:for-index=\"i\" wx:key=\"k\"><text>{{i}}: {{x}}</text></block>",
    "<child slot:a slot:b=\"c\"><view title=\"{{a}}\">{{c}}</view></child><child slot:d/>{{d}}",
    "<template name=\"t\"><slot name=\"s\" v=\"{{a}}\"/></template><template is=\"t\" data=\"{{ a: 1, ...b }}\"/>",
    "<import src=\"a\"/><include src=\"b\"/><wxs module=\"m\" src=\"c\"/><wxs module=\"n\">var a = 1 < 2</wxs>{{ m.f(n.a) }}",
    "<input model:value=\"{{ v.w[0] }}\" change:p=\"{{ m.f }}\" data-k=\"d\" mark:m=\"{{ 1 }}\" hidden/>",
    "<view title='a\"b' style=\"w:{{ (a ? b : c) ? 'd' : e }}px\"><!-- c -->{{ [a, {b: c}][0].b }}</view>",
    "<block slot=\"s\" slot:a><block wx:for=\"{{a}}\">{{item}}{{a}}</block></block><slot slot:x/>",
    "<view wx:for=\"{{l}}\" wx:if=\"{{item.ok}}\" catch:tap=\"{{ m.h }}\" capture-bind:x=\"g\">&amp;amp; {{index}}</view>",
    "<comp-a generic:g=\"c-b\" worklet:w=\"f\" extra-attr:e=\"v\" slot=\"{{s}}\" id=\"i\" aria-label=\"&quot;q&quot;\"/>",
    "<wxs module=\"m\">\nexports.f = function () { return '<a>' }\n</wxs>\n<view>\n  {{ m.f() }}\n</view>\n",
    "<block wx:if=\"{{ a > 1 && b < 2 }}\"><child slot:v/></block><block wx:else><child slot:w>{{ w ? -w : !v }}</child></block>",
    "<template is=\"{{ a ? 't' : 'u' }}\" data=\"{{ k: [1, 'x'], ...r }}\"/><slot name=\"{{ n }}\" bind:tap=\"f\"/>t &lt; {{ u }}",
];
const INSERTS: &[&str] = &["</x>", "</view>", "</>", "<", ">", "\"", "{{", "}}", "/", " =", "<!--", " a"];

// ---------------------------------------------------------------------------------------------------------------
// enumeration
// ---------------------------------------------------------------------------------------------------------------

struct Corpus { list: Vec<String>, seen: HashSet<String>, families: Vec<(&'static str, usize)> }
impl Corpus {
    fn add(&mut self, s: String) { if !self.seen.contains(&s) { self.seen.insert(s.clone()); self.list.push(s); } }
    fn close(&mut self, family: &'static str) { let before: usize = self.families.iter().map(|f| f.1).sum(); self.families.push((family, self.list.len() - before)); }
}
fn fill(container: &str, x: &str) -> String { container.replace('@', x) }

fn corpus() -> Corpus {
    let mut c = Corpus { list: vec![], seen: HashSet::new(), families: vec![] };
    if std::env::var("VX_STRFYRT_KNOWN").is_ok() {
        for (_, k, _) in KNOWN { c.add(k.to_string()); }
        c.close("known");
    }
    let leaves: Vec<&str> = TEXTS.iter().chain(BINDS).chain(ELEMS).chain(SCOPE_DECLS).chain(SCOPE_USES).copied().collect();
    // small leaves for the deeper nestings: one of each kind
    let small: Vec<&str> = leaves.iter().copied().step_by(5).chain(["&amp;lt;", "{{a}}{{item}}{{x}}", "<child slot:a/>{{a}}<child slot:b>{{b}}{{a}}</child>"]).collect();

    // the shortest inputs of every family first, so that a witness is small
    for r in REPAIRED { c.add(r.to_string()); }
    for l in &leaves { c.add(l.to_string()); }
    for d in SCOPE_DECLS { for u in SCOPE_USES { c.add(format!("{}{}", d, u)); } }
    for e in EXPRS { c.add(fill(POSITIONS[0].0, e)); }
    for g in GLOBALS { c.add(g.to_string()); }
    for b in BASES { c.add(b.to_string()); }
    c.close("single");

    // node
    for k in CONTAINERS { for l in &leaves { c.add(fill(k, l)); } }
    for k1 in CONTAINERS { for k2 in CONTAINERS { for l in &small { c.add(fill(k1, &fill(k2, l))); } } }
    for k1 in CONTAINERS.iter().step_by(2) { for k2 in CONTAINERS.iter().skip(1).step_by(3) { for k3 in CONTAINERS.iter().step_by(3) { for l in small.iter().step_by(4) {
        c.add(fill(k1, &fill(k2, &fill(k3, l))));
    } } } }
    c.close("node");

    // pair
    for d in SCOPE_DECLS { for u in SCOPE_USES.iter().chain(BINDS) {
        c.add(format!("{}{}", d, u));
        c.add(format!("{}{}{}", d, d, u));
        c.add(format!("<view>{}</view>{}", d, u));
        for k in CONTAINERS { c.add(fill(k, &format!("{}{}", d, u))); }
    } }
    for l1 in &leaves { for l2 in &leaves { c.add(format!("{}{}", l1, l2)); } }
    for l1 in &small { for l2 in &small {
        for l3 in &small { c.add(format!("{}{}{}", l1, l2, l3)); }
        for k in CONTAINERS { c.add(fill(k, &format!("{}{}", l1, l2))); }
    } }
    c.close("pair");

    // attr
    for (open, close) in ATTR_HOSTS { for n in ATTR_NAMES { for v in ATTR_VALUES {
        if open.starts_with("template is") && *n == "data" && *v == "=v" { continue; } // K10
        if *v == "=\"{{ 'x' }}\"" && literal_value_compiled_differently(open, n) { continue; }
        c.add(format!("<{} {}{}/>", open, n, v));
        c.add(format!("<{} {}{}>{{{{v}}}}</{}>{{{{v}}}}", open, n, v, close));
    } } }
    for n1 in ATTR_NAMES { for n2 in ATTR_NAMES {
        c.add(format!("<view {}=\"{{{{v}}}}\" {}=\"w\"/>", n1, n2));
        c.add(format!("<slot {} {}=\"{{{{v}}}}\">x</slot>", n1, n2));
    } }
    c.close("attr");

    // expr
    let mut exprs: Vec<String> = EXPRS.iter().map(|s| s.to_string()).collect();
    for o in BINOPS {
        for e in ["a @ b ? c : d", "(a ? b : c) @ d", "a @ (b ? c : d)", "a ? b @ c : d", "a ? b : c @ d", "(a @ b).c", "f(a @ b)", "[a @ b]", "{k: a @ b}"] { exprs.push(fill(e, o)); }
        for u in UNOPS { for e in ["#a @ b", "#(a @ b)", "(#a) @ b", "a @ #b", "a @ (#b)"] { exprs.push(fill(e, o).replace('#', u)); } }
    }
    for u in UNOPS { for v in UNOPS { for e in ["#$a", "#($a)", "#$a.b", "(#a).b", "#a ? b : c", "#(a ? b : c)"] { exprs.push(e.replace('#', u).replace('$', v)); } } }
    for (p, q) in POSITIONS { for e in &exprs { if !e.contains(*q) { c.add(fill(p, e)); } } }
    for i in LIT_POSITIONS { let (p, q) = POSITIONS[*i]; for e in LIT_VALUES { if !e.contains(q) { c.add(fill(p, e)); } } }
    for o1 in BINOPS { for o2 in BINOPS { for shape in ["a 1 b 2 c", "(a 1 b) 2 c", "a 1 (b 2 c)"] {
        let e = shape.replace('1', o1).replace('2', o2);
        c.add(format!("<view>{{{{ {} }}}}</view>", e));
        c.add(format!("<view title=\"{{{{{}}}}}\" wx:if=\"{{{{ {} }}}}\"/>", e, e));
    } } }
    c.close("expr");

    // globals
    for a in GLOBALS {
        c.add(a.to_string());
        for b in GLOBALS {
            c.add(format!("{}{}", a, b));
            for d in GLOBALS { c.add(format!("{}{}{}", a, b, d)); }
        }
    }
    c.close("globals");

    // broken
    for b in BASES {
        c.add(b.to_string());
        for (i, ch) in b.char_indices() {
            c.add(b[..i].to_string());
            c.add(format!("{}{}", &b[..i], &b[i + ch.len_utf8()..]));
            if matches!(ch, '<' | '>' | ' ' | '"') { for ins in INSERTS { c.add(format!("{}{}{}", &b[..i], ins, &b[i..])); } }
        }
    }
    c.close("broken");
    c
}

fn bound(c: &Corpus) -> String {
    let fams: Vec<String> = c.families.iter().map(|(n, k)| format!("{} {}", n, k)).collect();
    format!(
        "{} distinct WXML templates ({}) from {} texts, {} bindings, {} elements, {} childless scope declarers, {} scope users, {} containers (depth <= 3), \
         {} attribute names x {} value spellings, {} binary x {} unary operators + {} directed expressions in {} positions, sequences of <= 3 of {} global items, \
         prefixes / single deletions / {} insert fragments over {} base templates; oracles: print fixpoint, re-parse diagnostics <= Note, identical generated code, each plain and mangled \
         (mangled code oracle skipped under wx:for, code oracle skipped for adjacent text siblings; see the header of strfyrt_unit.rs)",
        c.list.len(), fams.join(", "), TEXTS.len(), BINDS.len(), ELEMS.len(), SCOPE_DECLS.len(), SCOPE_USES.len(), CONTAINERS.len(), ATTR_NAMES.len(), ATTR_VALUES.len(),
        BINOPS.len(), UNOPS.len(), EXPRS.len(), POSITIONS.len(), GLOBALS.len(), INSERTS.len(), BASES.len()
    )
}

pub fn search() -> Outcome {
    std::panic::set_hook(Box::new(|_| {}));
    let all = std::env::var("VX_STRFYRT_ALL").is_ok();
    let c = corpus();
    let mut first: Option<Outcome> = None;
    let (mut count, mut k4, mut k6, mut k8) = (0u64, 0u64, 0u64, 0u64);
    for t in &c.list {
        count += 1;
        let (r, shape) = check_caught(t);
        k4 += shape.has_for as u64;
        k6 += shape.adjacent_text as u64;
        k8 += shape.empty_data_name as u64;
        if let Some((got, want)) = r {
            if all { eprintln!("FAIL {:?}\n     {}", t, got); }
            if first.is_none() { first = Some(Outcome { found: true, input: t.clone(), observed: got, expected: want, evaluations: count, bound: bound(&c) }); }
            if !all { break; }
        }
    }
    let narrowed = format!("; narrowed inputs: {} with wx:for (no mangled code oracle), {} with adjacent text siblings (no code oracle), {} with an empty data- name (skipped)", k4, k6, k8);
    first.unwrap_or_else(|| Outcome::none(count, &(bound(&c) + &narrowed)))
}

pub fn run(input: &str) -> Outcome {
    std::panic::set_hook(Box::new(|_| {}));
    match check_caught(input).0 {
        Some((got, want)) => Outcome { found: true, input: input.into(), observed: got, expected: want, evaluations: 1, bound: "single input".into() },
        None => Outcome { found: false, input: input.into(), observed: String::new(), expected: String::new(), evaluations: 1, bound: "single input".into() },
    }
}
