//! POSLOC (bounded stand-in for property C16: "recorded source positions point at the text they describe").
//!
//! WHAT IS ENUMERATED.  A deterministic stream of well-formed WXML templates (a fixed-seed LCG, no other source of
//! randomness), built from directed pieces and rendered in 7 "gap styles": style 0 is compact, styles 1..6 insert
//! extra blanks / `\n` / `\r\n` / tabs between the tokens of a tag, `/* */` comments (with CJK and astral
//! characters, some spanning a line break) between the tokens of an expression and `<!-- -->` comments (same)
//! between nodes.  Phases: A1 every expression of a pool (identifiers, member chains, index, dec/hex/oct/float
//! numbers, strings with escapes / CJK / astral, calls, unary, binary, ternary, object and array literals) x every
//! binding context (attribute, unquoted attribute, text, mixed attribute, mixed text, wx:if, wx:for, template data,
//! slot, data-/mark:/bind:/model:) x style; A2 every attribute kind x value form x style; A3 every text form (static
//! before / between / AFTER bindings, across line breaks) x style; A4 directed structures (if/elif/else, for with
//! and without item/index/key, slot: refs, template name/is/data, import/include/wxs, slot, nesting 2-3);
//! B LCG-random composite templates of depth <= 3.  Templates that produce any parser diagnostic are skipped.
//!
//! ORACLE 1 (parse locations; public AST of parse::parse, positions converted from (line, UTF-16 column) here):
//!  * slice(source, location) == spelling for: tag name, attribute name (and its `xxx:` prefix), the named
//!    attributes (`wx:if`, `wx:for`, `id`, `is`, `src`, ...), identifiers (DataField, and ScopeRef against a scope
//!    stack rebuilt from the AST), static member names, object field names, keywords, operators and brackets,
//!    number literals (slice re-parsed by a reference dec/hex/oct/float reader, value compared), string literals
//!    (quotes included, compared after JS unescaping), StrName / Value::Static / static text pieces of a mixed
//!    value (compared after entity decoding; static attribute values must be enclosed by their quotes), comments,
//!    inline script bodies, and the `<` `>` `/` records of TagLocation.  Attribute names the parser normalises are
//!    compared through the same normalisation (dash-to-camel for model:/change:/worklet:/slot: and <slot> values,
//!    `data-a-b` -> `aB`).
//!  * order: all located items of an expression / a mixed value appear in source order without overlap; every
//!    attribute list, child list and if-branch list is in source order.
//!  * nesting: tag name directly after `<`; attributes inside the start tag; children between start and end tag
//!    (inside the wrapper's extent for the synthetic If / For wrappers); Expression::location() of EVERY expression
//!    node (binary, conditional, member, index, call, unary, literals) spans exactly from its first to its last
//!    item, so children nest inside their parents.
//! ORACLE 2 (source map of Stringifier): every token's generated position lies in the output on a char boundary
//! and is non-decreasing in emission order; its source position lies in the source on a char boundary; a named
//! token's source text starts with the name (verbatim, or after entity decoding, or modulo the parser's name
//! normalisation above) and the identifier does not continue there; if the emitted text of the token starts with
//! an identifier-like word (tag name - also in an end tag, which maps to the start tag - attribute name, `wx:`
//! name, identifier, member, text word) the source there starts with the same word (same three spellings); if it
//! starts with punctuation (`<` `>` `/` `{{` `}}` operators, brackets) the source there starts with the same
//! punctuation, except the synthetic `{` `}` of `<template data>`.
//!
//! NOT COVERED: templates with diagnostics; UnknownMetaTag; class:/style: multi forms; mangled scope names.
//! NOT ASSERTED because it fails on the current sources (recorded in `KNOWN`; each can be switched back on for `run`,
//! see `strict`):
//!  [v] Value::location() containing the pieces of a mixed value (it starts at the LAST `{{`: `x{{a}}`, `{{a}}{{b}}`);
//!  [m] the first `{{` of a value with two or more bindings in the source map (it maps to the last `{{`);
//!  [n] named source-map tokens of attribute names the parser normalises carry the normalised name, not the source
//!      spelling (`data-foo-bar` -> `fooBar`, `model:value-x` -> `valueX`); admitted through the same normalisation.
//! (Former clauses [d] - text after `{{ x + 'lit' }}` merged into the literal - and [e] - location() of member / index /
//! call / unary nodes - were repaired in the compiler (f4b5e03, 0465be5); that class is enumerated and both are asserted.)
//! Synthetic nodes without source text are checked for their documented placement only: wx:for-item / -index / key
//! defaults (located at `wx:for`), `slot:x` without value (value located at the name), the zero-width braces of
//! `<template data>`.
use crate::Outcome;
use glass_easel_template_compiler::parse::{
    expr::{ArrayFieldKind, Expression, ObjectFieldKind},
    parse,
    tag::{
        Attribute, ClassAttribute, CommonElementAttributes, Element, ElementKind, Ident, Node, NormalAttributePrefix,
        Script, StaticAttribute, StrName, StyleAttribute, TagLocation, Value,
    },
    Position, TemplateStructure,
};
use glass_easel_template_compiler::stringify::{Stringifier, Stringify};
use std::ops::Range;

/// Known findings on the current sources (letter of the `POSLOC_STRICT` clause, input as passed to `run`, what).
/// `POSLOC_STRICT=<letter> vxreplay POSLOC run '<input>'` exits 1 with the observation; without the variable the same
/// input (and the whole search) is clean.
pub const KNOWN: &[(&str, &str, &str)] = &[
    ("v", "<a>x{{b}}</a>", "Value::location() of a mixed value does not contain its pieces: it starts at the last `{{` (here 4..9, the text piece `x` is at 3..4)"),
    ("m", "<a>{{b}}{{c}}</a>", "source map: the first emitted `{{` of a value with >= 2 bindings is mapped to the LAST binding's `{{` (0:8 instead of 0:3)"),
    ("n", "<a data-b-c=\"\"/>", "source map: the name of a normalised attribute name carries the normalised spelling (`data-b-c` is named `bC`), not the source spelling"),
];

const BOUND: &str = "LCG-enumerated WXML templates without diagnostics: A1 expression pool (77) x 12 binding contexts x 7 gap styles; A2 27 attribute kinds x 8 value forms x 7 styles; A3 10 text forms x 6 static rotations x 7 styles; A4 24 directed structures x 7 styles x 3 seeds; B 20000 random composites of depth <= 3 (duplicates removed)";

/// `POSLOC_STRICT=<letters>` turns the NOT-ASSERTED clauses of the module doc back on, so that `run` can replay the
/// inputs of `KNOWN`: `v` Value::location() of mixed values, `m` the `{{` of multi-binding values in the source map,
/// `n` source-map names of normalised attribute names (`data-a-b` is named `aB`); `1` = all.  `search` is meant to
/// run without it.
fn strict(clause: char) -> bool {
    static S: std::sync::OnceLock<String> = std::sync::OnceLock::new();
    let s = S.get_or_init(|| std::env::var("POSLOC_STRICT").unwrap_or_default());
    s.contains('1') || s.contains(clause)
}

// ------------------------------------------------------------------------------------------------------------
// failure plumbing
// ------------------------------------------------------------------------------------------------------------
pub struct Fail { observed: String, expected: String }
type R<T> = Result<T, Fail>;
fn fail<T>(observed: String, expected: String) -> R<T> { Err(Fail { observed, expected }) }
fn show(p: &Range<Position>) -> String {
    format!("{}:{}-{}:{}", p.start.line, p.start.utf16_col, p.end.line, p.end.utf16_col)
}
fn clip(s: &str) -> String { s.chars().take(40).collect() }

// ------------------------------------------------------------------------------------------------------------
// (line, UTF-16 column) <-> byte offset, written from the property text
// ------------------------------------------------------------------------------------------------------------
struct Text<'a> { s: &'a str, lines: Vec<usize> }
impl<'a> Text<'a> {
    fn new(s: &'a str) -> Self {
        let mut lines = vec![0];
        for (i, b) in s.bytes().enumerate() { if b == b'\n' { lines.push(i + 1); } }
        Text { s, lines }
    }
    fn off(&self, line: u32, col: u32, what: &str) -> R<usize> {
        let Some(&ls) = self.lines.get(line as usize) else {
            return fail(format!("{} at line {} col {}: the text has only {} lines", what, line, col, self.lines.len()), "a position inside the text".into());
        };
        let mut c = 0u32;
        for (i, ch) in self.s[ls..].char_indices() {
            if c == col { return Ok(ls + i); }
            if ch == '\n' { break; }
            c += ch.len_utf16() as u32;
            if c > col { return fail(format!("{} at line {} col {} splits a surrogate pair", what, line, col), "a position on a character boundary".into()); }
        }
        if c == col { return Ok(self.s.len()); }
        fail(format!("{} at line {} col {} lies beyond the end of that line", what, line, col), "a position inside the line".into())
    }
}

// ------------------------------------------------------------------------------------------------------------
// reference spellings
// ------------------------------------------------------------------------------------------------------------
/// Entity decoder for the closed set of entities the generator emits.
fn decode_entities(s: &str) -> String {
    let mut out = String::new();
    let mut rest = s;
    while let Some(p) = rest.find('&') {
        out.push_str(&rest[..p]);
        rest = &rest[p..];
        let mut done = false;
        if let Some(semi) = rest.find(';') {
            let body = &rest[1..semi];
            let ch = match body {
                "amp" => Some('&'), "lt" => Some('<'), "gt" => Some('>'), "quot" => Some('"'), "apos" => Some('\''),
                _ => {
                    if let Some(h) = body.strip_prefix("#x") { u32::from_str_radix(h, 16).ok().and_then(char::from_u32) }
                    else if let Some(d) = body.strip_prefix('#') { d.parse::<u32>().ok().and_then(char::from_u32) }
                    else { None }
                }
            };
            if let Some(ch) = ch { out.push(ch); rest = &rest[semi + 1..]; done = true; }
        }
        if !done { out.push('&'); rest = &rest[1..]; }
    }
    out.push_str(rest);
    out
}
/// JS string body unescape (the escapes the template expression grammar knows).
fn unescape_js(s: &str) -> String {
    let mut out = String::new();
    let mut it = s.chars();
    while let Some(c) = it.next() {
        if c != '\\' { out.push(c); continue; }
        match it.next() {
            Some('r') => out.push('\r'), Some('n') => out.push('\n'), Some('t') => out.push('\t'),
            Some('b') => out.push('\x08'), Some('f') => out.push('\x0C'), Some('v') => out.push('\x0B'),
            Some('0') => out.push('\0'),
            Some(k @ ('x' | 'u')) => {
                let n = if k == 'x' { 2 } else { 4 };
                let hex: String = it.clone().take(n).collect();
                match u32::from_str_radix(&hex, 16).ok().and_then(char::from_u32) {
                    Some(ch) if hex.chars().count() == n => { out.push(ch); for _ in 0..n { it.next(); } }
                    _ => out.push(' '),
                }
            }
            Some(x) => out.push(x),
            None => {}
        }
    }
    out
}
#[derive(Debug, PartialEq)]
enum Num { I(i64), F(f64) }
/// Reference reader for a number literal's spelling.
fn ref_number(s: &str) -> Option<Num> {
    let radix = |digits: &str, r: u32| -> Option<Num> {
        let mut i: Option<i64> = Some(0);
        let mut f = 0f64;
        if digits.is_empty() { return None; }
        for c in digits.chars() {
            let d = c.to_digit(r)? as i64;
            f = f * r as f64 + d as f64;
            i = i.and_then(|x| x.checked_mul(r as i64)?.checked_add(d));
        }
        Some(match i { Some(v) => Num::I(v), None => Num::F(f) })
    };
    if let Some(h) = s.strip_prefix("0x") { return radix(h, 16); }
    if s.len() > 1 && s.starts_with('0') && s[1..].chars().all(|c| ('0'..='7').contains(&c)) { return radix(&s[1..], 8); }
    if s.chars().all(|c| c.is_ascii_digit()) && !s.is_empty() {
        return Some(match s.parse::<i64>() { Ok(v) => Num::I(v), Err(_) => Num::F(s.parse::<f64>().ok()?) });
    }
    s.parse::<f64>().ok().map(Num::F)
}
fn camel(s: &str) -> String {
    let mut out = String::new();
    let mut up = false;
    for c in s.chars() {
        if c == '-' { up = true; } else if up { up = false; out.push(c.to_ascii_uppercase()); } else { out.push(c); }
    }
    out
}
/// Does `spelled` (source) normalise to `name` the way the parser normalises attribute names?
fn name_normalises(spelled: &str, name: &str) -> bool {
    if spelled == name { return true; }
    if strict('n') { return false; }
    if !spelled.contains('-') { return false; }
    if camel(spelled) == name { return true; }
    match spelled.strip_prefix("data-") { Some(r) => camel(&r.to_ascii_lowercase()) == name, None => false }
}

// ------------------------------------------------------------------------------------------------------------
// ORACLE 1: walk the public AST
// ------------------------------------------------------------------------------------------------------------
#[derive(Clone, Copy, PartialEq)]
enum NameMode { Verbatim, Camel, DataHyphen }
type Ext = (usize, usize);
fn join(acc: &mut Option<Ext>, r: Ext) {
    *acc = Some(match *acc { None => r, Some((a, b)) => (a.min(r.0), b.max(r.1)) });
}
struct TagExt { s0: Ext, s1: Ext, end: Option<(Ext, Ext)>, outer: Ext }

struct Ck<'a> { t: Text<'a>, scopes: Vec<String> }
impl<'a> Ck<'a> {
    fn rng(&self, loc: &Range<Position>, what: &str) -> R<Ext> {
        let a = self.t.off(loc.start.line, loc.start.utf16_col, what)?;
        let b = self.t.off(loc.end.line, loc.end.utf16_col, what)?;
        if a > b { return fail(format!("{} location {} ends before it starts", what, show(loc)), "start <= end".into()); }
        Ok((a, b))
    }
    fn sl(&self, r: Ext) -> &'a str { &self.t.s[r.0..r.1] }
    fn want(&self, loc: &Range<Position>, expect: &str, what: &str) -> R<Ext> {
        let r = self.rng(loc, what)?;
        if self.sl(r) != expect {
            return fail(format!("{} location {} spans {:?}", what, show(loc), clip(self.sl(r))), format!("{:?}", expect));
        }
        Ok(r)
    }
    fn step(&self, cur: &mut usize, r: Ext, what: &str) -> R<()> {
        if r.0 < *cur {
            return fail(format!("{} {:?} starts at byte {}, before the end (byte {}) of the item that precedes it in the tree", what, clip(self.sl(r)), r.0, *cur), "siblings in source order, not overlapping".into());
        }
        *cur = r.1;
        Ok(())
    }
    fn inside(&self, r: Ext, lo: usize, hi: usize, what: &str, parent: &str) -> R<()> {
        if r.0 < lo || r.1 > hi {
            return fail(format!("{} spans bytes {}..{} {:?}, outside {} (bytes {}..{})", what, r.0, r.1, clip(self.sl(r)), parent, lo, hi), "child location nested inside its parent".into());
        }
        Ok(())
    }

    // ---- expressions -------------------------------------------------------------------------------------
    fn expr(&self, e: &Expression, cur: &mut usize) -> R<Ext> {
        use Expression as E;
        let mut ext: Option<Ext> = None;
        let mut known_variant = true;
        macro_rules! tok { ($loc:expr, $want:expr, $what:expr) => {{ let r = self.want($loc, $want, $what)?; self.step(cur, r, $what)?; join(&mut ext, r); }}; }
        macro_rules! sub { ($e:expr) => {{ let r = self.expr($e, cur)?; join(&mut ext, r); }}; }
        macro_rules! bin { ($l:expr, $op:expr, $loc:expr, $r:expr) => {{ sub!($l); tok!($loc, $op, "operator"); sub!($r); }}; }
        macro_rules! un { ($op:expr, $loc:expr, $v:expr) => {{ tok!($loc, $op, "operator"); sub!($v); }}; }
        match e {
            E::DataField { name, location } => tok!(location, name.as_str(), "identifier"),
            E::ScopeRef { location, index } => {
                let Some(n) = self.scopes.get(*index) else {
                    return fail(format!("scope reference #{} at {} with only {} scopes visible", index, show(location), self.scopes.len()), "an index into the visible scopes".into());
                };
                tok!(location, n.as_str(), "scope reference");
            }
            E::ToStringWithoutUndefined { location, .. } => {
                return fail(format!("string-conversion node at {} inside a plain expression", show(location)), "only at the top of a mixed value".into());
            }
            E::LitUndefined { location } => tok!(location, "undefined", "keyword"),
            E::LitNull { location } => tok!(location, "null", "keyword"),
            E::LitBool { value, location } => tok!(location, if *value { "true" } else { "false" }, "keyword"),
            E::LitStr { value, location } => {
                let r = self.rng(location, "string literal")?;
                let s = self.sl(r);
                let q = s.chars().next();
                let ok = s.len() >= 2 && (q == Some('"') || q == Some('\'')) && s.chars().last() == q
                    && unescape_js(&s[1..s.len() - 1]) == value.as_str();
                if !ok {
                    return fail(format!("string literal location {} spans {:?}", show(location), clip(s)), format!("a quoted literal spelling {:?}", value.as_str()));
                }
                self.step(cur, r, "string literal")?;
                join(&mut ext, r);
            }
            E::LitInt { location, .. } | E::LitFloat { location, .. } => {
                let r = self.rng(location, "number literal")?;
                let s = self.sl(r);
                let got = match e { E::LitInt { value, .. } => Num::I(*value), E::LitFloat { value, .. } => Num::F(*value), _ => unreachable!() };
                if ref_number(s).as_ref() != Some(&got) {
                    return fail(format!("number literal {:?} has location {} spanning {:?} (which reads {:?})", got, show(location), clip(s), ref_number(s)), "the slice spells the literal's value".into());
                }
                self.step(cur, r, "number literal")?;
                join(&mut ext, r);
            }
            E::LitObj { fields, brace_location } => {
                let open = self.rng(&brace_location.0, "object brace")?;
                if open.0 != open.1 { tok!(&brace_location.0, "{", "object brace"); } else { self.step(cur, open, "object brace")?; join(&mut ext, open); }
                for f in fields {
                    match f {
                        ObjectFieldKind::Named { name, location, colon_location, value } => {
                            tok!(location, name.as_str(), "object field name");
                            match colon_location {
                                Some(c) => { tok!(c, ":", "object colon"); sub!(value); }
                                None => {
                                    // shorthand `{a}`: the value is the same identifier at the same place
                                    let mut c2 = self.rng(location, "object field name")?.0;
                                    let r = self.expr(value, &mut c2)?;
                                    if r != self.rng(location, "object field name")? {
                                        return fail(format!("shorthand field {:?} value spans bytes {}..{}", name.as_str(), r.0, r.1), format!("the field name's own location {}", show(location)));
                                    }
                                }
                            }
                        }
                        ObjectFieldKind::Spread { location, value } => { tok!(location, "...", "spread"); sub!(value); }
                    }
                }
                let close = self.rng(&brace_location.1, "object brace")?;
                if close.0 != close.1 { tok!(&brace_location.1, "}", "object brace"); } else { self.step(cur, close, "object brace")?; join(&mut ext, close); }
            }
            E::LitArr { fields, bracket_location } => {
                tok!(&bracket_location.0, "[", "array bracket");
                for f in fields {
                    match f {
                        ArrayFieldKind::Normal { value } => sub!(value),
                        ArrayFieldKind::Spread { location, value } => { tok!(location, "...", "spread"); sub!(value); }
                        ArrayFieldKind::EmptySlot => {}
                    }
                }
                tok!(&bracket_location.1, "]", "array bracket");
            }
            E::StaticMember { obj, field_name, dot_location, field_location } => {
                sub!(obj); tok!(dot_location, ".", "member dot"); tok!(field_location, field_name.as_str(), "member name");
            }
            E::DynamicMember { obj, field_name, bracket_location } => {
                sub!(obj); tok!(&bracket_location.0, "[", "index bracket"); sub!(field_name); tok!(&bracket_location.1, "]", "index bracket");
            }
            E::FuncCall { func, args, paren_location } => {
                sub!(func); tok!(&paren_location.0, "(", "call parenthesis");
                for a in args { sub!(a); }
                tok!(&paren_location.1, ")", "call parenthesis");
            }
            E::Reverse { value, location } => un!("!", location, value),
            E::BitReverse { value, location } => un!("~", location, value),
            E::Positive { value, location } => un!("+", location, value),
            E::Negative { value, location } => un!("-", location, value),
            E::TypeOf { value, location } => un!("typeof", location, value),
            E::Void { value, location } => un!("void", location, value),
            E::Multiply { left, right, location } => bin!(left, "*", location, right),
            E::Divide { left, right, location } => bin!(left, "/", location, right),
            E::Remainer { left, right, location } => bin!(left, "%", location, right),
            E::Plus { left, right, location } => bin!(left, "+", location, right),
            E::Minus { left, right, location } => bin!(left, "-", location, right),
            E::LeftShift { left, right, location } => bin!(left, "<<", location, right),
            E::RightShift { left, right, location } => bin!(left, ">>", location, right),
            E::UnsignedRightShift { left, right, location } => bin!(left, ">>>", location, right),
            E::Lt { left, right, location } => bin!(left, "<", location, right),
            E::Gt { left, right, location } => bin!(left, ">", location, right),
            E::Lte { left, right, location } => bin!(left, "<=", location, right),
            E::Gte { left, right, location } => bin!(left, ">=", location, right),
            E::InstanceOf { left, right, location } => bin!(left, "instanceof", location, right),
            E::Eq { left, right, location } => bin!(left, "==", location, right),
            E::Ne { left, right, location } => bin!(left, "!=", location, right),
            E::EqFull { left, right, location } => bin!(left, "===", location, right),
            E::NeFull { left, right, location } => bin!(left, "!==", location, right),
            E::BitAnd { left, right, location } => bin!(left, "&", location, right),
            E::BitXor { left, right, location } => bin!(left, "^", location, right),
            E::BitOr { left, right, location } => bin!(left, "|", location, right),
            E::LogicAnd { left, right, location } => bin!(left, "&&", location, right),
            E::LogicOr { left, right, location } => bin!(left, "||", location, right),
            E::NullishCoalescing { left, right, location } => bin!(left, "??", location, right),
            E::Cond { cond, true_br, false_br, question_location, colon_location } => {
                sub!(cond); tok!(question_location, "?", "conditional operator"); sub!(true_br);
                tok!(colon_location, ":", "conditional operator"); sub!(false_br);
            }
            _ => { known_variant = false; }
        }
        let ext = ext.unwrap_or((*cur, *cur));
        if known_variant {
            // the node's own (derived) location() spans exactly the items read for it - in particular it contains
            // the member name / closing bracket / closing parenthesis / operand of member, index, call and unary nodes
            let own = self.rng(&e.location(), "expression")?;
            if own != ext {
                return fail(format!("expression location() {} spans bytes {}..{} {:?}, its items span bytes {}..{} {:?}", show(&e.location()), own.0, own.1, clip(self.sl(own)), ext.0, ext.1, clip(self.sl(ext))), "location() from the first to the last item of the expression (children nested inside)".into());
            }
        }
        Ok(ext)
    }

    // ---- values --------------------------------------------------------------------------------------------
    fn is_concat(&self, e: &Expression) -> bool {
        match e {
            Expression::Plus { location, .. } => matches!(self.rng(location, "x"), Ok(r) if self.sl(r) == "{{"),
            Expression::ToStringWithoutUndefined { .. } => true,
            _ => false,
        }
    }
    /// In-order walk of the pieces of a mixed value.  Returns (extent, start of the last binding's expression,
    /// start of the last binding's `}}`).
    fn concat(&self, e: &Expression, cur: &mut usize, last_bind: &mut Option<(usize, usize)>) -> R<Ext> {
        let mut ext: Option<Ext> = None;
        match e {
            Expression::Plus { left, right, location } if self.is_concat(e) => {
                let r = self.concat(left, cur, last_bind)?; join(&mut ext, r);
                let l = self.want(location, "{{", "binding start of a mixed value")?;
                match &**right {
                    Expression::LitStr { .. } => {
                        // text after a binding: the recorded `{{` is the one of the binding that precedes the text
                        let Some((bind_start, _)) = *last_bind else {
                            return fail("a text piece is attached to a binding that is not in the tree".into(), "text after a binding".into());
                        };
                        let between = if l.1 <= bind_start { &self.t.s[l.1..bind_start] } else { "{{" };
                        if between.contains("{{") || between.contains("}}") {
                            return fail(format!("the `{{{{` recorded at {} for a text piece is not the one that opens the preceding binding", show(location)), "the `{{` of the preceding binding".into());
                        }
                    }
                    _ => { self.step(cur, l, "binding start `{{`")?; join(&mut ext, l); }
                }
                let r = self.concat(right, cur, last_bind)?; join(&mut ext, r);
            }
            Expression::LitStr { value, location } => {
                let r = self.rng(location, "static text piece")?;
                if decode_entities(self.sl(r)) != value.as_str() {
                    return fail(format!("static text piece {:?} has location {} spanning {:?}", value.as_str(), show(location), clip(self.sl(r))), "the slice spells exactly that piece".into());
                }
                self.step(cur, r, "static text piece")?;
                join(&mut ext, r);
            }
            Expression::ToStringWithoutUndefined { value, location } => {
                let r = self.expr(value, cur)?; join(&mut ext, r);
                let c = self.want(location, "}}", "binding end of a mixed value")?;
                self.step(cur, c, "binding end `}}`")?; join(&mut ext, c);
                *last_bind = Some((r.0, c.0));
            }
            other => {
                return fail(format!("unexpected node at {} among the pieces of a mixed value", show(&other.location())), "text pieces and bindings".into());
            }
        }
        Ok(ext.unwrap())
    }
    /// Returns the extent computed from the value's own items (NOT Value::location(), see module doc).
    fn value(&self, v: &Value, what: &str) -> R<Ext> {
        match v {
            Value::Static { value, location, .. } => {
                let r = self.rng(location, what)?;
                if decode_entities(self.sl(r)) != value.as_str() {
                    return fail(format!("{} static value {:?} has location {} spanning {:?}", what, value.as_str(), show(location), clip(self.sl(r))), "the slice spells exactly that value".into());
                }
                Ok(r)
            }
            Value::Dynamic { expression, double_brace_location, .. } => {
                let l = self.want(&double_brace_location.0, "{{", "binding start")?;
                let r = self.rng(&double_brace_location.1, "binding end")?;
                if !self.sl(r).starts_with("}}") {
                    return fail(format!("{} binding end location {} spans {:?}", what, show(&double_brace_location.1), clip(self.sl(r))), "text starting with \"}}\"".into());
                }
                let mut cur = 0usize;
                if self.is_concat(expression) {
                    let mut last = None;
                    let mut ext = self.concat(expression, &mut cur, &mut last)?;
                    let Some((bind_start, close_start)) = last else { return fail("mixed value without a binding".into(), "at least one binding".into()); };
                    let between = if l.1 <= bind_start { &self.t.s[l.1..bind_start] } else { "{{" };
                    if between.contains("{{") || between.contains("}}") || r.0 != close_start {
                        return fail(format!("{} mixed value records braces {} / {}", what, show(&double_brace_location.0), show(&double_brace_location.1)), "the `{{` and `}}` of its last binding".into());
                    }
                    ext.1 = ext.1.max(r.1);
                    if r.1 != ext.1 { return fail(format!("{} mixed value's end {} is not the end of its last piece", what, show(&double_brace_location.1)), "end of the last piece".into()); }
                    if strict('v') {
                        let own = self.rng(&v.location(), what)?;
                        self.inside(ext, own.0, own.1, "the pieces of a mixed value", "Value::location()")?;
                    }
                    Ok(ext)
                } else {
                    self.step(&mut cur, l, "binding start")?;
                    self.expr(expression, &mut cur)?;
                    self.step(&mut cur, (r.0, r.0 + 2), "binding end")?;
                    if r.1 != r.0 + 2 { return fail(format!("{} binding end location {} spans {:?}", what, show(&double_brace_location.1), clip(self.sl(r))), "\"}}\"".into()); }
                    Ok((l.0, r.1))
                }
            }
            _ => fail("unknown Value variant".into(), "Static or Dynamic".into()),
        }
    }
    fn quoted(&self, r: Ext, what: &str) -> R<()> {
        let before = self.t.s[..r.0].chars().last();
        let after = self.t.s[r.1..].chars().next();
        if !(before == after && (before == Some('"') || before == Some('\''))) {
            return fail(format!("{} spans bytes {}..{} {:?}, enclosed by {:?} and {:?}", what, r.0, r.1, clip(self.sl(r)), before, after), "exactly the text between the attribute's quotes".into());
        }
        Ok(())
    }
    /// Attribute value placed after its name inside the start tag.
    fn attr_value(&self, name_r: Ext, v: &Value, tag: Ext, what: &str) -> R<Ext> {
        let r = self.value(v, what)?;
        if let Value::Static { .. } = v { self.quoted(r, what)?; }
        if r.0 <= name_r.1 { return fail(format!("{} value starts at byte {}, not after its name (ends at byte {})", what, r.0, name_r.1), "name before value".into()); }
        self.inside(r, tag.0, tag.1, what, "the start tag")?;
        Ok(r)
    }
    fn str_name(&self, n: &StrName, strip: Option<&str>, what: &str) -> R<Ext> {
        let r = self.rng(&n.location, what)?;
        let dec = decode_entities(self.sl(r));
        let ok = dec == n.name.as_str() || strip.map_or(false, |s| dec.strip_suffix(s) == Some(n.name.as_str()));
        if !ok {
            return fail(format!("{} {:?} has location {} spanning {:?}", what, n.name.as_str(), show(&n.location), clip(self.sl(r))), "the slice spells exactly that string".into());
        }
        self.quoted(r, what)?;
        Ok(r)
    }
    fn ident(&self, id: &Ident, mode: NameMode, what: &str) -> R<Ext> {
        let r = self.rng(&id.location, what)?;
        let s = self.sl(r);
        let ok = match mode {
            NameMode::Verbatim => s == id.name.as_str(),
            NameMode::Camel => camel(s) == id.name.as_str(),
            NameMode::DataHyphen => s.strip_prefix("data-").map_or(false, |x| camel(&x.to_ascii_lowercase()) == id.name.as_str()),
        };
        if !ok { return fail(format!("{} {:?} has location {} spanning {:?}", what, id.name.as_str(), show(&id.location), clip(s)), "the slice spells that name".into()); }
        Ok(r)
    }
    fn prefix(&self, loc: &Range<Position>, spelled: &str, name_r: Ext, what: &str) -> R<()> {
        let p = self.want(loc, spelled, what)?;
        if p.1 + 1 != name_r.0 || &self.t.s[p.1..name_r.0] != ":" {
            return fail(format!("{} prefix ends at byte {} but the name starts at byte {}", what, p.1, name_r.0), "prefix, ':', name".into());
        }
        Ok(())
    }

    // ---- tags ----------------------------------------------------------------------------------------------
    fn tagloc(&self, tl: &TagLocation) -> R<TagExt> {
        let s0 = self.want(&tl.start.0, "<", "tag start `<`")?;
        let s1 = self.want(&tl.start.1, ">", "tag start `>`")?;
        let close = self.want(&tl.close, "/", "tag close `/`")?;
        let end = match &tl.end {
            Some((a, b)) => Some((self.want(a, "<", "end tag `<`")?, self.want(b, ">", "end tag `>`")?)),
            None => None,
        };
        if s0.1 > s1.0 { return fail("start tag `>` before `<`".into(), "`<` before `>`".into()); }
        let outer = match end { Some((e0, e1)) => { if e0.0 < s1.1 || e1.0 < e0.1 { return fail(format!("end tag at bytes {}..{} before the start tag's end {}", e0.0, e1.1, s1.1), "end tag after start tag".into()); } (s0.0, e1.1) } None => (s0.0, s1.1) };
        self.inside(close, s0.1, outer.1, "tag close `/`", "the element")?;
        Ok(TagExt { s0, s1, end, outer })
    }
    fn named_value(&self, loc: &Range<Position>, spelled: &str, v: &Value, tag: Ext) -> R<()> {
        let n = self.want(loc, spelled, "attribute name")?;
        self.inside(n, tag.0, tag.1, "attribute name", "the start tag")?;
        self.attr_value(n, v, tag, spelled)?;
        Ok(())
    }
    fn named_str(&self, loc: &Range<Position>, spelled: &str, v: &StrName, strip: Option<&str>, tag: Ext) -> R<()> {
        let n = self.want(loc, spelled, "attribute name")?;
        self.inside(n, tag.0, tag.1, "attribute name", "the start tag")?;
        let r = self.str_name(v, strip, spelled)?;
        if r.0 <= n.1 { return fail(format!("{} value before its name", spelled), "name before value".into()); }
        self.inside(r, tag.0, tag.1, spelled, "the start tag")
    }
    fn attrs(&self, list: &[Attribute], prefix: Option<&str>, mode: NameMode, tag: Ext, what: &str) -> R<()> {
        let mut cur = tag.0;
        for a in list {
            let mut m = mode;
            let n;
            match (&a.prefix_location, prefix) {
                (Some(p), Some(sp)) => {
                    let pr = self.rng(p, what)?;
                    if pr.0 == pr.1 {
                        // `data-x` form: empty prefix at the start of the name
                        m = NameMode::DataHyphen;
                        n = self.ident(&a.name, m, what)?;
                        if pr.0 != n.0 { return fail(format!("{} empty prefix at byte {} but name at byte {}", what, pr.0, n.0), "empty prefix at the start of the name".into()); }
                    } else {
                        n = self.ident(&a.name, m, what)?;
                        self.prefix(p, sp, n, what)?;
                    }
                }
                _ => { n = self.ident(&a.name, m, what)?; }
            }
            self.inside(n, tag.0, tag.1, what, "the start tag")?;
            self.step(&mut cur, n, what)?;
            if let Some(v) = &a.value { let r = self.attr_value(n, v, tag, what)?; cur = cur.max(r.1); }
        }
        Ok(())
    }
    fn static_attrs(&self, list: &[StaticAttribute], prefix: &str, mode: NameMode, tag: Ext, what: &str) -> R<()> {
        let mut cur = tag.0;
        for a in list {
            let n = self.ident(&a.name, mode, what)?;
            if let Some(p) = &a.prefix_location { self.prefix(p, prefix, n, what)?; }
            self.inside(n, tag.0, tag.1, what, "the start tag")?;
            self.step(&mut cur, n, what)?;
            if a.value.location == a.name.location {
                // `slot:foo` without a value: the scope name is the attribute name itself
                if a.value.name != a.name.name { return fail(format!("{} default value {:?}", what, a.value.name.as_str()), format!("{:?}", a.name.name.as_str())); }
            } else {
                let r = self.str_name(&a.value, None, what)?;
                if r.0 <= n.1 { return fail(format!("{} value before its name", what), "name before value".into()); }
                self.inside(r, tag.0, tag.1, what, "the start tag")?;
                cur = cur.max(r.1);
            }
        }
        Ok(())
    }
    fn common(&self, c: &CommonElementAttributes, tag: Ext) -> R<()> {
        if let Some((loc, v)) = &c.id { self.named_value(loc, "id", v, tag)?; }
        if let Some((loc, v)) = &c.slot { self.named_value(loc, "slot", v, tag)?; }
        self.attrs(&c.data, Some("data"), NameMode::Verbatim, tag, "data attribute")?;
        self.attrs(&c.marks, Some("mark"), NameMode::Verbatim, tag, "mark attribute")?;
        let mut cur = tag.0;
        for ev in &c.event_bindings {
            let p = match (ev.is_catch, ev.is_mut, ev.is_capture) {
                (true, _, true) => "capture-catch", (true, _, false) => "catch",
                (false, true, true) => "capture-mut-bind", (false, true, false) => "mut-bind",
                (false, false, true) => "capture-bind", (false, false, false) => "bind",
            };
            let n = self.ident(&ev.name, NameMode::Verbatim, "event name")?;
            self.prefix(&ev.prefix_location, p, n, "event binding")?;
            self.inside(n, tag.0, tag.1, "event name", "the start tag")?;
            self.step(&mut cur, n, "event name")?;
            if let Some(v) = &ev.value { let r = self.attr_value(n, v, tag, "event binding")?; cur = cur.max(r.1); }
        }
        Ok(())
    }
    fn push_slot_scopes(&mut self, refs: &[StaticAttribute]) { for a in refs { self.scopes.push(a.value.name.to_string()); } }

    fn nodes(&mut self, list: &[Node], lo: usize, hi: usize, parent: &str) -> R<()> {
        let mut cur = lo;
        for n in list {
            let r = self.node(n)?;
            self.inside(r, lo, hi, "child node", parent)?;
            self.step(&mut cur, r, "child node")?;
        }
        Ok(())
    }
    fn node(&mut self, n: &Node) -> R<Ext> {
        match n {
            Node::Text(v) => self.value(v, "text"),
            Node::Comment(c) => self.want(&c.location, &format!("<!--{}-->", c.content), "comment"),
            Node::Element(e) => self.element(e),
            other => self.rng(&other.location(), "node"),
        }
    }
    fn element(&mut self, e: &Element) -> R<Ext> {
        let te = self.tagloc(&e.tag_location)?;
        let own = self.rng(&e.location(), "element")?;
        if own != te.outer { return fail(format!("element location() spans bytes {}..{}", own.0, own.1), format!("its tag records, bytes {}..{}", te.outer.0, te.outer.1)); }
        let tag = (te.s0.1, te.s1.0);
        let body = match te.end { Some((e0, _)) => (te.s1.1, e0.0), None => (te.s1.1, te.s1.1) };
        let depth = self.scopes.len();
        match &e.kind {
            ElementKind::Normal { tag_name, attributes, class, style, change_attributes, worklet_attributes, children, generics, extra_attr, common, .. } => {
                let n = self.ident(tag_name, NameMode::Verbatim, "tag name")?;
                if n.0 != te.s0.1 { return fail(format!("tag name {:?} at byte {}", tag_name.name.as_str(), n.0), format!("directly after `<` (byte {})", te.s0.1)); }
                // (the element's own values already see its `slot:` scopes)
                self.static_attrs(&common.slot_value_refs, "slot", NameMode::Camel, tag, "slot value reference")?;
                self.push_slot_scopes(&common.slot_value_refs);
                let mut cur = tag.0;
                for a in attributes {
                    let m = match &a.prefix { NormalAttributePrefix::Model(_) => NameMode::Camel, _ => NameMode::Verbatim };
                    let r = self.ident(&a.name, m, "attribute name")?;
                    if let NormalAttributePrefix::Model(p) = &a.prefix { self.prefix(p, "model", r, "model attribute")?; }
                    self.inside(r, tag.0, tag.1, "attribute name", "the start tag")?;
                    self.step(&mut cur, r, "attribute name")?;
                    if let Some(v) = &a.value { let vr = self.attr_value(r, v, tag, "attribute")?; cur = cur.max(vr.1); }
                }
                if let ClassAttribute::String(loc, v) = class { self.named_value(loc, "class", v, tag)?; }
                if let StyleAttribute::String(loc, v) = style { self.named_value(loc, "style", v, tag)?; }
                self.attrs(change_attributes, Some("change"), NameMode::Camel, tag, "change attribute")?;
                self.static_attrs(worklet_attributes, "worklet", NameMode::Camel, tag, "worklet attribute")?;
                self.static_attrs(generics, "generic", NameMode::Verbatim, tag, "generic attribute")?;
                self.static_attrs(extra_attr, "extra-attr", NameMode::Verbatim, tag, "extra attribute")?;
                self.common(common, tag)?;
                self.nodes(children, body.0, body.1, "the element's body")?;
            }
            ElementKind::Pure { children, slot, slot_value_refs, .. } => {
                self.static_attrs(slot_value_refs, "slot", NameMode::Camel, tag, "slot value reference")?;
                self.push_slot_scopes(slot_value_refs);
                if let Some((loc, v)) = slot { self.named_value(loc, "slot", v, tag)?; }
                self.nodes(children, body.0, body.1, "the element's body")?;
            }
            ElementKind::For { list, item_name, index_name, key, children, .. } => {
                self.named_value(&list.0, "wx:for", &list.1, tag)?;
                for (pair, attr, dflt) in [(item_name, "wx:for-item", "item"), (index_name, "wx:for-index", "index"), (key, "wx:key", "")] {
                    if pair.0 == list.0 {
                        if pair.1.name.as_str() != dflt { return fail(format!("{} located at wx:for carries {:?}", attr, pair.1.name.as_str()), format!("the default {:?}", dflt)); }
                    } else {
                        self.named_str(&pair.0, attr, &pair.1, None, tag)?;
                    }
                }
                self.scopes.push(item_name.1.name.to_string());
                self.scopes.push(index_name.1.name.to_string());
                self.nodes(children, te.outer.0, te.outer.1, "the wx:for element")?;
            }
            ElementKind::If { branches, else_branch, .. } => {
                let mut cond_cur = 0usize;
                let mut child_cur = te.outer.0;
                for (i, (loc, v, children)) in branches.iter().enumerate() {
                    let spelled = if i == 0 { "wx:if" } else { "wx:elif" };
                    let area = if i == 0 { tag } else { te.outer };
                    self.named_value(loc, spelled, v, area)?;
                    let r = self.rng(loc, spelled)?;
                    self.step(&mut cond_cur, r, "branch condition")?;
                    self.nodes(children, child_cur, te.outer.1, "the wx:if chain")?;
                    if let Some(last) = children.last() { child_cur = self.rng_of_node(last)?; }
                }
                if let Some((loc, children)) = else_branch {
                    let r = self.want(loc, "wx:else", "attribute name")?;
                    self.inside(r, te.outer.0, te.outer.1, "wx:else", "the wx:if chain")?;
                    self.step(&mut cond_cur, r, "branch condition")?;
                    self.nodes(children, child_cur, te.outer.1, "the wx:if chain")?;
                }
            }
            ElementKind::TemplateRef { target, data, .. } => {
                self.named_value(&target.0, "is", &target.1, tag)?;
                if data.0.start != data.0.end { self.named_value(&data.0, "data", &data.1, tag)?; }
            }
            ElementKind::Include { path, .. } => { self.named_str(&path.0, "src", &path.1, Some(".wxml"), tag)?; }
            ElementKind::Slot { name, values, common, .. } => {
                self.static_attrs(&common.slot_value_refs, "slot", NameMode::Camel, tag, "slot value reference")?;
                self.push_slot_scopes(&common.slot_value_refs);
                if name.0.start != name.0.end { self.named_value(&name.0, "name", &name.1, tag)?; }
                self.attrs(values, None, NameMode::Camel, tag, "slot value")?;
                self.common(common, tag)?;
            }
            _ => {}
        }
        self.scopes.truncate(depth);
        Ok(te.outer)
    }
    /// End offset of a node already checked (for the sibling order of if-branches).
    fn rng_of_node(&self, n: &Node) -> R<usize> {
        Ok(match n {
            Node::Text(v) => self.value(v, "text")?.1,
            other => self.rng(&other.location(), "node")?.1,
        })
    }
}

fn check_ast(src: &str, tmpl: &glass_easel_template_compiler::parse::Template) -> R<()> {
    let g = &tmpl.globals;
    let script_scopes: Vec<String> = g.scripts.iter().map(|s| s.module_name().name.to_string()).collect();
    let mut ck = Ck { t: Text::new(src), scopes: script_scopes.clone() };
    let whole = (0usize, src.len());
    for i in &g.imports {
        let te = ck.tagloc(&i.tag_location)?;
        ck.named_str(&i.src_location, "src", &i.src, Some(".wxml"), (te.s0.1, te.s1.0))?;
    }
    for i in &g.includes {
        let te = ck.tagloc(&i.tag_location)?;
        ck.named_str(&i.src_location, "src", &i.src, Some(".wxml"), (te.s0.1, te.s1.0))?;
    }
    for s in &g.scripts {
        match s {
            Script::Inline { tag_location, module_location, module_name, content, content_location, .. } => {
                let te = ck.tagloc(tag_location)?;
                ck.named_str(module_location, "module", module_name, None, (te.s0.1, te.s1.0))?;
                let r = ck.want(content_location, content, "inline script body")?;
                let body = match te.end { Some((e0, _)) => (te.s1.1, e0.0), None => (te.s1.1, te.s1.1) };
                ck.inside(r, body.0, body.1, "inline script body", "the <wxs> element")?;
            }
            Script::GlobalRef { tag_location, module_location, module_name, src_location, src: path, .. } => {
                let te = ck.tagloc(tag_location)?;
                ck.named_str(module_location, "module", module_name, None, (te.s0.1, te.s1.0))?;
                ck.named_str(src_location, "src", path, Some(".wxs"), (te.s0.1, te.s1.0))?;
            }
            _ => {}
        }
    }
    for t in &g.sub_templates {
        let te = ck.tagloc(&t.tag_location)?;
        ck.named_str(&t.name_location, "name", &t.name, None, (te.s0.1, te.s1.0))?;
        let body = match te.end { Some((e0, _)) => (te.s1.1, e0.0), None => (te.s1.1, te.s1.1) };
        ck.scopes = script_scopes.clone();
        ck.nodes(&t.content, body.0, body.1, "the <template name> body")?;
    }
    ck.scopes = script_scopes;
    ck.nodes(&tmpl.content, whole.0, whole.1, "the file")
}

// ------------------------------------------------------------------------------------------------------------
// ORACLE 2: the source map of the re-printed template
// ------------------------------------------------------------------------------------------------------------
fn is_ident_cont(c: char) -> bool { c.is_ascii_alphanumeric() || c == '_' || c == '$' }
/// Leading identifier-like word of an emitted token (tag / attribute names may contain `-` and `:`).
fn leading_word(s: &str) -> &str {
    let mut end = 0;
    for (i, c) in s.char_indices() {
        let ok = if i == 0 { c.is_ascii_alphabetic() || c == '_' || c == '$' } else { is_ident_cont(c) || c == '-' || c == ':' };
        if !ok { break; }
        end = i + c.len_utf8();
    }
    s[..end].trim_end_matches(|c| c == ':' || c == '-')
}
/// Leading punctuation of an emitted token: one bracket / comma, or a run of operator characters.
fn leading_punct(s: &str) -> &str {
    let s = s.trim_start_matches(' ');
    const RUN: &str = "<>=!|+-*/%^?.{}~:";
    let mut end = 0;
    for (i, c) in s.char_indices() {
        if i == 0 && "()[],".contains(c) { return &s[..1]; }
        if !RUN.contains(c) { break; }
        end = i + 1;
    }
    &s[..end]
}
fn source_word(at: &str) -> &str {
    let end = at.char_indices().find(|(_, c)| !(is_ident_cont(*c) || *c == '-' || *c == '.')).map_or(at.len(), |(i, _)| i);
    &at[..end]
}
/// `at` (source text at the mapped position) starts with `word` in one of the admitted spellings.
fn source_starts_with(at: &str, word: &str) -> bool {
    if at.starts_with(word) { return true; }
    let head: String = at.chars().take(word.chars().count() * 10 + 16).collect();
    if decode_entities(&head).starts_with(word) { return true; }
    // a string literal printed as plain text (`{{'s'}}` is re-printed as `s`) maps to the literal's opening quote
    if (head.starts_with('\'') || head.starts_with('"')) && unescape_js(&head[1..]).starts_with(word) { return true; }
    name_normalises(source_word(at), word)
}
fn check_map(src: &str, out: &str, sm: &glass_easel_template_compiler::stringify::SourceMap) -> R<()> {
    let s = Text::new(src);
    let o = Text::new(out);
    let mut prev = (0u32, 0u32);
    let mut offs: Vec<(usize, usize, Option<String>, (u32, u32), (u32, u32))> = vec![];
    for (i, t) in sm.tokens().enumerate() {
        let d = (t.get_dst_line(), t.get_dst_col());
        if d < prev {
            return fail(format!("source-map token #{} is generated at {}:{}, before its predecessor at {}:{}", i, d.0, d.1, prev.0, prev.1), "output positions non-decreasing in emission order".into());
        }
        prev = d;
        let doff = o.off(d.0, d.1, &format!("generated position of source-map token #{}", i))?;
        let sp = (t.get_src_line(), t.get_src_col());
        let soff = s.off(sp.0, sp.1, &format!("source position of source-map token #{} ({:?})", i, clip(&out[doff..])))?;
        offs.push((doff, soff, t.get_name().map(|x| x.to_string()), d, sp));
    }
    for i in 0..offs.len() {
        let (doff, soff, name, _d, sp) = &offs[i];
        let end = offs.get(i + 1).map_or(out.len(), |x| x.0);
        let emitted = &out[*doff..end.max(*doff)];
        let at = &src[*soff..];
        if let Some(name) = name {
            let mut ok = source_starts_with(at, name);
            if ok && at.starts_with(name.as_str()) && name.chars().last().map_or(false, is_ident_cont) {
                // the identifier must not continue in the source
                if at[name.len()..].chars().next().map_or(false, is_ident_cont) { ok = false; }
            }
            if !ok {
                return fail(format!("source-map token named {:?} (emitted {:?}) is mapped to {}:{}, where the source reads {:?}", name, clip(emitted), sp.0, sp.1, clip(at)), format!("source text starting with {:?}", name));
            }
        }
        if strict('m') && emitted.starts_with("{{") {
            if let Some(next) = offs.get(i + 1) {
                if next.1 < *soff {
                    return fail(format!("emitted `{{{{` is mapped to {}:{} {:?}, AFTER the expression printed inside it (mapped to {}:{})", sp.0, sp.1, clip(at), next.4 .0, next.4 .1), "the `{{` that opens that binding".into());
                }
            }
        }
        let w = leading_word(emitted);
        if !w.is_empty() {
            if !source_starts_with(at, w) {
                return fail(format!("emitted word {:?} is mapped to {}:{}, where the source reads {:?}", w, sp.0, sp.1, clip(at)), format!("source text starting with {:?}", w));
            }
            continue;
        }
        let p = leading_punct(emitted);
        // (the printer pads some operators with a blank: blanks before the punctuation are ignored on both sides)
        let at_p = if emitted.starts_with(' ') { at.trim_start_matches(' ') } else { at };
        if !p.is_empty() && !at_p.starts_with(p) {
            // the braces the printer adds around `<template data="{{ a, b }}">` have no source spelling
            let synthetic = (p == "{" && out[..*doff].ends_with("{{")) || (p == "}" && out[*doff + 1..].starts_with("}}"));
            if !synthetic {
                return fail(format!("emitted {:?} is mapped to {}:{}, where the source reads {:?}", p, sp.0, sp.1, clip(at)), format!("source text starting with {:?}", p));
            }
        }
    }
    Ok(())
}

// ------------------------------------------------------------------------------------------------------------
// one template
// ------------------------------------------------------------------------------------------------------------
enum Verdict { Skipped, Pass, Bad(Fail) }
fn check(src: &str) -> Verdict {
    let (tmpl, ps) = parse("TEST", src);
    if ps.warnings().next().is_some() { return Verdict::Skipped; }
    if let Err(f) = check_ast(src, &tmpl) { return Verdict::Bad(f); }
    let mut st = Stringifier::new(String::new(), "TEST", src);
    if tmpl.stringify_write(&mut st).is_err() {
        return Verdict::Bad(Fail { observed: "stringify_write failed".into(), expected: "a re-printed template".into() });
    }
    let (out, sm) = st.finish();
    match check_map(src, &out, &sm) { Err(f) => Verdict::Bad(f), Ok(()) => Verdict::Pass }
}

/// Command-line safe spelling of a template: printable ASCII except `\` and `'` verbatim, the rest escaped.
fn encode(s: &str) -> String {
    let mut o = String::new();
    for c in s.chars() {
        match c {
            '\n' => o.push_str("\\n"), '\r' => o.push_str("\\r"), '\t' => o.push_str("\\t"), '\\' => o.push_str("\\\\"),
            c if (' '..='~').contains(&c) && c != '\'' => o.push(c),
            c => o.push_str(&format!("\\u{{{:x}}}", c as u32)),
        }
    }
    o
}
fn decode(s: &str) -> String {
    let mut o = String::new();
    let mut it = s.chars().peekable();
    while let Some(c) = it.next() {
        if c != '\\' { o.push(c); continue; }
        match it.next() {
            Some('n') => o.push('\n'), Some('r') => o.push('\r'), Some('t') => o.push('\t'), Some('\\') => o.push('\\'),
            Some('u') => {
                let mut hex = String::new();
                if it.peek() == Some(&'{') { it.next(); }
                while let Some(&h) = it.peek() { it.next(); if h == '}' { break; } hex.push(h); }
                if let Some(ch) = u32::from_str_radix(&hex, 16).ok().and_then(char::from_u32) { o.push(ch); }
            }
            Some(x) => { o.push('\\'); o.push(x); }
            None => o.push('\\'),
        }
    }
    o
}

// ------------------------------------------------------------------------------------------------------------
// generator
// ------------------------------------------------------------------------------------------------------------
struct Lcg(u64);
impl Lcg {
    fn new(seed: u64) -> Self { Lcg(seed.wrapping_mul(0x9E37_79B9_7F4A_7C15).wrapping_add(0x2545_F491_4F6C_DD1D)) }
    fn next(&mut self) -> u32 {
        self.0 = self.0.wrapping_mul(6364136223846793005).wrapping_add(1442695040888963407);
        (self.0 >> 33) as u32
    }
    fn below(&mut self, n: usize) -> usize { self.next() as usize % n }
}

const NSTYLE: u32 = 7;
/// whitespace required between two attributes, per style 1..6
const TAG_WS: [&[&str]; 6] = [
    &[" ", "  ", "   "],
    &["\n", "\n  ", " \n", " "],
    &["\r\n", "\r\n\t", " ", "\r\n  "],
    &[" ", "\t", "\n\n  "],
    &[" ", "\n", " \r\n "],
    &[" ", "  ", "\n", "\r\n", "\t", "\n    ", " \r\n\t"],
];
/// optional gap between the tokens of an expression
const EXPR_GAP: [&[&str]; 6] = [
    &["", " ", "  "],
    &["", "\n", "\n  ", " "],
    &["", "\r\n", " \r\n "],
    &["", "/* \u{5B57} */", " /*\u{6CE8}\u{91CA}*/ ", " "],
    &["", "/*\u{1F600}*/", "/* x\n\u{1F600} */", "/*\r\n\u{1F600}\u{1F680}*/ ", "\n"],
    &["", "", " ", "\n", "\r\n  ", "/*\u{5B57}*/", "/* a\n\u{1F600} */", "\t", " /*\u{1F600}\r\n\u{5B57}\u{1F600}*/"],
];
/// optional gap between nodes
const NODE_GAP: [&[&str]; 6] = [
    &["", " ", "  "],
    &["", "\n", "\n  "],
    &["", "\r\n", "\r\n\t"],
    &["", "<!-- \u{5B57} -->", "\n<!--\u{6CE8}-->\n"],
    &["", "<!--\u{1F600}-->", "<!-- x\n\u{1F600}\u{1F600} -->", "<!--\r\n\u{1F600}-->"],
    &["", "", "\n", "\r\n  ", "<!--\u{5B57}-->", "<!-- a\n\u{1F600} -->", "  ", "\n<!--\u{1F600}\r\n\u{5B57}\u{1F680}-->"],
];

/// Expression pool, as token lists (gaps may go between any two tokens).  `@` is replaced by a visible scope
/// variable (or `a`).  Strings are single-quoted; they are re-quoted for single-quoted attributes.
const EXPRS: &[&[&str]] = &[
    &["a"], &["abc"], &["$x_1"], &["@"], &["a", ".", "b"], &["@", ".", "b", ".", "c"], &["a", "[", "0", "]"],
    &["@", "[", "b", ".", "c", "]"], &["a", "[", "'k'", "]", ".", "b", "(", "c", ")"],
    &["0"], &["7"], &["42"], &["0x1F"], &["0xff"], &["017"], &["08"], &["1.5"], &[".5"], &["1e3"], &["2e-2"], &["1."],
    &["9223372036854775808"], &["0xfffffffffffffffff"],
    &["'s'"], &["'\u{5B57}'"], &["'\u{1F600}x'"], &["'a\\n\\t'"], &["'\\x41\\u5b57'"], &["'it\\'s'"], &["''"], &["'a b'", "+", "'\u{1F600}'"],
    &["f", "(", ")"], &["f", "(", "@", ",", "1", ")"], &["m", ".", "f", "(", "'x'", ")"],
    &["!", "a"], &["-", "@"], &["+", "1"], &["~", "a"], &["typeof ", "a"], &["void ", "0"], &["!", "!", "a"],
    &["a", "+", "b"], &["@", "-", "1"], &["a", "*", "b", "+", "c"], &["a", "/", "2"], &["a", "%", "2"],
    &["a", "<", "b"], &["a", "<=", "b"], &["a", ">", "b"], &["a", ">=", "b"], &["a", "===", "b"], &["a", "!==", "b"],
    &["a", "==", "b"], &["a", "!=", "b"], &["a", "&&", "b"], &["a", "||", "b"], &["a", "??", "b"], &["a", "&", "b"],
    &["a", "|", "b"], &["a", "^", "b"], &["a", "<<", "1"], &["a", ">>", "1"], &["a", ">>>", "1"], &["a", " instanceof ", "b"],
    &["@", "?", "b", ":", "c"], &["a", "?", "1", ":", "b", "?", "2", ":", "3"], &["(", "a", "+", "b", ")", "*", "c"],
    &["[", "]"], &["[", "a", ",", "1", ",", "'s'", "]"], &["[", "...", "a", ",", "b", "]"], &["[", ",", "a", "]"],
    &["{", "a", ":", "1", "}"], &["{", "a", ",", "b", ":", "c", ".", "d", "}"], &["{", "...", "a", ",", "b", "}"],
    &["true"], &["null"], &["undefined", "===", "false"],
];
/// `<template data>` bodies (object inner)
const DATA_EXPRS: &[&[&str]] = &[
    &["a"], &["a", ",", "b"], &["a", ":", "1", ",", "b", ":", "c", ".", "d"], &["...", "a"], &["...", "a", ",", "b", ":", "'s'"],
    &["k", ":", "@"],
];
/// static text usable inside a double- or single-quoted attribute value and in text nodes
const STATICS: &[&str] = &[
    "x", "hello world", "\u{5B57}", "\u{1F600}", " a\u{5B57}\u{1F600}b ", "a &amp; b", "&lt;p&gt;", "&#x5b57;&#65;bc", "l1\nl2",
    "l1\r\n  l2\u{1F600}", "tail.", ", ", "!", "  padded  ", "\u{1F680}\n\u{1F600} z",
];

struct Gen { s: String, rng: Lcg, style: u32, uid: u32 }
impl Gen {
    fn new(style: u32, seed: u64) -> Self { Gen { s: String::new(), rng: Lcg::new(seed * 16 + style as u64), style, uid: 0 } }
    fn lit(&mut self, x: &str) { self.s.push_str(x); }
    fn pick(&mut self, table: &[&[&'static str]; 6]) -> &'static str {
        let t = table[(self.style - 1) as usize];
        t[self.rng.below(t.len())]
    }
    /// mandatory whitespace inside a tag
    fn sp(&mut self) { if self.style == 0 { self.lit(" ") } else { let x = self.pick(&TAG_WS); self.lit(x) } }
    /// optional whitespace inside a tag
    fn op(&mut self) { if self.style != 0 && self.rng.below(2) == 0 { let x = self.pick(&TAG_WS); self.lit(x) } }
    fn eg(&mut self) {
        if self.style == 0 { return; }
        let x = self.pick(&EXPR_GAP);
        // `*` or `/` directly followed by a comment would lex as `*/` or `//`
        if x.starts_with("/*") && (self.s.ends_with('*') || self.s.ends_with('/')) { self.lit(" "); }
        self.lit(x)
    }
    fn ng(&mut self) { if self.style != 0 { let x = self.pick(&NODE_GAP); self.lit(x) } }
    fn tok(&mut self, t: &str, q: char, scope: &[String]) {
        if t == "@" {
            let v = if scope.is_empty() { "a".to_string() } else { scope[self.rng.below(scope.len())].clone() };
            self.lit(&v);
        } else if t.starts_with('\'') && q == '\'' {
            let inner = t[1..t.len() - 1].replace("\\'", "\\x27");
            self.lit(&format!("\"{}\"", inner));
        } else { self.lit(t) }
    }
    /// `{{ e }}` with gaps; `q` is the quote of the enclosing attribute ('\0' in text)
    fn bind(&mut self, e: &[&str], q: char, scope: &[String]) {
        self.lit("{{");
        for t in e { self.eg(); self.tok(t, q, scope); }
        self.eg();
        self.lit("}}");
    }
    fn stat(&mut self, i: usize) { self.lit(STATICS[i % STATICS.len()]); }
    /// value body: form 0 static, 1 binding, 2 s+b, 3 b+s, 4 s+b+s, 5 b+b, 6 s+b+s+b+s, 7 b+s+b
    fn val(&mut self, form: usize, e: &[&str], st: usize, q: char, scope: &[String]) {
        let e2: &[&str] = EXPRS[(st * 7 + 3) % EXPRS.len()];
        match form % 8 {
            0 => self.stat(st),
            1 => self.bind(e, q, scope),
            2 => { self.stat(st); self.bind(e, q, scope); }
            3 => { self.bind(e, q, scope); self.stat(st + 1); }
            4 => { self.stat(st); self.bind(e, q, scope); self.stat(st + 5); }
            5 => { self.bind(e, q, scope); self.bind(e2, q, scope); }
            6 => { self.stat(st); self.bind(e, q, scope); self.stat(st + 8); self.bind(e2, q, scope); self.stat(st + 10); }
            _ => { self.bind(e, q, scope); self.stat(st + 3); self.bind(e2, q, scope); }
        }
    }
    fn attr(&mut self, name: &str, form: usize, e: &[&str], st: usize, q: char, scope: &[String]) {
        self.sp(); self.lit(name); self.lit("=");
        self.lit(&q.to_string()); self.val(form, e, st, q, scope); self.lit(&q.to_string());
    }
    fn sattr(&mut self, name: &str, v: &str) { self.sp(); self.lit(name); self.lit("=\""); self.lit(v); self.lit("\""); }
    fn gt(&mut self) { self.op(); self.lit(">"); }
    fn sc(&mut self) { self.op(); self.lit("/>"); }
    fn end(&mut self, tag: &str) { self.lit("</"); self.lit(tag); self.op(); self.lit(">"); }

    /// attribute kinds for a normal element (kind index k); the value form applies where a Value is parsed
    fn attr_kind(&mut self, k: usize, form: usize, e: &[&str], st: usize, scope: &[String]) {
        const VALUED: &[&str] = &[
            "title", "class", "style", "id", "slot", "data-foo-bar", "data:camelKey", "data-x", "mark:k", "model:value-x",
            "change:prop-y", "bind:tap", "catch:tap", "mut-bind:x", "capture-bind:tap", "capture-catch:tap",
            "capture-mut-bind:t", "bindtap", "hover-class",
        ];
        const STATIC: &[(&str, &str)] = &[
            ("worklet:on-scroll", "fn"), ("generic:sel", "comp-\u{5B57}"), ("extra-attr:x", "y &amp; z"), ("slot:item", "it"),
            ("slot:list-data", "ld"), ("wx:key", "id\u{1F600}"),
        ];
        let n = VALUED.len();
        if k < n { let q = if (form + k) % 5 == 4 { '\'' } else { '"' }; self.attr(VALUED[k], form, e, st, q, scope); }
        else if k < n + STATIC.len() { let (a, v) = STATIC[k - n]; if a == "wx:key" { return; } self.sattr(a, v); }
        else if k == n + STATIC.len() { self.sp(); self.lit("hidden"); }                      // no value
        else { self.sp(); self.lit("hidden="); self.bind(e, '\0', scope); }               // unquoted binding
    }
}
const N_ATTR_KINDS: usize = 27;

const NO: &[String] = &[];
impl Gen {
    fn open(&mut self, tag: &str) { self.lit("<"); self.lit(tag); }
    fn b(&mut self, e: &[&str]) { self.bind(e, '"', NO); }
    fn battr(&mut self, name: &str, e: &[&str]) { self.sp(); self.lit(name); self.lit("=\""); self.b(e); self.lit("\""); }
    fn bare(&mut self, name: &str) { self.sp(); self.lit(name); }
    /// `<tag>` children `</tag>` around `f`
    fn wrap(&mut self, tag: &str, f: impl FnOnce(&mut Self)) { self.open(tag); self.gt(); self.ng(); f(self); self.ng(); self.end(tag); }

    /// A1: one expression in one binding context
    fn ctx(&mut self, c: usize, e: &[&str], st: usize) {
        match c {
            0 => { self.open("view"); self.attr("title", 1, e, st, '"', NO); self.sc(); }
            1 => { self.open("view"); self.sp(); self.lit("hidden="); self.bind(e, '\0', NO); self.sc(); }
            2 => { self.open("view"); self.gt(); self.bind(e, '\0', NO); self.end("view"); }
            3 => { self.open("view"); self.attr("class", 4, e, st, '"', NO); self.sc(); }
            4 => { self.open("view"); self.gt(); self.val(6, e, st, '\0', NO); self.end("view"); }
            5 => { self.open("view"); self.attr("wx:if", 1, e, st, '"', NO); self.gt(); self.lit("x"); self.end("view"); }
            6 => { self.open("view"); self.attr("wx:for", 1, e, st, '"', NO); self.gt(); self.bind(&["item"], '\0', NO); self.end("view"); }
            7 => {
                self.open("template"); self.sattr("is", "t"); self.sp(); self.lit("data=\"{{");
                for t in ["k", ":"] { self.eg(); self.lit(t); }
                for t in e { self.eg(); self.tok(t, '"', NO); }
                self.eg(); self.lit("}}\""); self.sc();
            }
            8 => { self.open("slot"); self.attr("name", 1, e, st, '"', NO); self.attr("val-x", 2, e, st, '"', NO); self.sc(); }
            9 => {
                self.open("view"); self.attr("data-k", 1, e, st, '"', NO); self.attr("mark:m", 3, e, st, '"', NO);
                self.attr("bind:tap", 1, e, st, '"', NO); self.attr("model:v-w", 1, e, st, '"', NO); self.sc();
            }
            10 => { self.open("view"); self.attr("title", 1, e, st, '\'', NO); self.sc(); }
            _ => {
                let sc = vec!["a".to_string(), "b".to_string()];
                self.open("block"); self.battr("wx:for", &["list"]); self.sattr("wx:for-item", "a"); self.sattr("wx:for-index", "b"); self.gt();
                self.ng(); self.open("view"); self.attr("title", 1, e, st, '"', &sc); self.gt(); self.bind(e, '\0', &sc); self.end("view"); self.ng();
                self.end("block");
            }
        }
    }

    /// A4: directed structures
    fn structure(&mut self, k: usize) {
        let t = '\0';
        match k {
            0 => {
                self.open("view"); self.battr("wx:if", &["a"]); self.gt(); self.lit("A"); self.end("view"); self.ng();
                self.open("view"); self.battr("wx:elif", &["b", ">", "1"]); self.gt(); self.lit("B\u{1F600}"); self.end("view"); self.ng();
                self.open("view"); self.bare("wx:else"); self.gt(); self.lit("C"); self.end("view");
            }
            1 => {
                self.open("block"); self.battr("wx:if", &["a", "&&", "b"]); self.gt(); self.ng();
                self.wrap("view", |g| g.lit("x")); self.bind(&["t"], t, NO); self.ng(); self.end("block"); self.ng();
                self.open("block"); self.bare("wx:else"); self.gt(); self.wrap("text", |g| g.lit("y\u{5B57}")); self.end("block");
            }
            2 => {
                self.open("view"); self.battr("wx:if", &["a"]); self.sc(); self.ng();
                self.open("view"); self.battr("wx:elif", &["b"]); self.sc(); self.ng();
                self.open("view"); self.bare("wx:else"); self.sc();
            }
            3 => { self.open("view"); self.battr("wx:for", &["list"]); self.gt(); self.bind(&["index"], t, NO); self.lit(": "); self.bind(&["item", ".", "name"], t, NO); self.end("view"); }
            4 => {
                self.open("view"); self.battr("wx:for", &["list"]); self.sattr("wx:for-item", "it"); self.sattr("wx:for-index", "idx"); self.sattr("wx:key", if t == '"' { "id" } else { " id " });
                self.gt(); self.bind(&["idx"], t, NO); self.lit("-"); self.bind(&["it", ".", "t"], t, NO); self.lit(" end"); self.end("view");
            }
            5 => {
                self.open("block"); self.battr("wx:for", &["rows"]); self.sattr("wx:for-index", "row"); self.gt();
                self.lit("\u{5B57}\u{1F680} "); self.bind(&["row"], t, NO); self.lit(" "); self.bind(&["item"], t, NO); self.end("block");
            }
            6 => {
                self.open("view"); self.sattr("wx:key", "*this"); self.sattr("wx:for-item", "el"); self.battr("wx:for", &["[", "1", ",", "2", "]"]); self.gt();
                self.bind(&["el", "+", "index"], t, NO); self.lit("\n\u{1F600}"); self.end("view");
            }
            7 => { self.open("view"); self.battr("wx:for", &["l"]); self.battr("wx:if", &["c", "[", "index", "]"]); self.gt(); self.bind(&["item"], t, NO); self.end("view"); }
            8 => {
                self.open("view"); self.battr("wx:for", &["a"]); self.sattr("wx:for-item", "x"); self.gt(); self.ng();
                self.open("view"); self.battr("wx:for", &["x", ".", "l"]); self.sattr("wx:for-item", "y"); self.sattr("wx:for-index", "j"); self.gt(); self.ng();
                self.open("text"); self.gt(); for v in ["x", "y", "j", "index"] { self.bind(&[v], t, NO); self.lit("\u{1F600}"); } self.end("text");
                self.ng(); self.end("view"); self.ng(); self.end("view");
            }
            9 => {
                self.open("comp"); self.bare("slot:item"); self.sattr("slot:list-data", "ld"); self.gt(); self.ng();
                self.open("view"); self.gt(); self.bind(&["item"], t, NO); self.lit(" "); self.bind(&["ld", "[", "0", "]"], t, NO); self.end("view"); self.ng(); self.end("comp");
            }
            10 => { self.open("block"); self.sp(); self.lit("slot=\"s"); self.b(&["a"]); self.lit("\""); self.sattr("slot:v", "w"); self.gt(); self.bind(&["w"], t, NO); self.end("block"); }
            11 => {
                self.open("template"); self.sattr("name", "t\u{5B57}"); self.gt(); self.ng(); self.wrap("view", |g| g.bind(&["a"], '\0', NO)); self.ng(); self.end("template"); self.ng();
                self.open("template"); self.sattr("is", "t\u{5B57}"); self.sp(); self.lit("data=\""); self.b(&["a", ",", "b", ":", "1"]); self.lit("\""); self.sc();
            }
            12 => { self.open("template"); self.battr("is", &["x", "?", "'a'", ":", "'b'"]); self.battr("data", &["...", "d"]); self.sc(); }
            13 => {
                self.open("import"); self.sattr("src", "./a.wxml"); self.sc(); self.ng(); self.open("include"); self.sattr("src", "b"); self.sc(); self.ng();
                self.open("wxs"); self.sattr("module", "m"); self.sattr("src", "./m.wxs"); self.sc(); self.ng();
                self.wrap("view", |g| g.bind(&["m", ".", "f", "(", "1", ")"], '\0', NO));
            }
            14 => {
                self.open("wxs"); self.sattr("module", "u"); self.gt(); self.lit("\nvar \u{5B57} = \"\u{1F600}\";\nmodule.exports = {}; /*\u{1F600}*/"); self.end("wxs");
                self.wrap("view", |g| g.bind(&["u", ".", "x"], '\0', NO));
            }
            15 => {
                self.open("slot"); self.sattr("name", "n"); self.battr("val-a", &["a"]); self.sattr("data-k", "v"); self.sattr("bind:tap", "h"); self.sc(); self.ng();
                self.open("slot"); self.gt(); self.end("slot");
            }
            16 => {
                self.open("view"); self.sattr("class", "c"); self.gt(); self.ng(); self.open("view"); self.sattr("id", "i"); self.gt(); self.ng();
                self.open("text"); self.gt(); self.val(4, &["b"], 0, t, NO); self.end("text"); self.lit("\u{5B57}");
                self.open("text"); self.gt(); self.lit("\u{1F600}"); self.bind(&["d"], t, NO); self.end("text"); self.ng(); self.end("view"); self.lit("tail"); self.end("view");
            }
            17 => {
                self.open("view"); self.gt(); self.lit("<!--c1-->x<!--\u{1F600}\n\u{1F600}-->"); self.open("text"); self.sc(); self.end("view"); self.ng();
                self.open("view"); self.battr("wx:if", &["a"]); self.sc(); self.lit("<!-- between\n\u{1F680} -->"); self.open("view"); self.bare("wx:else"); self.gt(); self.lit("e"); self.end("view");
            }
            18 => {
                self.open("view");
                for k in [0usize, 1, 2, 3, 5, 6, 8, 9, 10, 11, 12, 19, 20, 21, 25] { let e = EXPRS[(k * 5) % EXPRS.len()]; self.attr_kind(k, k, e, k, NO); }
                self.gt(); self.lit("t"); self.end("view");
            }
            19 => { self.open("view"); self.gt(); self.open("text"); self.gt(); self.lit("in"); self.lit("</text \n>"); self.lit("</view\t>"); }
            20 => { self.lit("top \u{1F600}\r\n"); self.bind(&["a"], t, NO); self.lit(" mid\r\n"); self.wrap("view", |g| g.lit("v")); self.lit("\r\nlast "); self.bind(&["z"], t, NO); self.lit(" end\u{5B57}"); }
            21 => {
                self.open("view"); self.battr("wx:for", &["l"]); self.gt(); self.ng(); self.open("include"); self.sattr("src", "../inc.wxml"); self.sc(); self.ng();
                self.open("template"); self.sattr("is", "row"); self.battr("data", &["...", "item", ",", "index"]); self.sc(); self.ng(); self.end("view");
            }
            22 => {
                self.open("wxs"); self.sattr("module", "m"); self.sattr("src", "m"); self.sc(); self.ng();
                self.open("view"); self.battr("wx:for", &["m", ".", "list", "(", "n", ")"]); self.gt(); self.ng();
                self.open("comp"); self.sattr("slot:sv", "sv"); self.battr("title", &["m", ".", "f", "(", "item", ",", "index", ")"]); self.gt();
                self.bind(&["sv", "+", "item", "+", "m", ".", "k"], t, NO); self.end("comp"); self.ng(); self.end("view");
            }
            _ => {
                self.open("template"); self.sattr("name", "rows"); self.gt(); self.ng();
                self.open("block"); self.battr("wx:for", &["rows"]); self.sattr("wx:for-item", "r"); self.gt(); self.ng();
                self.open("view"); self.battr("wx:if", &["r", ".", "a"]); self.gt(); self.val(3, &["r", ".", "a"], 1, t, NO); self.end("view"); self.ng();
                self.open("view"); self.bare("wx:else"); self.gt(); self.val(6, &["index"], 2, t, NO); self.end("view"); self.ng();
                self.end("block"); self.ng(); self.end("template");
            }
        }
    }
}
const N_STRUCT: usize = 24;

/// Phase B: LCG-random composite templates
impl Gen {
    fn rexpr(&mut self) -> &'static [&'static str] { EXPRS[self.rng.below(EXPRS.len())] }
    fn rtext(&mut self, sc: &[String]) {
        let form = self.rng.below(8); let st = self.rng.below(STATICS.len()); let e = self.rexpr();
        self.val(form, e, st, '\0', sc);
    }
    fn rattrs(&mut self, sc: &[String], allow_slot_refs: bool) -> Vec<String> {
        let n = self.rng.below(4);
        let mut used: Vec<usize> = vec![];
        let mut introduced = vec![];
        for _ in 0..n {
            let k = self.rng.below(N_ATTR_KINDS);
            // one attribute per kind; the three data spellings and the two `hidden` forms exclude each other
            let class = match k { 5 | 6 | 7 => 5, 25 | 26 => 25, x => x };
            if used.contains(&class) { continue; }
            if !allow_slot_refs && (k == 22 || k == 23) { continue; }
            used.push(class);
            let (form, st, e) = (self.rng.below(8), self.rng.below(STATICS.len()), self.rexpr());
            self.attr_kind(k, form, e, st, sc);
            if k == 22 { introduced.push("it".to_string()); }
            if k == 23 { introduced.push("ld".to_string()); }
        }
        introduced
    }
    fn rchildren(&mut self, depth: u32, sc: &mut Vec<String>) {
        self.ng();
        for _ in 0..self.rng.below(3) + (depth == 3) as usize { self.rnode(depth, sc); self.ng(); }
    }
    fn rnode(&mut self, depth: u32, sc: &mut Vec<String>) {
        const TAGS: [&str; 4] = ["view", "text", "my-comp", "x_1"];
        let k = if depth == 0 { self.rng.below(3) } else { self.rng.below(13) };
        let keep = sc.len();
        match k {
            0 | 1 => self.rtext(sc),
            2 => { let t = TAGS[self.rng.below(4)]; self.open(t); self.rattrs(sc, true); self.sc(); }
            3 | 4 | 5 => {
                let t = TAGS[self.rng.below(4)];
                self.open(t); let intro = self.rattrs(sc, true); self.gt();
                sc.extend(intro); self.rchildren(depth - 1, sc); self.end(t);
            }
            6 => {
                let n = 1 + self.rng.below(3);
                for i in 0..n {
                    let t = if self.rng.below(2) == 0 { "block" } else { "view" };
                    self.open(t);
                    if i == 0 { let e = self.rexpr(); self.attr("wx:if", 1, e, 0, '"', sc); }
                    else if i + 1 == n && self.rng.below(2) == 0 { self.bare("wx:else"); }
                    else { let e = self.rexpr(); self.attr("wx:elif", 1, e, 0, '"', sc); }
                    if t == "view" { self.rattrs(sc, false); }
                    if self.rng.below(4) == 0 { self.sc(); } else { self.gt(); self.rchildren(depth - 1, sc); self.end(t); }
                    if i + 1 < n { self.ng(); }
                }
            }
            7 | 8 => {
                let t = if self.rng.below(2) == 0 { "block" } else { "view" };
                self.open(t);
                let (item, index) = (["item", "it", "a"][self.rng.below(3)], ["index", "idx", "b"][self.rng.below(3)]);
                let mut parts: Vec<usize> = vec![0];
                if item != "item" { parts.push(1); }
                if index != "index" { parts.push(2); }
                if self.rng.below(2) == 0 { parts.push(3); }
                // attributes of the loop in a rotated order
                let rot = self.rng.below(parts.len());
                parts.rotate_left(rot);
                for p in parts {
                    match p {
                        0 => { let e = self.rexpr(); self.attr("wx:for", 1, e, 0, '"', sc); }
                        1 => self.sattr("wx:for-item", item),
                        2 => self.sattr("wx:for-index", index),
                        _ => { let i = self.rng.below(5); self.sattr("wx:key", ["id", "*this", "k\u{5B57}", " id ", "\n\tid\u{1F600} "][i]) }
                    }
                }
                if t == "view" { self.rattrs(sc, false); }
                self.gt(); sc.push(item.to_string()); sc.push(index.to_string());
                self.rchildren(depth - 1, sc); self.end(t);
            }
            9 => {
                self.open("template");
                if self.rng.below(2) == 0 { self.sattr("is", "t-\u{5B57}"); } else { let e = self.rexpr(); self.attr("is", 1, e, 0, '"', sc); }
                if self.rng.below(2) == 0 {
                    let d = DATA_EXPRS[self.rng.below(DATA_EXPRS.len())];
                    self.sp(); self.lit("data=\"{{"); for t in d { self.eg(); self.tok(t, '"', sc); } self.eg(); self.lit("}}\"");
                }
                self.sc();
            }
            10 => { let i = self.rng.below(3); self.open("include"); self.sattr("src", ["inc", "./i.wxml", "../\u{5B57}/i"][i]); self.sc(); }
            11 => {
                self.open("slot");
                if self.rng.below(2) == 0 { let (f, st, e) = (self.rng.below(8), self.rng.below(9), self.rexpr()); self.attr("name", f, e, st, '"', sc); }
                if self.rng.below(2) == 0 { let e = self.rexpr(); self.attr("val-x", 1, e, 0, '"', sc); }
                if self.rng.below(3) == 0 { self.sc(); } else { self.gt(); self.end("slot"); }
            }
            _ => {
                self.open("block"); let (f, st, e) = (self.rng.below(8), self.rng.below(9), self.rexpr()); self.attr("slot", f, e, st, '"', sc);
                if self.rng.below(2) == 0 { self.sattr("slot:v-w", "vw"); sc.push("vw".into()); }
                self.gt(); self.rchildren(depth - 1, sc); self.end("block");
            }
        }
        sc.truncate(keep);
    }
    fn rtemplate(&mut self) {
        let mut sc: Vec<String> = vec![];
        self.ng();
        if self.rng.below(4) == 0 { self.open("import"); self.sattr("src", "./a\u{5B57}.wxml"); self.sc(); self.ng(); }
        if self.rng.below(4) == 0 {
            self.open("wxs"); self.sattr("module", "m");
            if self.rng.below(2) == 0 { self.sattr("src", "./m.wxs"); self.sc(); }
            else { let i = self.rng.below(3); self.gt(); self.lit(["var x = 1;", "\n// \u{5B57}\nvar s = \"\u{1F600}\"; /*\u{1F600}*/", "module.exports = {\r\n f: 1 }\r\n"][i]); self.end("wxs"); }
            self.ng(); sc.push("m".into());
        }
        if self.rng.below(5) == 0 {
            self.open("template"); self.sattr("name", "t-\u{5B57}"); self.gt();
            let mut inner = sc.clone(); self.rchildren(2, &mut inner); self.end("template"); self.ng();
        }
        for _ in 0..1 + self.rng.below(3) { self.rnode(3, &mut sc); self.ng(); }
    }
}

/// Every generated template, in a fixed order (simple and compact ones first).  `f` returns true to stop.
fn enumerate(mut f: impl FnMut(&str) -> bool) {
    const LEAD: [&str; 3] = ["", "\u{1F600}\u{5B57} ", "<!--\u{1F600}-->\n"];
    // A1
    for style in 0..NSTYLE {
        for (i, e) in EXPRS.iter().enumerate() {
            for c in 0..12usize {
                let mut g = Gen::new(style, (i * 12 + c) as u64);
                g.lit(LEAD[(i + c) % 3]); g.ng(); g.ctx(c, e, i + c); g.ng();
                if f(&g.s) { return; }
            }
        }
    }
    // A2
    for style in 0..NSTYLE {
        for k in 0..N_ATTR_KINDS {
            for form in 0..8usize {
                let mut g = Gen::new(style, 1000 + (k * 8 + form) as u64);
                let e = EXPRS[(k * 11 + form * 3) % EXPRS.len()];
                g.lit(LEAD[(k + form) % 3]); g.open("view"); g.attr_kind(k, form, e, k + form, NO); g.gt(); g.lit("t"); g.end("view"); g.ng();
                if f(&g.s) { return; }
            }
        }
    }
    // A3
    for style in 0..NSTYLE {
        for form in 0..10usize {
            for st in 0..6usize {
                let mut g = Gen::new(style, 2000 + (form * 6 + st) as u64);
                let e = EXPRS[(form * 13 + st * 5) % EXPRS.len()];
                if form < 8 { g.open("view"); g.gt(); g.val(form, e, st * 2, '\0', NO); g.end("view"); }
                else if form == 8 { g.val(6, e, st * 2 + 1, '\0', NO); }                      // top-level text
                else { g.wrap("view", |g| { g.val(4, e, st, '\0', NO); g.open("text"); g.sc(); g.val(3, e, st + 4, '\0', NO); }); }
                if f(&g.s) { return; }
            }
        }
    }
    // A4
    for style in 0..NSTYLE {
        for k in 0..N_STRUCT {
            for seed in 0..3u64 {
                if style == 0 && seed > 0 { continue; }
                let mut g = Gen::new(style, 3000 + k as u64 * 3 + seed);
                g.lit(LEAD[(k + seed as usize) % 3]); g.ng(); g.structure(k); g.ng();
                if f(&g.s) { return; }
            }
        }
    }
    // B
    for n in 0..20000u64 {
        let mut g = Gen::new((n % NSTYLE as u64) as u32, 10_000 + n);
        g.rtemplate();
        if f(&g.s) { return; }
    }
}

pub fn search() -> Outcome {
    std::panic::set_hook(Box::new(|_| {}));
    let mut seen = std::collections::HashSet::new();
    let (mut generated, mut skipped, mut checked) = (0u64, 0u64, 0u64);
    let mut found: Option<Outcome> = None;
    enumerate(|src| {
        generated += 1;
        if !seen.insert(src.to_string()) { return false; }
        let owned = src.to_string();
        match std::panic::catch_unwind(move || check(&owned)) {
            Ok(Verdict::Skipped) => { skipped += 1; if std::env::var("POSLOC_SKIPS").is_ok() { eprintln!("SKIP #{} {}", generated, encode(src)); } false }
            Ok(Verdict::Pass) => { checked += 1; false }
            Ok(Verdict::Bad(fl)) => {
                checked += 1;
                found = Some(Outcome { found: true, input: encode(src), observed: fl.observed, expected: fl.expected, evaluations: checked, bound: BOUND.into() });
                true
            }
            Err(_) => {
                checked += 1;
                found = Some(Outcome { found: true, input: encode(src), observed: "panic".into(), expected: "no panic".into(), evaluations: checked, bound: BOUND.into() });
                true
            }
        }
    });
    if std::env::var("POSLOC_STATS").is_ok() { eprintln!("generated {} distinct {} skipped(diagnostics) {} checked {}", generated, seen.len(), skipped, checked); }
    match found {
        Some(o) => o,
        None => Outcome::none(checked, &format!("{}; {} generated, {} skipped for diagnostics", BOUND, generated, skipped)),
    }
}
pub fn run(input: &str) -> Outcome {
    std::panic::set_hook(Box::new(|_| {}));
    let src = decode(input);
    let owned = src.clone();
    let one = |found: bool, observed: String, expected: String| Outcome { found, input: input.into(), observed, expected, evaluations: 1, bound: "single input".into() };
    match std::panic::catch_unwind(move || check(&owned)) {
        Ok(Verdict::Skipped) => one(false, "skipped: the template produces parser diagnostics".into(), String::new()),
        Ok(Verdict::Pass) => one(false, String::new(), String::new()),
        Ok(Verdict::Bad(fl)) => one(true, fl.observed, fl.expected),
        Err(_) => one(true, "panic".into(), "no panic".into()),
    }
}
