//! ENT (bounded stand-in): numeric character references with <= 3 digits (all), selected long/edge values,
//! and a few named references, through the real entities::decode.  Oracle: the reference denotes exactly its
//! code point when that is a Unicode scalar value, and is rejected otherwise.
use crate::Outcome;
use glass_easel_template_compiler::verif_hooks as h;

fn expect(body: &str, radix: u32) -> Option<String> {
    if body.is_empty() { return None; }
    let v = u64::from_str_radix(body, radix).ok()?;
    if v > u32::MAX as u64 { return None; }
    char::from_u32(v as u32).map(|c| c.to_string())
}
const BOUND: &str = "all &#D..; with 1-3 decimal digits, all &#xH..; with 0-3 hex digits (both cases), edge values around 0xD800/0xE000/0x10FFFF/2^32, named &amp; &lt; &nosuch;, and all 2231 entries of the HTML named character reference table (one- and two-code-point names; the 106 spellings without `;` are rejected)";
fn cases() -> Vec<(String, Option<String>)> {
    let mut v = vec![];
    let dec = "0123456789";
    let hex = "0123456789abcdefABCDEF";
    fn combos(alpha: &str, n: usize) -> Vec<String> {
        let mut out = vec![String::new()];
        for _ in 0..n { out = out.iter().flat_map(|p| alpha.chars().map(move |c| format!("{}{}", p, c))).collect(); }
        out
    }
    for n in 1..=3 { for b in combos(dec, n) { v.push((format!("&#{};", b), expect(&b, 10))); } }
    for n in 0..=3 { for b in combos(hex, n) { v.push((format!("&#x{};", b), if n == 0 { None } else { expect(&b, 16) })); } }
    for b in ["55295", "55296", "57343", "57344", "1114111", "1114112", "4294967295", "4294967296", "99999999999999999999", "0000000065"] {
        v.push((format!("&#{};", b), expect(b, 10)));
    }
    for b in ["d7ff", "D800", "dfff", "e000", "10ffff", "110000", "ffffffff", "100000000", "0000041"] {
        v.push((format!("&#x{};", b), expect(b, 16)));
    }
    v.push(("&amp;".into(), Some("&".into())));
    v.push(("&lt;".into(), Some("<".into())));
    v.push(("&nosuch;".into(), None));
    // every named reference of the HTML table (the `entities` crate, the same version the compiler links): the
    // expected text is built from the table's code points (one or two), not from its `characters` field
    for e in entities::ENTITIES.iter() {
        let want: String = match e.codepoints {
            entities::Codepoints::Single(a) => char::from_u32(a).into_iter().collect(),
            entities::Codepoints::Double(a, b) => char::from_u32(a).into_iter().chain(char::from_u32(b)).collect(),
        };
        // the spellings without `;` are not references in WXML
        v.push((e.entity.to_string(), if e.entity.ends_with(';') { Some(want) } else { None }));
    }
    v
}
fn check(e: &str, want: &Option<String>) -> Option<(String, String)> {
    let got = std::panic::catch_unwind(|| h::entities_decode(e));
    match got {
        Err(_) => Some(("panic".into(), format!("{:?}", want))),
        Ok(g) if &g != want => Some((format!("{:?}", g), format!("{:?}", want))),
        _ => None,
    }
}
pub fn search() -> Outcome {
    std::panic::set_hook(Box::new(|_| {}));
    let mut n = 0u64;
    for (e, want) in cases() {
        n += 1;
        if let Some((got, w)) = check(&e, &want) {
            return Outcome { found: true, input: e, observed: got, expected: w, evaluations: n, bound: BOUND.into() };
        }
    }
    Outcome::none(n, BOUND)
}
pub fn run(input: &str) -> Outcome {
    let want = cases().into_iter().find(|(e, _)| e == input).map(|x| x.1);
    let want = match want { Some(w) => w, None => return Outcome::none(1, "input not in the case list") };
    match check(input, &want) {
        Some((got, w)) => Outcome { found: true, input: input.into(), observed: got, expected: w, evaluations: 1, bound: "single input".into() },
        None => Outcome { found: false, input: input.into(), observed: String::new(), expected: String::new(), evaluations: 1, bound: "single input".into() },
    }
}
