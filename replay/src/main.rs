//! Witness search / replay against the REAL crates (built from /repo's working tree with
//! `--cfg glass_easel_verif`).  This is NOT the deciding step of any check: it runs after the
//! verifier flagged an obligation (to attach a concrete failing input to the replay file), or as a
//! *bounded* stand-in when a changed function fell outside the verifier's subset.  Every search
//! states its bound in its output.
use std::collections::HashSet;

mod json;
mod path_unit;
mod varname_unit;
mod total_unit;
mod cssout_unit;
mod pscore_unit;
mod jslit_unit;
mod ent_unit;
mod cssmap_unit;
mod rpx_unit;
mod cssws_unit;
mod bmc_unit;
mod groupdet_unit;
mod grouplink_unit;
mod hostpart_unit;
mod importsign_unit;
mod diag_unit;
mod jseval_unit;
mod posloc_unit;
mod strfyrt_unit;

pub struct Outcome {
    pub found: bool,
    pub input: String,
    pub observed: String,
    pub expected: String,
    pub evaluations: u64,
    pub bound: String,
}

impl Outcome {
    pub fn none(evaluations: u64, bound: &str) -> Self {
        Outcome { found: false, input: String::new(), observed: String::new(), expected: String::new(), evaluations, bound: bound.to_string() }
    }
    fn print(&self) {
        println!(
            "{{\"found\":{},\"input\":{},\"observed\":{},\"expected\":{},\"evaluations\":{},\"bound\":{}}}",
            self.found,
            json::quote(&self.input),
            json::quote(&self.observed),
            json::quote(&self.expected),
            self.evaluations,
            json::quote(&self.bound)
        );
    }
}

fn main() {
    let args: Vec<String> = std::env::args().collect();
    if args.len() < 3 {
        eprintln!("usage: vxreplay <UNIT> search | run <input>");
        std::process::exit(2);
    }
    let unit = args[1].as_str();
    let mode = args[2].as_str();
    let input = args.get(3).cloned();
    let _ = HashSet::<u8>::new();
    let out = match (unit, mode) {
        ("PATH", "search") => path_unit::search(),
        ("PATH", "run") => path_unit::run(&input.unwrap()),
        ("VARNAME", "search") => varname_unit::search(),
        ("VARNAME", "run") => varname_unit::run(&input.unwrap()),
        ("CSSOUT", "search") => cssout_unit::search(),
        ("CSSOUT", "run") => cssout_unit::run(&input.unwrap()),
        ("PSCORE", "search") => pscore_unit::search(),
        ("PSCORE", "run") => pscore_unit::run(&input.unwrap()),
        ("JSLIT", "search") => jslit_unit::search(),
        ("JSLIT", "run") => jslit_unit::run(&input.unwrap()),
        ("ENT", "search") => ent_unit::search(),
        ("ENT", "run") => ent_unit::run(&input.unwrap()),
        ("CSSMAP", "search") => cssmap_unit::search(),
        ("CSSMAP", "run") => cssmap_unit::run(&input.unwrap()),
        ("RPX", "search") => rpx_unit::search(),
        ("RPX", "run") => rpx_unit::run(&input.unwrap()),
        ("CSSWS", "search") => cssws_unit::search(),
        ("CSSWS", "run") => cssws_unit::run(&input.unwrap()),
        ("BMC", "search") => bmc_unit::search(),
        ("BMC", "run") => bmc_unit::run(&input.unwrap()),
        ("GROUPDET", "search") => groupdet_unit::search(),
        ("GROUPDET", "run") => groupdet_unit::run(&input.unwrap()),
        ("GROUPLINK", "search") => grouplink_unit::search(),
        ("GROUPLINK", "run") => grouplink_unit::run(&input.unwrap()),
        ("POSLOC", "search") => posloc_unit::search(),
        ("POSLOC", "run") => posloc_unit::run(&input.unwrap()),
        ("STRFYRT", "search") => strfyrt_unit::search(),
        ("STRFYRT", "run") => strfyrt_unit::run(&input.unwrap()),
        ("JSEVAL", "search") => jseval_unit::search(),
        ("JSEVAL", "run") => jseval_unit::run(&input.unwrap()),
        ("DIAG", "search") => diag_unit::search(),
        ("DIAG", "run") => diag_unit::run(&input.unwrap()),
        ("HOSTPART", "search") => hostpart_unit::search(),
        ("HOSTPART", "run") => hostpart_unit::run(&input.unwrap()),
        ("IMPORTSIGN", "search") => importsign_unit::search(),
        ("IMPORTSIGN", "run") => importsign_unit::run(&input.unwrap()),
        ("TOTAL", "search") => total_unit::search(),
        ("TOTAL", "run") => total_unit::run(&input.unwrap()),
        _ => {
            eprintln!("no witness generator for unit {}", unit);
            std::process::exit(2);
        }
    };
    out.print();
    std::process::exit(if out.found { 1 } else { 0 });
}
