//! VARNAME: all ids below 4 000 000 (covers every reserved word of <= 4 characters and the first
//! 5-character names).  Oracle: ECMA-262 IdentifierName / ReservedWord, uniqueness.
use crate::Outcome;
use glass_easel_template_compiler::verif_hooks as h;
use std::collections::HashSet;

const RESERVED: &[&str] = &[
    "break", "case", "catch", "class", "const", "continue", "debugger", "default", "delete", "do", "else", "enum", "export",
    "extends", "false", "finally", "for", "function", "if", "import", "in", "instanceof", "new", "null", "return", "super",
    "switch", "this", "throw", "true", "try", "typeof", "var", "void", "while", "with", "yield", "let", "static", "implements",
    "interface", "package", "private", "protected", "public", "await", "eval", "arguments",
];
fn bad(id: usize, name: &str) -> Option<String> {
    let mut cs = name.chars();
    let ok_start = matches!(cs.next(), Some(c) if c.is_ascii_alphabetic() || c == '_' || c == '$');
    if !ok_start || !cs.all(|c| c.is_ascii_alphanumeric() || c == '_' || c == '$') {
        return Some("a JavaScript IdentifierName".into());
    }
    if RESERVED.contains(&name) {
        return Some("not a reserved word".into());
    }
    if id >= 26 && name.len() == 1 && name.chars().next().unwrap().is_ascii_uppercase() {
        return Some("not one of the preserved helper names A..Z".into());
    }
    None
}
const BOUND: &str = "all ids 0 .. 4_000_000";
pub fn search() -> Outcome {
    let mut seen = HashSet::new();
    let mut n = 0u64;
    std::panic::set_hook(Box::new(|_| {}));
    for id in 0..4_000_000usize {
        n += 1;
        let name = match std::panic::catch_unwind(|| h::get_var_name(id)) {
            Ok(x) => x,
            Err(_) => return Outcome { found: true, input: id.to_string(), observed: "panic".into(), expected: "a name (the generator is total)".into(), evaluations: n, bound: BOUND.into() },
        };
        if let Some(want) = bad(id, &name) {
            return Outcome { found: true, input: id.to_string(), observed: name, expected: want, evaluations: n, bound: BOUND.into() };
        }
        if !seen.insert(name.clone()) {
            return Outcome { found: true, input: id.to_string(), observed: name, expected: "a name distinct from every earlier one".into(), evaluations: n, bound: BOUND.into() };
        }
    }
    Outcome::none(n, BOUND)
}
pub fn run(input: &str) -> Outcome {
    let id: usize = input.parse().unwrap();
    std::panic::set_hook(Box::new(|_| {}));
    let name = match std::panic::catch_unwind(|| h::get_var_name(id)) {
        Ok(x) => x,
        Err(_) => return Outcome { found: true, input: input.into(), observed: "panic".into(), expected: "a name (the generator is total)".into(), evaluations: 1, bound: "single input".into() },
    };
    match bad(id, &name) {
        Some(want) => Outcome { found: true, input: input.into(), observed: name, expected: want, evaluations: 1, bound: "single input".into() },
        None => Outcome { found: false, input: input.into(), observed: name, expected: String::new(), evaluations: 1, bound: "single input".into() },
    }
}
