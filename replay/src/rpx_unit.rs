//! RPX (bounded stand-in for the callers of write_maybe_rpx_dimension and for the option plumbing, which are
//! outside the Kani slice): a grid of rpx values x ratios x contexts through the real transformer.
//! Oracle (property C10): the emitted number is value*100/ratio (computed in double precision) in `vw`, to within
//! the 6 significant digits cssparser prints, with its sign; zero keeps its sign; `px` values are not converted.
use crate::Outcome;
use glass_easel_stylesheet_compiler::{StyleSheetOptions, StyleSheetTransformer};

const VALUES: &[&str] = &["0", "-0", "0.0", "+0", "1", "75", "750", "-1.5", ".5", "0.001", "0.00000075", "3e10", "30000000000", "1e-3", "7.5e2"];
const RATIOS: &[f32] = &[750.0, 10.0, 1.0, 0.5, 0.00001, 1000000.0];
const CONTEXTS: &[(&str, &str)] = &[("a{width:", "}"), ("a{width:calc(1px + ", ")}"), ("@media (min-width:", "){a{}}"), ("a{--x:", "}"), ("a{margin:0 ", "}"), (":host{top:", "}"),
    ("@page{margin:", "}"), ("@page :first{margin:0 ", "}"), ("@font-face{width:", "}"), ("@keyframes k{from{width:", "}}"), ("@page{@top-left{width:", "}}"), ("@starting-style{a{width:", "}}"), ("@layer l{a{width:", "}}"), ("a{width:var(--x,", ")}"),
    // group rules nested in a style rule, with declarations written directly in them
    ("a{@media (min-width:1px){width:", "}}"), ("a{@supports (x:y){margin:0 ", ";}}"), ("a{color:red;@container (min-width:1px){top:", "}}"), ("a{@layer l{width:", "}}"),
    // conditions of an @import that is rewritten under an import sign
    ("@import './a' supports(width: ", ");"), ("@import url(b.wxss) layer(x) supports(margin-left: calc(100% - ", ")) (min-width: 10px);"), ("@import 'c' (min-width: ", ");")];
const BOUND: &str = "15 rpx values x 6 ratios x 21 contexts (declaration, calc, media query, custom property, second value, :host, @page, @font-face, @keyframes, margin box, @starting-style, @layer, var() fallback, declarations inside @media / @supports / @container / @layer nested in a style rule, supports() / media conditions of an @import rewritten under an import sign); 44 other numeric spellings (signed zeros, explicit plus, integers, decimals, exponents, percentages, dimensions incl. An+B and look-alike units) x 11 contexts, re-tokenised: kind, unit, explicit sign, integer-ness and value kept; the JS binding constructor agrees with from_css for 10 ratios x 4 values x 3 option sets";

fn transform(css: &str, ratio: f32) -> String {
    // sheets that start with an @import are transformed under an import sign (the rewrite of the import's conditions)
    let sign = if css.starts_with("@import") { Some("S".to_string()) } else { None };
    let t = StyleSheetTransformer::from_css("p.wxss", css, StyleSheetOptions { rpx_ratio: ratio, import_sign: sign, ..Default::default() });
    let mut s = String::new();
    t.output().write_str(&mut s).unwrap();
    s
}
fn check(value: &str, ratio: f32, ctx: usize) -> Option<(String, String)> {
    let (pre, post) = CONTEXTS[ctx];
    let css = format!("{}{}rpx{}", pre, value, post);
    let out = transform(&css, ratio);
    let exact = value.parse::<f64>().unwrap() * 100.0 / (ratio as f64);
    let want = format!("{} vw (value*100/ratio)", exact);
    if out.contains("rpx") {
        return Some((format!("{:?} -> {:?}: the rpx unit survives", css, out), want));
    }
    let Some(p) = out.find("vw") else { return Some((format!("{:?} -> {:?}: no vw", css, out), want)) };
    let head = &out[..p];
    let start = head.rfind(|c: char| !(c.is_ascii_digit() || c == '.' || c == '-' || c == '+' || c == 'e')).map_or(0, |i| i + 1);
    let num = &head[start..];
    let Ok(got) = num.trim_start_matches('+').parse::<f64>() else { return Some((format!("{:?} -> {:?}: cannot read number {:?}", css, out, num), want)) };
    if exact == 0.0 {
        if got != 0.0 || (value.starts_with('-') != num.starts_with('-')) { return Some((format!("{:?} -> {:?}", css, out), "a zero of the same sign".into())); }
        return None;
    }
    if exact.abs() > 3.0e38 || exact.abs() < 1.2e-38 { return None; }
    if ((got - exact) / exact).abs() > 2.0e-5 {
        return Some((format!("{:?} -> {:?} (read {})", css, out, got), want));
    }
    // other units are left alone
    let o2 = transform(&format!("{}{}px{}", pre, "12", post), ratio);
    if !o2.contains("12px") { return Some((format!("12px in the same context -> {:?}", o2), "12px unchanged".into())); }
    None
}
// ---- second clause of C10: every other number, percentage and dimension keeps its value --------------------
use cssparser::{Parser, ParserInput, Token};
#[derive(Debug, Clone, PartialEq)]
struct Num { kind: &'static str, has_sign: bool, value: f32, int_value: Option<i32>, unit: String }
fn collect(p: &mut Parser, out: &mut Vec<Num>) {
    loop {
        let t = match p.next_including_whitespace() { Ok(t) => t.clone(), Err(_) => break };
        match &t {
            Token::Number { has_sign, value, int_value } => out.push(Num { kind: "number", has_sign: *has_sign, value: *value, int_value: *int_value, unit: String::new() }),
            Token::Percentage { has_sign, unit_value, int_value } => out.push(Num { kind: "percentage", has_sign: *has_sign, value: *unit_value, int_value: *int_value, unit: "%".into() }),
            Token::Dimension { has_sign, value, int_value, unit } => out.push(Num { kind: "dimension", has_sign: *has_sign, value: *value, int_value: *int_value, unit: unit.to_string() }),
            Token::Function(_) | Token::ParenthesisBlock | Token::SquareBracketBlock | Token::CurlyBracketBlock => {
                let _ = p.parse_nested_block(|q| -> Result<(), cssparser::ParseError<()>> { collect(q, out); Ok(()) });
            }
            _ => {}
        }
    }
}
fn nums(css: &str) -> Vec<Num> {
    let mut pi = ParserInput::new(css);
    let mut p = Parser::new(&mut pi);
    let mut out = vec![];
    collect(&mut p, &mut out);
    out
}
/// number spellings: zeros of both signs, an explicit plus, integers, decimals, exponents, percentages, dimensions
const OTHER: &[&str] = &["0", "-0", "+0", "5", "+5", "-5", "10", "007", "999999", "-999999", "1e3", "+1e3", "1E3", "1.5", "-.5", "+.5", "0.1", "1e-7", "100%", "+50%", "-0%", "33.3333%", "0.5%",
    "12px", "+12px", "-0px", "1.5em", "3PX", "2n", "+2n", "1e3px", "10vw", "1x", "90deg", "2rpxx", "1e2q",
    // integers of seven and more digits (exact since fix: formerly rounded to 6 significant digits, DESIGN section 8 D15)
    "1234567", "9999999", "16777217", "2147483647", "-2147483648", "+2147483647", "16777217px", "-1234567em"];
/// NON-integers with more than 6 significant digits: cssparser's printer rounds them (DESIGN section 8, D15; the unit test
/// transform_rpx pins `0.133333vw`) -- recorded as a known finding, enumerated and held to single precision only on request
const LONG: &[&str] = &["1.2345678", "123456.7px", "0.12345678", "33.333333%"];
const OCTX: &[(&str, &str)] = &[("a{z-index:", "}"), ("a{margin:0 ", " 1px}"), ("a{width:calc(1px * ", ")}"), ("a{width:calc(", " + 1px)}"), ("@media (min-width:", "){a{top:0}}"), ("a{--x:", "}"), ("a:nth-child(2n", "){top:0}"), ("a:nth-child(", "){top:0}"), ("a{top:", " !important}"), (":host{order:", "}"), ("a{unicode-range:", "}")];
fn strict_long() -> bool { std::env::var("VX_RPX_LONG").is_ok() }
fn check_other(value: &str, ctx: usize) -> Option<(String, String)> {
    let (pre, post) = OCTX[ctx];
    let css = format!("{}{}{}", pre, value, post);
    let t = StyleSheetTransformer::from_css("p.wxss", &css, StyleSheetOptions { rpx_ratio: 750., convert_host: true, ..Default::default() });
    let (a, b) = t.output_and_low_priority_output();
    let mut out = String::new();
    a.write_str(&mut out).unwrap();
    b.write_str(&mut out).unwrap();
    let (want, got) = (nums(&css), nums(&out));
    if want.len() != got.len() { return Some((format!("{:?} -> {:?}: {} numeric tokens", css, out, got.len()), format!("{} numeric tokens: {:?}", want.len(), want))); }
    for (w, g) in want.iter().zip(got.iter()) {
        let same_value = if w.value == 0.0 { g.value == 0.0 && w.value.is_sign_negative() == g.value.is_sign_negative() }
            else if let Some(i) = w.int_value { g.int_value == Some(i) && g.value == w.value }
            else { ((g.value as f64 - w.value as f64) / w.value as f64).abs() <= if strict_long() { 2.4e-7 } else { 2.0e-5 } };
        if w.kind != g.kind || w.unit != g.unit || w.has_sign != g.has_sign || !same_value || w.int_value.is_some() != g.int_value.is_some() {
            return Some((format!("{:?} -> {:?}: token {:?}", css, out, g), format!("{:?} (kind, unit, explicit sign, integer-ness and value kept; integers exactly)", w)));
        }
    }
    None
}
/// option plumbing of the other public entry point: the JS binding's constructor must hand its arguments to from_css unchanged
fn check_bindings(value: &str, ratio: f32, prefix: Option<&str>, host: bool) -> Option<(String, String)> {
    let css = format!(".a{{width:{}rpx}}:host{{top:{}rpx}}@media (min-width:{}rpx){{.b{{margin:0 {}rpx}}}}", value, value, value, value);
    let t = StyleSheetTransformer::from_css("p.wxss", &css, StyleSheetOptions { class_prefix: prefix.map(|s| s.to_string()), rpx_ratio: ratio, convert_host: host, ..Default::default() });
    let (a, b) = t.output_and_low_priority_output();
    let (mut sa, mut sb) = (String::new(), String::new());
    a.write_str(&mut sa).unwrap();
    b.write_str(&mut sb).unwrap();
    let j = glass_easel_stylesheet_compiler::js_bindings::StyleSheetTransformer::new("p.wxss", &css, prefix.map(|s| s.to_string()), ratio, host);
    if j.get_content() != sa || j.get_low_priority_content() != sb {
        return Some((format!("js_bindings::StyleSheetTransformer::new(.., {:?}, {}, {}) gives {:?} / {:?}", prefix, ratio, host, j.get_content(), j.get_low_priority_content()), format!("{:?} / {:?} (what from_css gives for the same options)", sa, sb)));
    }
    None
}
pub fn search() -> Outcome {
    std::panic::set_hook(Box::new(|_| {}));
    let mut n = 0u64;
    for r in RATIOS.iter().chain([0.75f32, 0.125, 1500.0, 375.0].iter()) {
        for v in ["1", "75", "-1.5", "0"] {
            for (prefix, host) in [(None, false), (Some("p"), true), (Some(""), false)] {
                n += 1;
                if let Some((got, want)) = check_bindings(v, *r, prefix, host) {
                    return Outcome { found: true, input: format!("bindings\t{}\t{}\t{}\t{}", v, r, prefix.unwrap_or("-"), host), observed: got, expected: want, evaluations: n, bound: BOUND.into() };
                }
            }
        }
    }
    for (ci, _) in OCTX.iter().enumerate() {
        for v in OTHER.iter().chain(if strict_long() { LONG.iter() } else { [].iter() }) {
            n += 1;
            let (v2, c2) = (v.to_string(), ci);
            let r = std::panic::catch_unwind(move || check_other(&v2, c2));
            let r = match r { Ok(x) => x, Err(e) => Some((format!("panic: {}", e.downcast_ref::<String>().cloned().or_else(|| e.downcast_ref::<&str>().map(|x| x.to_string())).unwrap_or_default()), "returns normally".to_string())) };
            if let Some((got, want)) = r {
                return Outcome { found: true, input: format!("other\t{}\t{}", v, ci), observed: got, expected: want, evaluations: n, bound: BOUND.into() };
            }
        }
    }
    for (ci, _) in CONTEXTS.iter().enumerate() {
        for r in RATIOS {
            for v in VALUES {
                n += 1;
                if let Some((got, want)) = check(v, *r, ci) {
                    return Outcome { found: true, input: format!("{}\t{}\t{}", v, r, ci), observed: got, expected: want, evaluations: n, bound: BOUND.into() };
                }
            }
        }
    }
    Outcome::none(n, BOUND)
}
pub fn run(input: &str) -> Outcome {
    let p: Vec<&str> = input.split('\t').collect();
    if p[0] == "bindings" {
        let prefix = if p[3] == "-" { None } else { Some(p[3]) };
        return match check_bindings(p[1], p[2].parse().unwrap(), prefix, p[4] == "true") {
            Some((got, want)) => Outcome { found: true, input: input.into(), observed: got, expected: want, evaluations: 1, bound: "single input".into() },
            None => Outcome { found: false, input: input.into(), observed: String::new(), expected: String::new(), evaluations: 1, bound: "single input".into() },
        };
    }
    if p[0] == "other" {
        return match check_other(p[1], p[2].parse().unwrap()) {
            Some((got, want)) => Outcome { found: true, input: input.into(), observed: got, expected: want, evaluations: 1, bound: "single input".into() },
            None => Outcome { found: false, input: input.into(), observed: String::new(), expected: String::new(), evaluations: 1, bound: "single input".into() },
        };
    }
    match check(p[0], p[1].parse().unwrap(), p[2].parse().unwrap()) {
        Some((got, want)) => Outcome { found: true, input: input.into(), observed: got, expected: want, evaluations: 1, bound: "single input".into() },
        None => Outcome { found: false, input: input.into(), observed: String::new(), expected: String::new(), evaluations: 1, bound: "single input".into() },
    }
}
