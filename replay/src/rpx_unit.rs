//! RPX (bounded stand-in for the callers of write_maybe_rpx_dimension and for the option plumbing, which are
//! outside the Kani slice): a grid of rpx values x ratios x contexts through the real transformer.
//! Oracle (property C10): the emitted number is value*100/ratio (computed in double precision) in `vw`, to within
//! the 6 significant digits cssparser prints, with its sign; zero keeps its sign; `px` values are not converted.
use crate::Outcome;
use glass_easel_stylesheet_compiler::{StyleSheetOptions, StyleSheetTransformer};

const VALUES: &[&str] = &["0", "-0", "0.0", "+0", "1", "75", "750", "-1.5", ".5", "0.001", "0.00000075", "3e10", "30000000000", "1e-3", "7.5e2"];
const RATIOS: &[f32] = &[750.0, 10.0, 1.0, 0.5, 0.00001, 1000000.0];
const CONTEXTS: &[(&str, &str)] = &[("a{width:", "}"), ("a{width:calc(1px + ", ")}"), ("@media (min-width:", "){a{}}"), ("a{--x:", "}"), ("a{margin:0 ", "}"), (":host{top:", "}")];
const BOUND: &str = "15 rpx values x 6 ratios x 6 contexts (declaration, calc, media query, custom property, second value, :host)";

fn transform(css: &str, ratio: f32) -> String {
    let t = StyleSheetTransformer::from_css("p.wxss", css, StyleSheetOptions { rpx_ratio: ratio, ..Default::default() });
    let mut s = String::new();
    t.output().write_str(&mut s).unwrap();
    s
}
fn check(value: &str, ratio: f32, ctx: usize) -> Option<(String, String)> {
    let (pre, post) = CONTEXTS[ctx];
    let css = format!("{}{}rpx{}", pre, value, post);
    let out = transform(&css, ratio);
    let exact = value.parse::<f64>().unwrap() * 100.0 / (ratio as f64);
    let want = format!("{} vw (value*100/ratio)", exact);
    if out.contains("rpx") {
        return Some((format!("{:?} -> {:?}: the rpx unit survives", css, out), want));
    }
    let Some(p) = out.find("vw") else { return Some((format!("{:?} -> {:?}: no vw", css, out), want)) };
    let head = &out[..p];
    let start = head.rfind(|c: char| !(c.is_ascii_digit() || c == '.' || c == '-' || c == '+' || c == 'e')).map_or(0, |i| i + 1);
    let num = &head[start..];
    let Ok(got) = num.trim_start_matches('+').parse::<f64>() else { return Some((format!("{:?} -> {:?}: cannot read number {:?}", css, out, num), want)) };
    if exact == 0.0 {
        if got != 0.0 || (value.starts_with('-') != num.starts_with('-')) { return Some((format!("{:?} -> {:?}", css, out), "a zero of the same sign".into())); }
        return None;
    }
    if exact.abs() > 3.0e38 || exact.abs() < 1.2e-38 { return None; }
    if ((got - exact) / exact).abs() > 2.0e-5 {
        return Some((format!("{:?} -> {:?} (read {})", css, out, got), want));
    }
    // other units are left alone
    let o2 = transform(&format!("{}{}px{}", pre, "12", post), ratio);
    if !o2.contains("12px") { return Some((format!("12px in the same context -> {:?}", o2), "12px unchanged".into())); }
    None
}
pub fn search() -> Outcome {
    let mut n = 0u64;
    for (ci, _) in CONTEXTS.iter().enumerate() {
        for r in RATIOS {
            for v in VALUES {
                n += 1;
                if let Some((got, want)) = check(v, *r, ci) {
                    return Outcome { found: true, input: format!("{}\t{}\t{}", v, r, ci), observed: got, expected: want, evaluations: n, bound: BOUND.into() };
                }
            }
        }
    }
    Outcome::none(n, BOUND)
}
pub fn run(input: &str) -> Outcome {
    let p: Vec<&str> = input.split('\t').collect();
    match check(p[0], p[1].parse().unwrap(), p[2].parse().unwrap()) {
        Some((got, want)) => Outcome { found: true, input: input.into(), observed: got, expected: want, evaluations: 1, bound: "single input".into() },
        None => Outcome { found: false, input: input.into(), observed: String::new(), expected: String::new(), evaluations: 1, bound: "single input".into() },
    }
}
