//! DIAG (bounded stand-in for property C15: "diagnostics: clean input is clean, broken input flagged, locations
//! valid").  Drives the REAL parser (`TmplGroup::add_tmpl`, cross-checked against `parse::parse` + `warnings()`)
//! over a deterministic enumeration (fixed-seed LCG, no other randomness; first failing input is the witness).
//!
//! WHAT IS ENUMERATED
//!  clean  : well-formed templates that follow the documented syntax (glass-easel/guide/zh_CN/basic/template.md,
//!           basic/event.md, interaction/{slot,template_import,generic}.md), rendered in 7 "gap styles" (0 compact;
//!           1..6 put blanks / `\n` / `\r\n` / tabs between the tokens of a tag and inside end tags, `/* */` comments
//!           with CJK / astral text between expression tokens, `<!-- -->` comments with CJK / astral text and line
//!           breaks between nodes), both quote styles, self-closing and paired spellings:
//!           E  every expression of a pool (identifiers, members, index, dec/hex/oct/float numbers, strings with
//!              escapes / CJK / astral, calls, unary, binary, ternary, object / array literals, spreads) x 12 binding
//!              contexts (attribute, unquoted, text, mixed, wx:if, wx:for, template data, slot, data-/mark:/bind:/
//!              model:, single-quoted, inside a wx:for scope);
//!           A  every attribute family (plain, class, style, id, slot, slot:, data- / data:, mark:, bind / catch /
//!              mut-bind / capture-* events, model:, change:, worklet:, generic:, extra-attr:, valueless, unquoted
//!              binding) x 8 value forms (static, binding, and 6 mixes) x styles;
//!           T  text forms (static / bindings / entities / CJK / astral / line breaks) x styles;
//!           S  directed structures: wx:if / elif / else (elements, blocks, self-closing, comments between the
//!              branches), wx:for (+item / index / key, nested, with wx:if), block, slot + slot: refs, template
//!              name / is / data, import / include / wxs (inline with markup-looking script text, and src), <slot>
//!              with name and values, comments containing markup, entities, nesting, top-level text, CRLF;
//!           D  the literal examples of the guide;
//!           R  LCG-random composites of depth <= 3 of all of the above.
//!  broken : for every clean template of E, A, T, S, R (they are built by a recording builder that knows where each
//!           tag, attribute and binding sits) EVERY applicable single defect injection of the table below, at every
//!           site.
//!  fuzz   : (clause 3 only) directed broken snippets `PROVOKE` that reach the `add_warning` sites the injections do not
//!           (meta tags, entities, escapes, numbers, brackets, misplaced attributes, bad scope names, stray end tags),
//!           each alone, behind an astral / CJK / CRLF prefix, inside an element and doubled; then over a base corpus
//!           (these snippets, the guide examples and a slice of S in compact and in astral / CRLF styles): every
//!           prefix, every single-character deletion, and the insertion of each of 36 fragments (markup punctuation,
//!           quotes, `{{` `}}`, entity starts, line breaks, CJK / astral characters alone and directly in front of
//!           punctuation) at every character position (bases over 60 characters: a rotating third of the fragments).
//!           30 of the 31 diagnostic kinds are produced and location-checked (`UnsupportedSyntax` is never emitted).
//!
//! ORACLES (from the property text)
//!  1 "clean is clean"   : a clean template produces no diagnostic at Warn level or above (Notes are allowed).
//!  2 "broken is flagged": a template with one injected defect produces at least one diagnostic of the expected
//!                         kind whose level is at least the expected level (table below).
//!  3 "locations valid"  : for EVERY input above, every diagnostic has start <= end, both ends on an existing line
//!                         (lines are separated by `\n`; a `\r` belongs to its line) at a UTF-16 column that is at most
//!                         the line's length and does not split a surrogate pair.
//!  Also: `add_tmpl` and `parse` + `warnings()` report the same list; a panic anywhere is reported as found.
//!
//! DEFECT INJECTIONS.  "Expected level" is the level of the kind in `ParseErrorKind::level` (parse/mod.rs) as of
//! 9e23dff, which is the only place levels are documented (together with the meaning of the levels in the doc
//! comments of `ParseErrorLevel`: Fatal "such as miss matched braces", Error "prevents a successful compilation",
//! Warn "should be a mistake").  The levels are HARD-CODED here, not read from the table, so that a lowered entry is a
//! finding.  The expected kind is the one the crate's own tests (parse/tag.rs `mod test`) pin for the snippet.
//!  id            injection                                                     expected kind(s)            level
//!  end-tag       delete the end tag of a paired element                        MissingEndTag               Warn
//!  tag-eof       cut the source inside a start tag (after the name, in the     IncompleteTag               Fatal
//!                middle of the last attribute, before `>` / `/>`)
//!  tag-mid       delete the `>` / `/>` of a start tag, more source follows     any (no kind is documented  Warn
//!                                                                              for this form)
//!  endtag-eof    cut the source before the `>` of the last end tag             IncompleteTag (since        Fatal
//!                                                                              9e23dff; formerly K1)
//!  binding-open  delete the `}}` of a binding                                  MissingExpressionEnd if no  Fatal
//!                                                                              `}}` follows, else any Fatal
//!                                                                              expression kind
//!  end-tag       (also) rename the end tag: a proper prefix of the name, the name  MissingEndTag               Warn
//!                plus a letter, another tag's name
//!  binding-inner append ` +` / ` ? 1` / ` (` / ` [` / ` .` / ` &&` / an unterminated  any kind                    Warn
//!                string (also cut by a line break, also as an operand) to a complete expression
//!  binding-junk  insert ` x` / ` )` / ` #` / ` ]` / ` <astral>` / U+3000 / U+A0 / U+2028 / U+85 before `}}` UnexpectedExpressionChar.   Fatal
//!  wx-directive  add `wx:foo="x"` / `wx:show="{{a}}"` / `wx:For` to a tag       InvalidAttributePrefix      Warn
//!  attr-prefix   add `foo:bar="x"` / `binds:tap="h"` / `a:b:c` / `Wx:if=..`     InvalidAttributePrefix      Warn
//!  dup-attr      repeat an attribute of the tag verbatim at the end of the     DuplicatedAttribute         Warn
//!                tag, and as `name="zz"` directly behind the original
//!  dup-module    the same for `module` of <wxs>                                InvalidAttribute (pinned by Warn
//!                                                                              a test) or Duplicated...
//!  dup-style     directed family `DUP_PREFIXED`: `style:a` / `class:a` twice    DuplicatedAttribute (since  Warn
//!                (same / other value, other attributes between, CRLF / astral) d928a7d; formerly K3)
//!  child         give <include> / <import> / <wxs src> / <template is> /       ChildNodesNotAllowed        Error
//!                <slot> a child (text, element, binding)
//!  no-src        delete `src` of <include> / <import>                          MissingSourcePath           Error
//!  no-module     delete `module` of <wxs>                                      MissingModuleName           Error
//!  no-is         delete `is` of <template is> / `name` of <template name>      MissingModuleName (pinned   Error
//!                                                                              by a test for `<template/>`)
//!  EXEMPT from dup-attr: event bindings (bind: / catch: / mut-bind: / capture-*:).  Several listeners on one event
//!  are intended: the crate's own unit test `event_listener` pins `<slot bind:a='f1' bind:a='f2'></slot>` as accepted
//!  without any diagnostic, so a repeated event binding is not a "duplicated attribute" defect (formerly K2).
//!  An injection is applied only where it really creates the defect: `end-tag` on an inline <wxs> only if no
//!  later `</wxs` exists (otherwise the rest is legitimately script text); `tag-mid` only if source follows.
//!
//! KNOWN FINDINGS: none open on 9e23dff (`KNOWN` is empty; the `DIAG_STRICT=<id>` switch stays for future entries).
//! Repaired and now asserted: K1 (end tag cut off by EOF, fix 9e23dff), K3 (`style:` duplicates, fix d928a7d).
//! Withdrawn: K2 (repeated event bindings are intended, see EXEMPT above).
//!
//! NARROWED, UNDECIDED BY THE DOCUMENTATION: a comment as the only content of a childless element
//! (`<slot><!-- c --></slot>`, likewise <template is>, <include>, <import>) is reported as `child nodes are not
//! allowed` [Error].  The guide does not say whether a comment counts as a child, so such templates are neither
//! enumerated as clean nor as broken (formerly K4).
//!
//! NOT COVERED: `class:` / `style:` multi forms beyond the directed duplicate family (accepted silently by the
//! parser but "TODO support" there and not in the guide); unterminated comments (`<!-- x` +
//! EOF gives no diagnostic; a comment is not a tag, so no clause applies); unquoted attribute values (`value=1` is
//! `should be quoted` [Warn], not documented syntax); `<` or `}}` inside static text / string literals; defects
//! combined with each other; `wx:if` / `wx:for` together with `slot:` refs, other attributes on <block>; the
//! guide example slot.md:106-108 (its `<block>` is closed by `</div>`: a typo in the guide); levels ABOVE the
//! expected one are accepted; `position_offset` other than 0:0.
use crate::Outcome;
use glass_easel_template_compiler::parse::{parse, ParseError, ParseErrorKind as K, Position};
use glass_easel_template_compiler::TmplGroup;
use std::ops::Range;

/// (id, input as accepted by `run`, description).  `DIAG_STRICT=<id> vxreplay DIAG run '<input>'` exits 1 with the
/// observation; without the variable the same input (and the whole search) is clean.
pub const KNOWN: &[(&str, &str, &str)] = &[];

const BOUND_HEAD: &str = "LCG-enumerated WXML: clean = 32 directed structures x 7 gap styles x <= 2 seeds, expression pool (77) x 12 binding contexts (style rotating) + x 7 styles (context rotating), 27 attribute kinds x 8 value forms x styles, 10 text forms x 19 statics x styles, 26 guide examples + 3 Note-level spellings + 4 class: / style: non-duplicates, 700 random composites of depth <= 3 (duplicates removed); broken = every applicable single defect injection (end-tag, tag-eof, tag-mid, endtag-eof, binding-open, binding-junk, binding-inner, wx-directive, attr-prefix, dup-attr, dup-module, dup-style (directed), child, no-src, no-module, no-is) at every site of every clean template, + 10 directed class: / style: duplicates; fuzz (locations only) = 98 directed broken snippets x 4 embeddings, then every prefix, single-character deletion and insertion of 36 fragments at every position (a rotating third of the fragments for bases over 60 characters) over the base corpus (snippets, guide examples, the structures in compact style and a third of them in each of 3 astral / CRLF styles)";

fn strict(id: &str) -> bool {
    static S: std::sync::OnceLock<String> = std::sync::OnceLock::new();
    let s = S.get_or_init(|| std::env::var("DIAG_STRICT").unwrap_or_default());
    s == "1" || s == "all" || s.split(',').any(|x| x == id)
}

// ------------------------------------------------------------------------------------------------------------
// levels and the defect table
// ------------------------------------------------------------------------------------------------------------
const WARN: u8 = 2;
const ERROR: u8 = 3;
const FATAL: u8 = 4;
fn level_of(e: &ParseError) -> u8 { e.level() as u8 }
fn level_name(l: u8) -> &'static str { match l { 1 => "Note", 2 => "Warn", 3 => "Error", 4 => "Fatal", _ => "?" } }

#[derive(Clone, Copy, PartialEq, Eq, Debug, Hash)]
enum Defect { EndTag, TagEof, TagMid, EndTagEof, BindingOpenLast, BindingOpen, BindingJunk, BindingInner, WxDirective, AttrPrefix, DupAttr, DupModule, DupStyle, Child, NoSrc, NoModule, NoIs }
const DEFECTS: &[Defect] = &[
    Defect::EndTag, Defect::TagEof, Defect::TagMid, Defect::EndTagEof, Defect::BindingOpenLast, Defect::BindingOpen, Defect::BindingJunk, Defect::BindingInner,
    Defect::WxDirective, Defect::AttrPrefix, Defect::DupAttr, Defect::DupModule, Defect::DupStyle, Defect::Child, Defect::NoSrc, Defect::NoModule, Defect::NoIs,
];
struct Spec { id: &'static str, kinds: &'static [K], level: u8, known: Option<&'static str> }
const FATAL_EXPR_KINDS: &[K] = &[K::MissingExpressionEnd, K::UnexpectedExpressionCharacter, K::UnmatchedBracket, K::UnmatchedParenthesis, K::IncompleteConditionExpression, K::InvalidIdentifier];
fn spec(d: Defect) -> Spec {
    let (id, kinds, level, known): (&'static str, &'static [K], u8, Option<&'static str>) = match d {
        Defect::EndTag => ("end-tag", &[K::MissingEndTag], WARN, None),
        Defect::TagEof => ("tag-eof", &[K::IncompleteTag], FATAL, None),
        Defect::TagMid => ("tag-mid", &[], WARN, None),
        Defect::EndTagEof => ("endtag-eof", &[K::IncompleteTag], FATAL, None),
        Defect::BindingOpenLast => ("binding-open-last", &[K::MissingExpressionEnd], FATAL, None),
        Defect::BindingOpen => ("binding-open", FATAL_EXPR_KINDS, FATAL, None),
        Defect::BindingJunk => ("binding-junk", &[K::UnexpectedExpressionCharacter], FATAL, None),
        Defect::BindingInner => ("binding-inner", &[], WARN, None),
        Defect::WxDirective => ("wx-directive", &[K::InvalidAttributePrefix], WARN, None),
        Defect::AttrPrefix => ("attr-prefix", &[K::InvalidAttributePrefix], WARN, None),
        Defect::DupAttr => ("dup-attr", &[K::DuplicatedAttribute], WARN, None),
        Defect::DupModule => ("dup-module", &[K::InvalidAttribute, K::DuplicatedAttribute], WARN, None),
        Defect::DupStyle => ("dup-style", &[K::DuplicatedAttribute], WARN, None),
        Defect::Child => ("child", &[K::ChildNodesNotAllowed], ERROR, None),
        Defect::NoSrc => ("no-src", &[K::MissingSourcePath], ERROR, None),
        Defect::NoModule => ("no-module", &[K::MissingModuleName], ERROR, None),
        Defect::NoIs => ("no-is", &[K::MissingModuleName], ERROR, None),
    };
    Spec { id, kinds, level, known }
}

#[derive(Clone, Copy, PartialEq, Eq, Debug, Hash)]
enum Mode { Clean, Broken(Defect), Fuzz }
fn mode_id(m: Mode) -> &'static str { match m { Mode::Clean => "clean", Mode::Fuzz => "fuzz", Mode::Broken(d) => spec(d).id } }
fn mode_of(id: &str) -> Option<Mode> {
    match id { "clean" => Some(Mode::Clean), "fuzz" => Some(Mode::Fuzz), _ => DEFECTS.iter().copied().find(|d| spec(*d).id == id).map(Mode::Broken) }
}

// ------------------------------------------------------------------------------------------------------------
// failure plumbing, input encoding
// ------------------------------------------------------------------------------------------------------------
pub struct Fail { observed: String, expected: String }
type R<T> = Result<T, Fail>;
fn fail<T>(observed: String, expected: String) -> R<T> { Err(Fail { observed, expected }) }
fn show(p: &Range<Position>) -> String { format!("{}:{}-{}:{}", p.start.line, p.start.utf16_col, p.end.line, p.end.utf16_col) }
fn show_all(d: &[ParseError]) -> String {
    if d.is_empty() { return "no diagnostics".into(); }
    let v: Vec<String> = d.iter().take(8).map(|e| format!("{} [{}] at {}", e.kind, level_name(level_of(e)), show(&e.location))).collect();
    format!("{}{}", v.join("; "), if d.len() > 8 { "; ..." } else { "" })
}

/// Command-line safe spelling of a template: printable ASCII except `\` and `'` verbatim, the rest escaped.
fn encode(s: &str) -> String {
    let mut o = String::new();
    for c in s.chars() {
        match c {
            '\n' => o.push_str("\\n"), '\r' => o.push_str("\\r"), '\t' => o.push_str("\\t"), '\\' => o.push_str("\\\\"),
            c if (' '..='~').contains(&c) && c != '\'' => o.push(c),
            c => o.push_str(&format!("\\u{{{:x}}}", c as u32)),
        }
    }
    o
}
fn decode(s: &str) -> String {
    let mut o = String::new();
    let mut it = s.chars().peekable();
    while let Some(c) = it.next() {
        if c != '\\' { o.push(c); continue; }
        match it.next() {
            Some('n') => o.push('\n'), Some('r') => o.push('\r'), Some('t') => o.push('\t'), Some('\\') => o.push('\\'),
            Some('u') => {
                let mut hex = String::new();
                if it.peek() == Some(&'{') { it.next(); }
                while let Some(&h) = it.peek() { it.next(); if h == '}' { break; } hex.push(h); }
                if let Some(ch) = u32::from_str_radix(&hex, 16).ok().and_then(char::from_u32) { o.push(ch); }
            }
            Some(x) => { o.push('\\'); o.push(x); }
            None => o.push('\\'),
        }
    }
    o
}
fn encode_input(m: Mode, src: &str) -> String { format!("{}:{}", mode_id(m), encode(src)) }
/// `<mode>:<template>`; an input without a known mode prefix is checked for locations only.
fn decode_input(input: &str) -> (Mode, String) {
    if let Some(p) = input.find(':') {
        if let Some(m) = mode_of(&input[..p]) { return (m, decode(&input[p + 1..])); }
    }
    (Mode::Fuzz, decode(input))
}

// ------------------------------------------------------------------------------------------------------------
// ORACLE 3: locations, written from the property text
// ------------------------------------------------------------------------------------------------------------
/// Per line (split at `\n`): its length in UTF-16 units and the columns that would split a surrogate pair.
struct Lines(Vec<(u32, Vec<u32>)>);
impl Lines {
    fn new(s: &str) -> Self {
        let mut v = vec![];
        for line in s.split('\n') {
            let (mut col, mut bad) = (0u32, vec![]);
            for ch in line.chars() {
                if ch.len_utf16() == 2 { bad.push(col + 1); }
                col += ch.len_utf16() as u32;
            }
            v.push((col, bad));
        }
        Lines(v)
    }
    fn position(&self, p: Position) -> Result<(), String> {
        let Some((len, bad)) = self.0.get(p.line as usize) else {
            return Err(format!("line {} does not exist (the source has {} lines)", p.line, self.0.len()));
        };
        if p.utf16_col > *len { return Err(format!("column {} is beyond the end of line {} (its length is {} UTF-16 units)", p.utf16_col, p.line, len)); }
        if bad.contains(&p.utf16_col) { return Err(format!("column {} of line {} splits a surrogate pair", p.utf16_col, p.line)); }
        Ok(())
    }
}
fn check_locations(src: &str, diags: &[ParseError]) -> R<()> {
    if diags.is_empty() { return Ok(()); }
    let lines = Lines::new(src);
    for e in diags {
        let want = "start <= end, both on an existing line at a valid UTF-16 column".to_string();
        if e.location.start > e.location.end {
            return fail(format!("diagnostic `{}` has location {}: it ends before it starts", e.kind, show(&e.location)), want);
        }
        for (what, p) in [("start", e.location.start), ("end", e.location.end)] {
            if let Err(why) = lines.position(p) {
                return fail(format!("diagnostic `{}` has location {}: its {} is not in the source: {}", e.kind, show(&e.location), what, why), want);
            }
        }
    }
    Ok(())
}

// ------------------------------------------------------------------------------------------------------------
// one input
// ------------------------------------------------------------------------------------------------------------
/// diagnostic kinds seen so far (by code), for the coverage figure in `bound`
static KINDS_SEEN: std::sync::Mutex<std::collections::BTreeMap<u32, String>> = std::sync::Mutex::new(std::collections::BTreeMap::new());
const ALL_KINDS: u32 = 31;

fn check(mode: Mode, src: &str) -> R<()> {
    let diags = TmplGroup::new().add_tmpl("TEST", src);
    if !diags.is_empty() {
        if let Ok(mut seen) = KINDS_SEEN.lock() {
            for e in &diags { seen.entry(e.code()).or_insert_with(|| e.kind.to_string()); }
        }
    }
    if mode != Mode::Fuzz {
        let (_t, ps) = parse("TEST", src);
        let direct: Vec<ParseError> = ps.warnings().cloned().collect();
        if direct != diags {
            return fail(format!("add_tmpl returned [{}], parse + warnings() gave [{}]", show_all(&diags), show_all(&direct)), "the same diagnostics from both entry points".into());
        }
    }
    check_locations(src, &diags)?;
    match mode {
        Mode::Fuzz => Ok(()),
        Mode::Clean => {
            match diags.iter().find(|e| level_of(e) >= WARN) {
                Some(e) => fail(
                    format!("well-formed template gets `{}` [{}] at {} (all: {})", e.kind, level_name(level_of(e)), show(&e.location), show_all(&diags)),
                    "no diagnostic at Warn level or above".into(),
                ),
                None => Ok(()),
            }
        }
        Mode::Broken(d) => {
            let sp = spec(d);
            if let Some(k) = sp.known { if !strict(k) { return Ok(()); } }
            let hit = diags.iter().any(|e| level_of(e) >= sp.level && (sp.kinds.is_empty() || sp.kinds.contains(&e.kind)));
            if hit { return Ok(()); }
            let kinds = if sp.kinds.is_empty() { "any kind".to_string() } else { sp.kinds.iter().map(|k| format!("`{}`", k)).collect::<Vec<_>>().join(" or ") };
            fail(format!("defect `{}` injected: {}", sp.id, show_all(&diags)), format!("at least one diagnostic of {} at level {} or above", kinds, level_name(sp.level)))
        }
    }
}

// ------------------------------------------------------------------------------------------------------------
// recording builder: a clean template plus the places where defects can be injected
// ------------------------------------------------------------------------------------------------------------
#[derive(Clone, Copy, PartialEq, Eq, Debug)]
enum EK { Normal, Block, TplDef, TplIs, Include, Import, WxsInline, WxsSrc, Slot }
#[derive(Clone, Debug)]
struct AttrSpan { start: usize, end: usize, name: String }
#[derive(Clone, Debug)]
struct El {
    kind: EK,
    tag: String,
    /// byte offset just after the tag name
    name_end: usize,
    attrs: Vec<AttrSpan>,
    /// bytes of `>` or `/>`
    close: (usize, usize),
    selfclose: bool,
    /// bytes of the whole end tag
    end: Option<(usize, usize)>,
}
#[derive(Clone, Debug)]
struct Bind { close: usize }
#[derive(Clone, Default)]
struct Tpl { s: String, els: Vec<El>, binds: Vec<Bind> }

struct Lcg(u64);
impl Lcg {
    fn new(seed: u64) -> Self { Lcg(seed.wrapping_mul(0x9E37_79B9_7F4A_7C15).wrapping_add(0x2545_F491_4F6C_DD1D)) }
    fn next(&mut self) -> u32 {
        self.0 = self.0.wrapping_mul(6364136223846793005).wrapping_add(1442695040888963407);
        (self.0 >> 33) as u32
    }
    fn below(&mut self, n: usize) -> usize { self.next() as usize % n }
}

const NSTYLE: u32 = 7;
/// whitespace between two attributes, per style 1..6
const TAG_WS: [&[&str]; 6] = [
    &[" ", "  ", "   "],
    &["\n", "\n  ", " \n", " "],
    &["\r\n", "\r\n\t", " ", "\r\n  "],
    &[" ", "\t", "\n\n  "],
    &[" ", "\n", " \r\n "],
    &[" ", "  ", "\n", "\r\n", "\t", "\n    ", " \r\n\t"],
];
/// optional gap between the tokens of an expression
const EXPR_GAP: [&[&str]; 6] = [
    &["", " ", "  "],
    &["", "\n", "\n  ", " "],
    &["", "\r\n", " \r\n "],
    &["", "/* \u{5B57} */", " /*\u{6CE8}\u{91CA}*/ ", " ", "/* a */ /* b */", "/*a*//*b*/"],
    &["", "/*\u{1F600}*/", "/* x\n\u{1F600} */", "/*\r\n\u{1F600}\u{1F680}*/ ", "\n"],
    &["", "", " ", "\n", "\r\n  ", "/*\u{5B57}*/", "/* a\n\u{1F600} */", "\t", " /*\u{1F600}\r\n\u{5B57}\u{1F600}*/", " /*a*/\n/*b*/ /*c*/ "],
];
/// optional gap between nodes
const NODE_GAP: [&[&str]; 6] = [
    &["", " ", "  "],
    &["", "\n", "\n  "],
    &["", "\r\n", "\r\n\t"],
    &["", "<!-- \u{5B57} -->", "\n<!--\u{6CE8}-->\n"],
    &["", "<!--\u{1F600}-->", "<!-- x\n\u{1F600}\u{1F600} -->", "<!--\r\n\u{1F600}-->"],
    &["", "", "\n", "\r\n  ", "<!--\u{5B57}-->", "<!-- a\n\u{1F600} -->", "  ", "\n<!--\u{1F600}\r\n\u{5B57}\u{1F680}-->"],
];

/// Expression pool, as token lists (gaps may go between any two tokens).  `@` is replaced by a visible scope
/// variable (or `a`).  Strings are single-quoted; they are re-quoted inside single-quoted attributes.
const EXPRS: &[&[&str]] = &[
    &["a"], &["abc"], &["$x_1"], &["@"], &["a", ".", "b"], &["@", ".", "b", ".", "c"], &["a", "[", "0", "]"],
    &["@", "[", "b", ".", "c", "]"], &["a", "[", "'k'", "]", ".", "b", "(", "c", ")"],
    &["0"], &["7"], &["42"], &["0x1F"], &["0xff"], &["017"], &["08"], &["1.5"], &[".5"], &["1e3"], &["2e-2"], &["1."],
    &["9223372036854775808"], &["0xfffffffffffffffff"],
    &["'s'"], &["'\u{5B57}'"], &["'\u{1F600}x'"], &["'a\\n\\t'"], &["'\\x41\\u5b57'"], &["'it\\'s'"], &["''"], &["'a b'", "+", "'\u{1F600}'"],
    &["f", "(", ")"], &["f", "(", "@", ",", "1", ")"], &["m", ".", "f", "(", "'x'", ")"],
    &["!", "a"], &["-", "@"], &["+", "1"], &["~", "a"], &["typeof ", "a"], &["void ", "0"], &["!", "!", "a"],
    &["a", "+", "b"], &["@", "-", "1"], &["a", "*", "b", "+", "c"], &["a", "/", "2"], &["a", "%", "2"],
    &["a", "<", "b"], &["a", "<=", "b"], &["a", ">", "b"], &["a", ">=", "b"], &["a", "===", "b"], &["a", "!==", "b"],
    &["a", "==", "b"], &["a", "!=", "b"], &["a", "&&", "b"], &["a", "||", "b"], &["a", "??", "b"], &["a", "&", "b"],
    &["a", "|", "b"], &["a", "^", "b"], &["a", "<<", "1"], &["a", ">>", "1"], &["a", ">>>", "1"], &["a", " instanceof ", "b"],
    &["@", "?", "b", ":", "c"], &["a", "?", "1", ":", "b", "?", "2", ":", "3"], &["(", "a", "+", "b", ")", "*", "c"],
    &["[", "]"], &["[", "a", ",", "1", ",", "'s'", "]"], &["[", "...", "a", ",", "b", "]"], &["[", ",", "a", "]"],
    &["{", "a", ":", "1", "}"], &["{", "a", ",", "b", ":", "c", ".", "d", "}"], &["{", "...", "a", ",", "b", "}"],
    &["true"], &["null"], &["undefined", "===", "false"],
];
/// `<template data>` bodies (object inner)
const DATA_EXPRS: &[&[&str]] = &[
    &["a"], &["a", ",", "b"], &["a", ":", "1", ",", "b", ":", "c", ".", "d"], &["...", "a"], &["...", "a", ",", "b", ":", "'s'"],
    &["k", ":", "@"],
];
/// static text usable in text nodes and (after quote escaping) in attribute values
const STATICS: &[&str] = &[
    "x", "hello world", "\u{5B57}", "\u{1F600}", " a\u{5B57}\u{1F600}b ", "a &amp; b", "&lt;p&gt;", "&#x5b57;&#65;bc", "l1\nl2",
    "l1\r\n  l2\u{1F600}", "tail.", ", ", "!", "  padded  ", "\u{1F680}\n\u{1F600} z", "a > b / c", "it's \"q\"", "{ x } y", "&nbsp;&copy;&quot;",
];

struct Gen { t: Tpl, rng: Lcg, style: u32, cur: usize, stack: Vec<usize> }
const NO: &[String] = &[];
impl Gen {
    fn new(style: u32, seed: u64) -> Self { Gen { t: Tpl::default(), rng: Lcg::new(seed * 16 + style as u64), style, cur: 0, stack: vec![] } }
    fn lit(&mut self, x: &str) { self.t.s.push_str(x); }
    fn pick(&mut self, table: &[&[&'static str]; 6]) -> &'static str {
        let t = table[(self.style - 1) as usize];
        t[self.rng.below(t.len())]
    }
    /// mandatory whitespace inside a tag
    fn sp(&mut self) { if self.style == 0 { self.lit(" ") } else { let x = self.pick(&TAG_WS); self.lit(x) } }
    /// optional whitespace inside a tag
    fn op(&mut self) { if self.style != 0 && self.rng.below(2) == 0 { let x = self.pick(&TAG_WS); self.lit(x) } }
    fn eg(&mut self) {
        if self.style == 0 { return; }
        let x = self.pick(&EXPR_GAP);
        // `*` or `/` directly followed by a comment would lex as `*/` or `//`
        if x.starts_with("/*") && (self.t.s.ends_with('*') || self.t.s.ends_with('/')) { self.lit(" "); }
        self.lit(x)
    }
    fn ng(&mut self) { if self.style != 0 { let x = self.pick(&NODE_GAP); self.lit(x) } }
    fn tok(&mut self, t: &str, q: char, scope: &[String]) {
        if t == "@" {
            let v = if scope.is_empty() { "a".to_string() } else { scope[self.rng.below(scope.len())].clone() };
            self.lit(&v);
        } else if t.starts_with('\'') && q == '\'' {
            let inner = t[1..t.len() - 1].replace("\\'", "\\x27");
            self.lit(&format!("\"{}\"", inner));
        } else { self.lit(t) }
    }
    /// `{{ e }}` with gaps; `q` is the quote of the enclosing attribute ('\0' in text)
    fn bind(&mut self, e: &[&str], q: char, scope: &[String]) {
        self.lit("{{");
        for t in e { self.eg(); self.tok(t, q, scope); }
        self.eg();
        self.t.binds.push(Bind { close: self.t.s.len() });
        self.lit("}}");
    }
    fn stat(&mut self, i: usize, q: char) {
        let s = STATICS[i % STATICS.len()];
        match q {
            '"' => { let x = s.replace('"', "&quot;"); self.lit(&x) }
            '\'' => { let x = s.replace('\'', "&apos;"); self.lit(&x) }
            _ => self.lit(s),
        }
    }
    /// value body: form 0 static, 1 binding, 2 s+b, 3 b+s, 4 s+b+s, 5 b+b, 6 s+b+s+b+s, 7 b+s+b
    fn val(&mut self, form: usize, e: &[&str], st: usize, q: char, scope: &[String]) {
        let e2: &[&str] = EXPRS[(st * 7 + 3) % EXPRS.len()];
        match form % 8 {
            0 => self.stat(st, q),
            1 => self.bind(e, q, scope),
            2 => { self.stat(st, q); self.bind(e, q, scope); }
            3 => { self.bind(e, q, scope); self.stat(st + 1, q); }
            4 => { self.stat(st, q); self.bind(e, q, scope); self.stat(st + 5, q); }
            5 => { self.bind(e, q, scope); self.bind(e2, q, scope); }
            6 => { self.stat(st, q); self.bind(e, q, scope); self.stat(st + 8, q); self.bind(e2, q, scope); self.stat(st + 10, q); }
            _ => { self.bind(e, q, scope); self.stat(st + 3, q); self.bind(e2, q, scope); }
        }
    }

    // ---- tags (recorded) ---------------------------------------------------------------------------------
    fn open(&mut self, tag: &str) {
        self.lit("<"); self.lit(tag);
        self.cur = self.t.els.len();
        self.t.els.push(El { kind: EK::Normal, tag: tag.to_string(), name_end: self.t.s.len(), attrs: vec![], close: (0, 0), selfclose: false, end: None });
    }
    /// one attribute: whitespace, then `f` writes `name`, `="value"`
    fn rec_attr(&mut self, name: &str, f: impl FnOnce(&mut Self)) {
        self.sp();
        let start = self.t.s.len();
        self.lit(name);
        f(self);
        let end = self.t.s.len();
        let cur = self.cur;
        self.t.els[cur].attrs.push(AttrSpan { start, end, name: name.to_string() });
    }
    fn attr(&mut self, name: &str, form: usize, e: &[&str], st: usize, q: char, scope: &[String]) {
        self.rec_attr(name, |g| { g.lit("="); g.lit(&q.to_string()); g.val(form, e, st, q, scope); g.lit(&q.to_string()); });
    }
    fn sattr(&mut self, name: &str, v: &str) { self.rec_attr(name, |g| { g.lit("=\""); g.lit(v); g.lit("\""); }); }
    fn battr(&mut self, name: &str, e: &[&str]) { self.rec_attr(name, |g| { g.lit("=\""); g.bind(e, '"', NO); g.lit("\""); }); }
    fn bare(&mut self, name: &str) { self.rec_attr(name, |_| {}); }
    fn finish_kind(&mut self) {
        let el = &mut self.t.els[self.cur];
        let has = |n: &str| el.attrs.iter().any(|a| a.name == n);
        el.kind = match el.tag.as_str() {
            "block" => EK::Block,
            "template" => if has("name") { EK::TplDef } else { EK::TplIs },
            "include" => EK::Include,
            "import" => EK::Import,
            "wxs" => if has("src") { EK::WxsSrc } else { EK::WxsInline },
            "slot" => EK::Slot,
            _ => EK::Normal,
        };
    }
    fn gt(&mut self) {
        self.op(); self.finish_kind();
        let p = self.t.s.len();
        self.lit(">");
        self.t.els[self.cur].close = (p, p + 1);
        self.stack.push(self.cur);
    }
    fn sc(&mut self) {
        self.op(); self.finish_kind();
        let p = self.t.s.len();
        self.lit("/>");
        let el = &mut self.t.els[self.cur];
        el.close = (p, p + 2); el.selfclose = true;
    }
    fn end(&mut self, tag: &str) {
        let i = self.stack.pop().expect("end without start");
        assert_eq!(self.t.els[i].tag, tag, "generator bug: mismatched end tag");
        let p = self.t.s.len();
        self.lit("</"); self.lit(tag); self.op(); self.lit(">");
        self.t.els[i].end = Some((p, self.t.s.len()));
    }
    /// `<tag>` children `</tag>` around `f`
    fn wrap(&mut self, tag: &str, f: impl FnOnce(&mut Self)) { self.open(tag); self.gt(); self.ng(); f(self); self.ng(); self.end(tag); }
    fn b(&mut self, e: &[&str]) { self.bind(e, '"', NO); }
}

// ------------------------------------------------------------------------------------------------------------
// clean families
// ------------------------------------------------------------------------------------------------------------
/// attribute families of a normal element that take a Value (any of the 8 value forms)
const VALUED: &[&str] = &[
    "title", "class", "style", "id", "slot", "data-foo-bar", "data:camelKey", "data-x", "mark:k", "model:value-x",
    "change:prop-y", "bind:tap", "catch:tap", "mut-bind:x", "capture-bind:tap", "capture-catch:tap",
    "capture-mut-bind:t", "bindtap", "hover-class",
];
/// attribute families with a static string / scope name
const STATIC_ATTRS: &[(&str, &str)] = &[
    ("worklet:on-scroll", "fn"), ("generic:sel", "comp-\u{5B57}"), ("extra-attr:x", "y &amp; z"), ("slot:item", "it"),
    ("slot:list-data", "ld"),
];
const N_ATTR_KINDS: usize = 19 + 5 + 3;
fn is_event_attr(name: &str) -> bool {
    ["bind:", "catch:", "mut-bind:", "capture-bind:", "capture-catch:", "capture-mut-bind:"].iter().any(|p| name.starts_with(p))
}
impl Gen {
    /// attribute kind k of a normal element; the value form applies where a Value is parsed
    fn attr_kind(&mut self, k: usize, form: usize, e: &[&str], st: usize, scope: &[String]) {
        let n = VALUED.len();
        if k < n { let q = if (form + k) % 5 == 4 { '\'' } else { '"' }; self.attr(VALUED[k], form, e, st, q, scope); }
        else if k < n + STATIC_ATTRS.len() { let (a, v) = STATIC_ATTRS[k - n]; self.sattr(a, v); }
        else if k == n + STATIC_ATTRS.len() { self.bare("hidden"); }                                   // no value
        else if k == n + STATIC_ATTRS.len() + 1 { self.bare("slot:bare"); }                            // slot value ref, no alias
        else { self.rec_attr("hidden", |g| { g.lit("="); g.bind(e, '\0', scope); }); }                  // unquoted binding
    }

    /// E: one expression in one binding context
    fn ctx(&mut self, c: usize, e: &[&str], st: usize) {
        match c {
            0 => { self.open("view"); self.attr("title", 1, e, st, '"', NO); self.sc(); }
            1 => { self.open("view"); self.rec_attr("hidden", |g| { g.lit("="); g.bind(e, '\0', NO); }); self.sc(); }
            2 => { self.open("view"); self.gt(); self.bind(e, '\0', NO); self.end("view"); }
            3 => { self.open("view"); self.attr("class", 4, e, st, '"', NO); self.sc(); }
            4 => { self.open("view"); self.gt(); self.val(6, e, st, '\0', NO); self.end("view"); }
            5 => { self.open("view"); self.attr("wx:if", 1, e, st, '"', NO); self.gt(); self.lit("x"); self.end("view"); }
            6 => { self.open("view"); self.attr("wx:for", 1, e, st, '"', NO); self.gt(); self.bind(&["item"], '\0', NO); self.end("view"); }
            7 => {
                self.open("template"); self.sattr("is", "t");
                self.rec_attr("data", |g| {
                    g.lit("=\"{{");
                    for t in ["k", ":"] { g.eg(); g.lit(t); }
                    for t in e { g.eg(); g.tok(t, '"', NO); }
                    g.eg(); g.t.binds.push(Bind { close: g.t.s.len() }); g.lit("}}\"");
                });
                self.sc();
            }
            8 => { self.open("slot"); self.attr("name", 1, e, st, '"', NO); self.attr("val-x", 2, e, st, '"', NO); self.sc(); }
            9 => {
                self.open("view"); self.attr("data-k", 1, e, st, '"', NO); self.attr("mark:m", 3, e, st, '"', NO);
                self.attr("bind:tap", 1, e, st, '"', NO); self.attr("model:v-w", 1, e, st, '"', NO); self.sc();
            }
            10 => { self.open("view"); self.attr("title", 1, e, st, '\'', NO); self.sc(); }
            _ => {
                let sc = vec!["a".to_string(), "b".to_string()];
                self.open("block"); self.battr("wx:for", &["list"]); self.sattr("wx:for-item", "a"); self.sattr("wx:for-index", "b"); self.gt();
                self.ng(); self.open("view"); self.attr("title", 1, e, st, '"', &sc); self.gt(); self.bind(e, '\0', &sc); self.end("view"); self.ng();
                self.end("block");
            }
        }
    }

    /// S: directed structures
    fn structure(&mut self, k: usize) {
        let t = '\0';
        match k {
            0 => {
                self.open("view"); self.battr("wx:if", &["a"]); self.gt(); self.lit("A"); self.end("view"); self.ng();
                self.open("view"); self.battr("wx:elif", &["b", ">", "1"]); self.gt(); self.lit("B\u{1F600}"); self.end("view"); self.ng();
                self.open("view"); self.bare("wx:else"); self.gt(); self.lit("C"); self.end("view");
            }
            1 => {
                self.open("block"); self.battr("wx:if", &["a", "&&", "b"]); self.gt(); self.ng();
                self.wrap("view", |g| g.lit("x")); self.bind(&["t"], t, NO); self.ng(); self.end("block"); self.ng();
                self.open("block"); self.bare("wx:else"); self.gt(); self.wrap("text", |g| g.lit("y\u{5B57}")); self.end("block");
            }
            2 => {
                self.open("view"); self.battr("wx:if", &["a"]); self.sc(); self.ng();
                self.open("view"); self.battr("wx:elif", &["b"]); self.sc(); self.ng();
                self.open("view"); self.bare("wx:else"); self.sc();
            }
            3 => { self.open("view"); self.battr("wx:for", &["list"]); self.gt(); self.bind(&["index"], t, NO); self.lit(": "); self.bind(&["item", ".", "name"], t, NO); self.end("view"); }
            4 => {
                self.open("view"); self.battr("wx:for", &["list"]); self.sattr("wx:for-item", "it"); self.sattr("wx:for-index", "idx"); self.sattr("wx:key", "id");
                self.gt(); self.bind(&["idx"], t, NO); self.lit("-"); self.bind(&["it", ".", "t"], t, NO); self.lit(" end"); self.end("view");
            }
            5 => {
                self.open("block"); self.battr("wx:for", &["rows"]); self.sattr("wx:for-index", "row"); self.gt();
                self.lit("\u{5B57}\u{1F680} "); self.bind(&["row"], t, NO); self.lit(" "); self.bind(&["item"], t, NO); self.end("block");
            }
            6 => {
                self.open("view"); self.sattr("wx:key", "*this"); self.sattr("wx:for-item", "el"); self.battr("wx:for", &["[", "1", ",", "2", "]"]); self.gt();
                self.bind(&["el", "+", "index"], t, NO); self.lit("\n\u{1F600}"); self.end("view");
            }
            7 => { self.open("view"); self.battr("wx:for", &["l"]); self.battr("wx:if", &["c", "[", "index", "]"]); self.gt(); self.bind(&["item"], t, NO); self.end("view"); }
            8 => {
                self.open("view"); self.battr("wx:for", &["a"]); self.sattr("wx:for-item", "x"); self.gt(); self.ng();
                self.open("view"); self.battr("wx:for", &["x", ".", "l"]); self.sattr("wx:for-item", "y"); self.sattr("wx:for-index", "j"); self.gt(); self.ng();
                self.open("text"); self.gt(); for v in ["x", "y", "j", "index"] { self.bind(&[v], t, NO); self.lit("\u{1F600}"); } self.end("text");
                self.ng(); self.end("view"); self.ng(); self.end("view");
            }
            9 => {
                self.open("comp"); self.bare("slot:item"); self.sattr("slot:list-data", "ld"); self.gt(); self.ng();
                self.open("view"); self.gt(); self.bind(&["item"], t, NO); self.lit(" "); self.bind(&["ld", "[", "0", "]"], t, NO); self.end("view"); self.ng(); self.end("comp");
            }
            10 => { self.open("block"); self.rec_attr("slot", |g| { g.lit("=\"s"); g.b(&["a"]); g.lit("\""); }); self.sattr("slot:v", "w"); self.gt(); self.bind(&["w"], t, NO); self.end("block"); }
            11 => {
                self.open("template"); self.sattr("name", "t\u{5B57}"); self.gt(); self.ng(); self.wrap("view", |g| g.bind(&["a"], '\0', NO)); self.ng(); self.end("template"); self.ng();
                self.open("template"); self.sattr("is", "t\u{5B57}"); self.battr("data", &["a", ",", "b", ":", "1"]); self.sc();
            }
            12 => { self.open("template"); self.battr("is", &["x", "?", "'a'", ":", "'b'"]); self.battr("data", &["...", "d"]); self.sc(); }
            13 => {
                self.open("import"); self.sattr("src", "./a.wxml"); self.sc(); self.ng(); self.open("include"); self.sattr("src", "b"); self.sc(); self.ng();
                self.open("wxs"); self.sattr("module", "m"); self.sattr("src", "./m.wxs"); self.sc(); self.ng();
                self.wrap("view", |g| g.bind(&["m", ".", "f", "(", "1", ")"], '\0', NO));
            }
            14 => {
                self.open("wxs"); self.sattr("module", "u"); self.gt(); self.lit("\nvar \u{5B57} = \"\u{1F600}\";\nmodule.exports = {}; /*\u{1F600}*/"); self.end("wxs");
                self.wrap("view", |g| g.bind(&["u", ".", "x"], '\0', NO));
            }
            15 => {
                self.open("slot"); self.sattr("name", "n"); self.battr("val-a", &["a"]); self.sattr("data-k", "v"); self.sattr("bind:tap", "h"); self.sc(); self.ng();
                self.open("slot"); self.gt(); self.end("slot");
            }
            16 => {
                self.open("view"); self.sattr("class", "c"); self.gt(); self.ng(); self.open("view"); self.sattr("id", "i"); self.gt(); self.ng();
                self.open("text"); self.gt(); self.val(4, &["b"], 0, t, NO); self.end("text"); self.lit("\u{5B57}");
                self.open("text"); self.gt(); self.lit("\u{1F600}"); self.bind(&["d"], t, NO); self.end("text"); self.ng(); self.end("view"); self.lit("tail"); self.end("view");
            }
            17 => {
                self.open("view"); self.gt(); self.lit("<!--c1-->x<!--\u{1F600}\n\u{1F600}-->"); self.open("text"); self.sc(); self.end("view"); self.ng();
                self.open("view"); self.battr("wx:if", &["a"]); self.sc(); self.lit("<!-- between\n\u{1F680} -->"); self.open("view"); self.bare("wx:else"); self.gt(); self.lit("e"); self.end("view");
            }
            18 => {
                self.open("view");
                for k in [0usize, 1, 2, 3, 5, 6, 8, 9, 10, 11, 12, 19, 20, 21, 25] { let e = EXPRS[(k * 5) % EXPRS.len()]; self.attr_kind(k, k, e, k, NO); }
                self.gt(); self.lit("t"); self.end("view");
            }
            19 => { self.open("view"); self.gt(); self.open("text"); self.gt(); self.lit("in"); self.end("text"); self.end("view"); }
            20 => { self.lit("top \u{1F600}\r\n"); self.bind(&["a"], t, NO); self.lit(" mid\r\n"); self.wrap("view", |g| g.lit("v")); self.lit("\r\nlast "); self.bind(&["z"], t, NO); self.lit(" end\u{5B57}"); }
            21 => {
                self.open("view"); self.battr("wx:for", &["l"]); self.gt(); self.ng(); self.open("include"); self.sattr("src", "../inc.wxml"); self.sc(); self.ng();
                self.open("template"); self.sattr("is", "row"); self.battr("data", &["...", "item", ",", "index"]); self.sc(); self.ng(); self.end("view");
            }
            22 => {
                self.open("wxs"); self.sattr("module", "m"); self.sattr("src", "m"); self.sc(); self.ng();
                self.open("view"); self.battr("wx:for", &["m", ".", "list", "(", "n", ")"]); self.gt(); self.ng();
                self.open("comp"); self.sattr("slot:sv", "sv"); self.battr("title", &["m", ".", "f", "(", "item", ",", "index", ")"]); self.gt();
                self.bind(&["sv", "+", "item", "+", "m", ".", "k"], t, NO); self.end("comp"); self.ng(); self.end("view");
            }
            23 => {
                self.open("template"); self.sattr("name", "rows"); self.gt(); self.ng();
                self.open("block"); self.battr("wx:for", &["rows"]); self.sattr("wx:for-item", "r"); self.gt(); self.ng();
                self.open("view"); self.battr("wx:if", &["r", ".", "a"]); self.gt(); self.val(3, &["r", ".", "a"], 1, t, NO); self.end("view"); self.ng();
                self.open("view"); self.bare("wx:else"); self.gt(); self.val(6, &["index"], 2, t, NO); self.end("view"); self.ng();
                self.end("block"); self.ng(); self.end("template");
            }
            // inline script whose text looks like markup, bindings and end tags of other elements
            24 => {
                self.wrap("view", |g| g.lit("before"));
                self.open("wxs"); self.sattr("module", "w"); self.gt();
                self.lit("\nvar lt = 1 < 2 && 3 > 2; var s = \"</view><text>{{ x \" + '</wxsx>';\r\nmodule.exports = { s: s } // \u{1F600} <!--\n"); self.end("wxs"); self.ng();
                self.wrap("view", |g| g.bind(&["w", ".", "s"], '\0', NO));
            }
            // comments that contain markup and braces
            25 => {
                self.lit("<!-- <view wx:if=\"{{\"> </block> {{ a -->"); self.ng();
                self.wrap("view", |g| { g.lit("<!---->"); g.lit("t"); g.lit("<!-- - -- > \u{1F600} -->"); });
            }
            // childless elements in their paired spelling, with conditions / loops on them
            26 => {
                self.open("include"); self.battr("wx:if", &["a"]); self.sattr("src", "./x"); self.gt(); self.end("include"); self.ng();
                self.open("template"); self.battr("wx:for", &["l"]); self.sattr("is", "row"); self.battr("data", &["item"]); self.gt(); self.lit(" \n"); self.end("template"); self.ng();
                self.open("import"); self.sattr("src", "/abs/p"); self.gt(); self.end("import"); self.ng();
                self.open("wxs"); self.sattr("src", "../s.wxs"); self.sattr("module", "s_1"); self.gt(); self.lit("  "); self.end("wxs"); self.ng();
                self.open("slot"); self.battr("name", &["n"]); self.gt(); self.lit("\n"); self.end("slot");
            }
            // attribute values with the other quote, `>` and `/`; entities in values
            27 => {
                self.open("view"); self.rec_attr("title", |g| g.lit("=\"it's > a/b\"")); self.rec_attr("data-q", |g| g.lit("='say \"hi\" &amp; &lt;go&gt;'"));
                self.rec_attr("bind:tap", |g| { g.lit("='"); g.bind(&["h", "(", "'x'", ")"], '\'', NO); g.lit("'"); });
                self.gt(); self.lit("a &gt; b &amp;&amp; c &lt; d &#x1F600; &#128512;"); self.end("view");
            }
            // if / elif / elif / else on blocks and elements, comments between every branch
            28 => {
                self.open("block"); self.battr("wx:if", &["a", "===", "1"]); self.gt(); self.lit("one"); self.end("block"); self.lit("<!-- 1 -->"); self.ng();
                self.open("view"); self.battr("wx:elif", &["a", "===", "2"]); self.sattr("class", "two"); self.gt(); self.lit("two"); self.end("view"); self.lit("\n<!-- 2 \u{1F600} -->\n");
                self.open("block"); self.battr("wx:elif", &["a", "<", "b"]); self.gt(); self.wrap("text", |g| g.lit("three")); self.end("block"); self.ng();
                self.open("my-comp"); self.bare("wx:else"); self.battr("prop", &["{", "k", ":", "1", "}"]); self.sc();
            }
            // deep nesting with a custom component, generic and events
            29 => {
                self.open("list-view"); self.sattr("generic:item", "row-item"); self.sattr("bind:select", "onSelect"); self.battr("capture-catch:tap", &["h"]);
                self.battr("model:value", &["v"]); self.battr("change:value", &["w", ".", "f"]); self.sattr("worklet:on-move", "mv"); self.gt(); self.ng();
                self.open("view"); self.sattr("slot", "head"); self.sattr("mark:i", "1"); self.gt(); self.ng();
                self.open("text"); self.battr("data:k", &["a"]); self.gt(); self.lit("deep \u{5B57}"); self.end("text"); self.ng(); self.end("view"); self.ng();
                self.end("list-view");
            }
            // only text
            30 => { self.lit("just text \u{1F600} &amp; "); self.bind(&["a", "?", "'y'", ":", "'n'"], t, NO); self.lit("\n"); }
            _ => {
                self.open("view"); self.battr("wx:for", &["list"]); self.sattr("wx:key", "k"); self.gt(); self.ng();
                self.open("slot"); self.battr("item", &["item"]); self.battr("list-index", &["index"]); self.sc(); self.ng(); self.end("view");
            }
        }
    }
}
const N_STRUCT: usize = 32;

/// D: the examples of the guide, verbatim (glass-easel/guide/zh_CN).  The example slot.md:106-108 is left out
/// (its `<block>` is closed by `</div>`).
const GUIDE: &[&str] = &[
    "\n    <div>{{ a }} + {{ b }} = {{ a + b }}</div>\n  ",
    "<div wx:if=\"{{ a > b }}\"> a \u{5927}\u{4E8E} b </div>\n<div wx:elif=\"{{ a < b }}\"> a \u{5C0F}\u{4E8E} b </div>\n<div wx:elif=\"{{ a === b }}\"> a \u{7B49}\u{4E8E} b </div>\n",
    "<block wx:if=\"{{ a > b }}\">\n  <span>a</span>\n  <span>\u{5927}\u{4E8E}</span>\n  <span>b</span>\n</block>\n",
    "<div wx:for=\"{{ arr }}\">\u{6570}\u{7EC4}\u{7684}\u{7B2C} {{ index }} \u{9879}\u{662F} {{ item }}</div>\n",
    "<block wx:for=\"{{ arr }}\">\n  <div>\u{6570}\u{7EC4}\u{7684}\u{7B2C} {{ index }} \u{9879}\u{662F} {{ item }}</div>\n</block>\n",
    "<block wx:for=\"{{ arr }}\" wx:for-index=\"i\" wx:for-item=\"t\">\n  <div>\u{6570}\u{7EC4}\u{7684}\u{7B2C} {{ i }} \u{9879}\u{662F} {{ t }}</div>\n</block>\n",
    "<block wx:for=\"{{ arr }}\" wx:key=\"id\">\n  <div>\u{59D3}\u{540D}\u{FF1A}{{ item.name }}</div>\n</block>\n",
    "<div wx:if=\"{{ a > b }}\"> a &gt; b </div>\n<div wx:elif=\"{{ a < b }}\"> a &lt; b </div>\n",
    "<template name=\"shared-template-slice\">\n  <div> {{ a }} + {{ b }} = {{ c }} </div>\n</template>\n",
    "<template is=\"shared-template-slice\" data=\"{{ a: 1, b: 2 }}\"></template>\n",
    "\n  <import src=\"../shared\" />\n\n  <template is=\"shared-template-slice\" data=\"{{ a: 1, b: 2 }}\" />\n",
    "\n  <div>\n    <include src=\"../shared\" />\n  </div>\n",
    "<wxs module=\"helloModule\" src=\"/path/to/script\" />\n<div> {{ helloModule.hello() }} </div>\n",
    "\n    <div>\n      <slot />\n    </div>\n  ",
    "\n    <div>\n      <child>\n        <div class=\"a\" />\n      </child>\n    </div>\n  ",
    "\n    <div>\n      <slot name=\"body\" />\n    </div>\n    <slot name=\"footer\" />\n  ",
    "\n    <div>\n      <child>\n        <div slot=\"body\"> \u{8FD9}\u{6BB5}\u{5185}\u{5BB9} name=\"body\" \u{7684} slot \u{4E2D} </div>\n        <div slot=\"footer\"> footer </div>\n      </child>\n    </div>\n  ",
    "\n    <block wx:for=\"{{ list }}\">\n      <slot />\n    </block>\n  ",
    "\n    <div>\n      <child>\n        <div class=\"a\" slot:item>{{ item }}</div>\n      </child>\n    </div>\n  ",
    "<child>\n  <div class=\"a\" slot:listIndex=\"index\">{{ index }}</div>\n  <block slot:item>{{ item }}</block>\n</child>\n",
    "\n    <child catch:customEvent=\"childEvent\" />\n  ",
    "<div bind:customEvent=\"childEvent2\">\n  <child bind:customEvent=\"childEvent1\" />\n</div>\n",
    "<div capture-bind:customEvent=\"childEvent2\">\n  <child capture-catch:customEvent=\"childEvent1\" />\n</div>\n",
    "<block wx:for=\"{{ list }}\">\n  <child mark:listIndex=\"{{ index }}\" bind:customEvent=\"childEvent\" />\n</block>\n",
    "<block wx:for=\"{{ list }}\">\n  <div mark:listIndex=\"{{ index }}\">\n    <child bind:customEvent=\"childEvent\" />\n  </div>\n</block>\n",
    "\n    <child generic:item=\"impl\" />\n  ",
];
/// N: well-formed spellings the parser comments on with a Note (blanks around `=`, upper-case letters): still clean
const NOTED: &[&str] = &[
    "\r\n<view\r\n  class = \"a\"\r\n  hidden\r\n>\r\n  \u{1F600} {{ a }}\r\n</view\r\n>\r\n",
    "<View dataSet=\"x\" data-Ab=\"1\"></View>",
    "<view title= \"t\" id =\"i\">\u{5B57}</view>",
];

/// R: LCG-random composite templates
impl Gen {
    fn rexpr(&mut self) -> &'static [&'static str] { EXPRS[self.rng.below(EXPRS.len())] }
    fn rtext(&mut self, sc: &[String]) {
        let form = self.rng.below(8); let st = self.rng.below(STATICS.len()); let e = self.rexpr();
        self.val(form, e, st, '\0', sc);
    }
    fn rattrs(&mut self, sc: &[String], allow_slot_refs: bool) -> Vec<String> {
        let n = self.rng.below(4);
        let mut used: Vec<usize> = vec![];
        let mut introduced = vec![];
        for _ in 0..n {
            let k = self.rng.below(N_ATTR_KINDS);
            // one attribute per name; the three data spellings and the two `hidden` forms exclude each other
            let class = match k { 5 | 6 | 7 => 5, 24 | 26 => 24, x => x };
            if used.contains(&class) { continue; }
            if !allow_slot_refs && (k == 22 || k == 23 || k == 25) { continue; }
            used.push(class);
            let (form, st, e) = (self.rng.below(8), self.rng.below(STATICS.len()), self.rexpr());
            self.attr_kind(k, form, e, st, sc);
            if k == 22 { introduced.push("it".to_string()); }
            if k == 23 { introduced.push("ld".to_string()); }
            if k == 25 { introduced.push("bare".to_string()); }
        }
        introduced
    }
    fn rchildren(&mut self, depth: u32, sc: &mut Vec<String>) {
        self.ng();
        for _ in 0..self.rng.below(3) + (depth == 3) as usize { self.rnode(depth, sc); self.ng(); }
    }
    fn rnode(&mut self, depth: u32, sc: &mut Vec<String>) {
        const TAGS: [&str; 4] = ["view", "text", "my-comp", "x_1"];
        let k = if depth == 0 { self.rng.below(3) } else { self.rng.below(13) };
        let keep = sc.len();
        match k {
            0 | 1 => self.rtext(sc),
            2 => { let t = TAGS[self.rng.below(4)]; self.open(t); self.rattrs(sc, true); self.sc(); }
            3 | 4 | 5 => {
                let t = TAGS[self.rng.below(4)];
                self.open(t); let intro = self.rattrs(sc, true); self.gt();
                sc.extend(intro); self.rchildren(depth - 1, sc); self.end(t);
            }
            6 => {
                let n = 1 + self.rng.below(3);
                for i in 0..n {
                    let t = if self.rng.below(2) == 0 { "block" } else { "view" };
                    self.open(t);
                    if i == 0 { let e = self.rexpr(); self.attr("wx:if", 1, e, 0, '"', sc); }
                    else if i + 1 == n && self.rng.below(2) == 0 { self.bare("wx:else"); }
                    else { let e = self.rexpr(); self.attr("wx:elif", 1, e, 0, '"', sc); }
                    if t == "view" { self.rattrs(sc, false); }
                    if self.rng.below(4) == 0 { self.sc(); } else { self.gt(); self.rchildren(depth - 1, sc); self.end(t); }
                    if i + 1 < n { self.ng(); }
                }
            }
            7 | 8 => {
                let t = if self.rng.below(2) == 0 { "block" } else { "view" };
                self.open(t);
                let (item, index) = (["item", "it", "a"][self.rng.below(3)], ["index", "idx", "b"][self.rng.below(3)]);
                let mut parts: Vec<usize> = vec![0];
                if item != "item" { parts.push(1); }
                if index != "index" { parts.push(2); }
                if self.rng.below(2) == 0 { parts.push(3); }
                // attributes of the loop in a rotated order
                let rot = self.rng.below(parts.len());
                parts.rotate_left(rot);
                for p in parts {
                    match p {
                        0 => { let e = self.rexpr(); self.attr("wx:for", 1, e, 0, '"', sc); }
                        1 => self.sattr("wx:for-item", item),
                        2 => self.sattr("wx:for-index", index),
                        _ => { let i = self.rng.below(3); self.sattr("wx:key", ["id", "*this", "k\u{5B57}"][i]) }
                    }
                }
                if t == "view" { self.rattrs(sc, false); }
                self.gt(); sc.push(item.to_string()); sc.push(index.to_string());
                self.rchildren(depth - 1, sc); self.end(t);
            }
            9 => {
                self.open("template");
                if self.rng.below(2) == 0 { self.sattr("is", "t-\u{5B57}"); } else { let e = self.rexpr(); self.attr("is", 1, e, 0, '"', sc); }
                if self.rng.below(2) == 0 {
                    let d = DATA_EXPRS[self.rng.below(DATA_EXPRS.len())];
                    self.rec_attr("data", |g| {
                        g.lit("=\"{{"); for t in d { g.eg(); g.tok(t, '"', sc); } g.eg();
                        g.t.binds.push(Bind { close: g.t.s.len() }); g.lit("}}\"");
                    });
                }
                if self.rng.below(3) == 0 { self.gt(); self.end("template"); } else { self.sc(); }
            }
            10 => {
                let i = self.rng.below(3); self.open("include"); self.sattr("src", ["inc", "./i.wxml", "../\u{5B57}/i"][i]);
                if self.rng.below(3) == 0 { self.gt(); self.end("include"); } else { self.sc(); }
            }
            11 => {
                self.open("slot");
                if self.rng.below(2) == 0 { let (f, st, e) = (self.rng.below(8), self.rng.below(9), self.rexpr()); self.attr("name", f, e, st, '"', sc); }
                if self.rng.below(2) == 0 { let e = self.rexpr(); self.attr("val-x", 1, e, 0, '"', sc); }
                if self.rng.below(3) == 0 { self.sc(); } else { self.gt(); self.end("slot"); }
            }
            _ => {
                self.open("block"); let (f, st, e) = (self.rng.below(8), self.rng.below(9), self.rexpr()); self.attr("slot", f, e, st, '"', sc);
                if self.rng.below(2) == 0 { self.sattr("slot:v-w", "vw"); sc.push("vw".into()); }
                self.gt(); self.rchildren(depth - 1, sc); self.end("block");
            }
        }
        sc.truncate(keep);
    }
    fn rtemplate(&mut self) {
        let mut sc: Vec<String> = vec![];
        self.ng();
        if self.rng.below(4) == 0 { self.open("import"); self.sattr("src", "./a\u{5B57}.wxml"); self.sc(); self.ng(); }
        if self.rng.below(4) == 0 {
            self.open("wxs"); self.sattr("module", "m");
            if self.rng.below(2) == 0 { self.sattr("src", "./m.wxs"); self.sc(); }
            else { let i = self.rng.below(3); self.gt(); self.lit(["var x = 1;", "\n// \u{5B57}\nvar s = \"\u{1F600}\"; /*\u{1F600}*/", "module.exports = {\r\n f: 1 < 2 }\r\n"][i]); self.end("wxs"); }
            self.ng(); sc.push("m".into());
        }
        if self.rng.below(5) == 0 {
            self.open("template"); self.sattr("name", "t-\u{5B57}"); self.gt();
            let mut inner = sc.clone(); self.rchildren(2, &mut inner); self.end("template"); self.ng();
        }
        for _ in 0..1 + self.rng.below(3) { self.rnode(3, &mut sc); self.ng(); }
    }
}

const N_RANDOM: u64 = 700;
/// Every clean template built by the recording builder, in a fixed order (simple and compact ones first).
fn enumerate_built(mut f: impl FnMut(&Tpl) -> bool) {
    const LEAD: [&str; 3] = ["", "\u{1F600}\u{5B57} ", "<!--\u{1F600}-->\n"];
    // S, compact style, no lead: the smallest witnesses
    for k in 0..N_STRUCT {
        let mut g = Gen::new(0, 3000 + k as u64 * 3);
        g.structure(k);
        if f(&g.t) { return; }
    }
    // E: every expression in every context, the style rotating; every expression in every style, the context rotating
    for (i, e) in EXPRS.iter().enumerate() {
        for c in 0..12usize {
            let mut g = Gen::new(((i * 5 + c) % NSTYLE as usize) as u32, (i * 12 + c) as u64);
            g.lit(LEAD[(i + c) % 3]); g.ng(); g.ctx(c, e, i + c); g.ng();
            if f(&g.t) { return; }
        }
    }
    for (i, e) in EXPRS.iter().enumerate() {
        for style in 0..NSTYLE {
            let c = (i + style as usize * 5) % 12;
            let mut g = Gen::new(style, 500 + (i * 12 + c) as u64);
            g.ng(); g.ctx(c, e, i); g.ng();
            if f(&g.t) { return; }
        }
    }
    // A
    for style in 0..NSTYLE {
        for k in 0..N_ATTR_KINDS {
            for form in 0..8usize {
                if style > 1 && (k + form + style as usize) % 3 != 0 { continue; }
                let mut g = Gen::new(style, 1000 + (k * 8 + form) as u64);
                let e = EXPRS[(k * 11 + form * 3) % EXPRS.len()];
                g.lit(LEAD[(k + form) % 3]); g.open("view"); g.attr_kind(k, form, e, k + form, NO); g.gt(); g.lit("t"); g.end("view"); g.ng();
                if f(&g.t) { return; }
            }
        }
    }
    // T
    for style in 0..NSTYLE {
        for form in 0..10usize {
            for st in 0..STATICS.len() {
                if style > 0 && (form + st + style as usize) % 3 != 0 { continue; }
                let mut g = Gen::new(style, 2000 + (form * 32 + st) as u64);
                let e = EXPRS[(form * 13 + st * 5) % EXPRS.len()];
                if form < 8 { g.open("view"); g.gt(); g.val(form, e, st, '\0', NO); g.end("view"); }
                else if form == 8 { g.val(6, e, st, '\0', NO); }                      // top-level text
                else { g.wrap("view", |g| { g.val(4, e, st, '\0', NO); g.open("text"); g.sc(); g.val(3, e, st + 4, '\0', NO); }); }
                if f(&g.t) { return; }
            }
        }
    }
    // S
    for style in 0..NSTYLE {
        for k in 0..N_STRUCT {
            for seed in 0..2u64 {
                if style == 0 && seed > 0 { continue; }
                let mut g = Gen::new(style, 3000 + k as u64 * 3 + seed);
                g.lit(LEAD[(k + seed as usize) % 3]); g.ng(); g.structure(k); g.ng();
                if f(&g.t) { return; }
            }
        }
    }
    // R
    for n in 0..N_RANDOM {
        let mut g = Gen::new((n % NSTYLE as u64) as u32, 10_000 + n);
        g.rtemplate();
        if f(&g.t) { return; }
    }
}

// ------------------------------------------------------------------------------------------------------------
// defect injections
// ------------------------------------------------------------------------------------------------------------
fn splice(s: &str, at: Range<usize>, with: &str) -> String { format!("{}{}{}", &s[..at.start], with, &s[at.end..]) }
fn floor_boundary(s: &str, mut i: usize) -> usize { while !s.is_char_boundary(i) { i -= 1; } i }

/// Every applicable single defect injection of `t`.
fn injections(t: &Tpl, mut f: impl FnMut(Defect, String) -> bool) {
    let s = t.s.as_str();
    macro_rules! emit { ($d:expr, $x:expr) => { if f($d, $x) { return; } }; }
    for (ei, el) in t.els.iter().enumerate() {
        // end-tag
        if let Some((a, b)) = el.end {
            if !(el.kind == EK::WxsInline && s[b..].contains("</wxs")) {
                emit!(Defect::EndTag, splice(s, a..b, ""));
            }
            // the end tag carries another name -- a proper prefix of the element's name, an extension of it, another tag's:
            // the element is left without its end tag
            let n = el.tag.len();
            if el.kind != EK::WxsInline && s[a..].starts_with("</") && s.get(a + 2..a + 2 + n).map_or(false, |x| x.eq_ignore_ascii_case(&el.tag)) {
                if n >= 2 && el.tag.is_char_boundary(n - 1) { emit!(Defect::EndTag, splice(s, a + 2..a + 2 + n, &el.tag[..n - 1])); }
                emit!(Defect::EndTag, splice(s, a + 2..a + 2 + n, &format!("{}x", el.tag)));
                if ei % 3 == 0 { emit!(Defect::EndTag, splice(s, a + 2..a + 2 + n, if el.tag == "i" { "b" } else { "i" })); }
            }
        }
        // tag-eof: after the name, in the middle of the last attribute, before the close
        emit!(Defect::TagEof, s[..el.name_end].to_string());
        if let Some(a) = el.attrs.last() { emit!(Defect::TagEof, s[..floor_boundary(s, (a.start + a.end + 1) / 2)].to_string()); }
        emit!(Defect::TagEof, s[..el.close.0].to_string());
        // tag-mid
        // (if the text up to the next `<` contains a `>`, that one ends the tag and the result is well-formed again)
        let rest = &s[el.close.1..];
        let upto = &rest[..rest.find('<').unwrap_or(rest.len())];
        if !rest.trim().is_empty() && !upto.contains('>') { emit!(Defect::TagMid, splice(s, el.close.0..el.close.1, "")); }
        // unknown wx: directive / unknown prefix: as the last and as the first attribute
        const WX: [&str; 3] = ["wx:foo=\"x\"", "wx:show=\"{{a}}\"", "wx:For"];
        const PFX: [&str; 4] = ["foo:bar=\"x\"", "binds:tap=\"h\"", "a:b:c", "Wx:if=\"{{a}}\""];
        let w = WX[ei % WX.len()];
        let p = PFX[ei % PFX.len()];
        emit!(Defect::WxDirective, splice(s, el.close.0..el.close.0, &format!(" {}", w)));
        emit!(Defect::WxDirective, splice(s, el.name_end..el.name_end, &format!(" {}", WX[(ei + 1) % WX.len()])));
        emit!(Defect::AttrPrefix, splice(s, el.close.0..el.close.0, &format!(" {}", p)));
        emit!(Defect::AttrPrefix, splice(s, el.name_end..el.name_end, &format!("\n{}", PFX[(ei + 1) % PFX.len()])));
        // duplicated attribute: verbatim, at the end of the tag
        for a in &el.attrs {
            // (several listeners on one event are intended: event bindings are exempt, see the module doc)
            if is_event_attr(&a.name) { continue; }
            let d = if a.name == "module" && matches!(el.kind, EK::WxsInline | EK::WxsSrc) { Defect::DupModule }
                else { Defect::DupAttr };
            emit!(d, splice(s, el.close.0..el.close.0, &format!(" {}", &s[a.start..a.end])));
            // ... and with another value, directly behind the original
            emit!(d, splice(s, a.end..a.end, &format!("\n{}=\"zz\"", a.name)));
        }
        // children under a childless element
        if matches!(el.kind, EK::TplIs | EK::Include | EK::Import | EK::WxsSrc | EK::Slot) {
            const CHILDREN: [&str; 4] = ["x", "<view/>", "{{a}}", "\u{1F600}\n<text>t</text>"];
            for (ci, c) in CHILDREN.iter().enumerate() {
                if ci != ei % 4 && ci != (ei + 1) % 4 { continue; }
                let x = match el.end {
                    Some((a, _)) => splice(s, el.close.1..a, c),
                    None => splice(s, el.close.0..el.close.1, &format!(">{}</{}>", c, el.tag)),
                };
                emit!(Defect::Child, x);
            }
        }
        // missing src / module / is
        let del = |name: &str| el.attrs.iter().find(|a| a.name == name).map(|a| splice(s, a.start..a.end, ""));
        match el.kind {
            EK::Include | EK::Import => {
                if let Some(x) = del("src") { emit!(Defect::NoSrc, x); }
                // the attribute is there but names no file: still a missing source path
                if let Some(a) = el.attrs.iter().find(|a| a.name == "src") {
                    for empty in ["src=\"\"", "src=''", "src"] { emit!(Defect::NoSrc, splice(s, a.start..a.end, empty)); }
                }
            }
            EK::WxsInline | EK::WxsSrc => if let Some(x) = del("module") { emit!(Defect::NoModule, x); },
            EK::TplIs => if let Some(x) = del("is") { emit!(Defect::NoIs, x); },
            EK::TplDef => if let Some(x) = del("name") { emit!(Defect::NoIs, x); },
            _ => {}
        }
    }
    // endtag-eof: the source ends with an end tag
    if let Some(el) = t.els.iter().find(|el| el.end.map_or(false, |(_, b)| s[b..].trim().is_empty())) {
        let (_, b) = el.end.unwrap();
        emit!(Defect::EndTagEof, s[..b - 1].to_string());
    }
    for (bi, b) in t.binds.iter().enumerate() {
        // binding-open
        let later = s[b.close + 2..].contains("}}");
        emit!(if later { Defect::BindingOpen } else { Defect::BindingOpenLast }, splice(s, b.close..b.close + 2, ""));
        // binding-junk
        // (the last four: characters Unicode calls white space but the template syntax does not)
        const JUNK: [&str; 9] = [" x", " )", " #", " ]", " \u{1F600}", "\u{3000}", " \u{a0} ", "\u{2028}", " \u{85}"];
        emit!(Defect::BindingJunk, splice(s, b.close..b.close, JUNK[bi % 9]));
        emit!(Defect::BindingJunk, splice(s, b.close..b.close, JUNK[(bi + 2) % 9]));
        emit!(Defect::BindingJunk, splice(s, b.close..b.close, JUNK[(bi + 5) % 9]));
        // binding-inner: the complete expression is continued by something that cannot end an expression -- a dangling
        // operator, an unfinished ternary, an unclosed bracket, a member access without a name, an unterminated string
        // (also one cut by a line break).  Whatever follows, the binding is broken: a diagnostic at Warn or above is due.
        const INNER: [&str; 12] = [" +", " ? 1", " (", " [", " .", " 'abc", " 'abc\n", " \"q\n ", " &&", " + 'abc\n", " || \"q\r\n", " + 'abc"];
        for k in 0..5 { emit!(Defect::BindingInner, splice(s, b.close..b.close, INNER[(bi * 5 + k) % 12])); }
    }
}

/// Directed family for the `class:` / `style:` prefixes (not in the guide, so not part of the clean generator):
/// the same prefixed name twice is a duplicated attribute ...
const DUP_PREFIXED: &[&str] = &[
    "<div style:a=\"1\" style:a=\"2\"/>", "<div class:a=\"1\" class:a=\"2\"/>", "<div style:a=\"1\" style:a=\"1\"></div>", "<div class:a class:a/>",
    "<div style:a=\"{{x}}\" class:a=\"{{y}}\" style:a=\"{{z}}\"/>", "<div class:b-c=\"1\" style:b-c=\"2\" title=\"t\" class:b-c=\"3\">x</div>",
    "\u{1F600}\u{5B57}\r\n<view\r\n  style:\u{61}=\"\u{1F600}\"\r\n  style:a='{{ \"\u{1F600}\" }}'\r\n/>", "<view><text style:w=\"1\" id=\"i\" style:w=\"2\">t</text></view>",
    "<div style:a=\"1\" style:b=\"2\" style:a=\"3\"/>", "<div class:a=\"1\" class:b=\"2\" class:b=\"3\"/>",
];
/// ... while the same name under the two different prefixes, or different names under one prefix, is not
const NOT_DUP_PREFIXED: &[&str] = &[
    "<div class:a=\"1\" style:a=\"2\"/>", "<div style:a=\"1\" class:a=\"2\"/>", "<div style:a=\"1\" style:b=\"2\" class:a=\"3\" class:b=\"4\"/>",
    "<div class=\"c\" style=\"s\" class:a=\"{{x}}\" style:a=\"{{y}}\">t</div>",
];

// ------------------------------------------------------------------------------------------------------------
// fuzz family
// ------------------------------------------------------------------------------------------------------------
const FRAGS: &[&str] = &[
    "<", ">", "/", "\"", "'", "{{", "}}", "{", "}", "&", "&#x", "&#", "=", ":", "</", "/>", "<!--", "-->", "\n", "\r\n", "\u{1F600}", "\u{5B57}",
    " ", "\\", "(", "]", "?", "</wxs>", "<a ", "wx:", "\u{1F600}<", "\u{1F600}{{", "\u{1F600}\"", "\u{1F600}\n</", "&\u{1F600};", "/*",
];
/// Directed broken snippets: together they reach every `add_warning` site of the parser that the injections above
/// do not (meta tags, entities, escapes, numbers, brackets, misplaced attributes, bad scope names, stray end tags ...).
/// Checked for clause 3 as they are, behind an astral / CJK / CRLF prefix, inside an element, and as fuzz bases.
const PROVOKE: &[&str] = &[
    "{{ '\\ud800' }}", "{{ '\\xZ1' }}", "{{ '\\u12G4' }}", "{{ \"\u{1F600}\\x4\" }}", "{{ 'abc }}", "{{ 'a\\",
    "&#xG;", "&#x ", "&#A;", "&# ", "&#xFFFFFFFF;", "&#99999999999;", "&bogus;", "&#x", "&#1",
    "<!META a=\"b\">", "<!meta", "<!x \u{1F600}>", "<!-- open \u{1F600}",
    "<a:div/>", "<a:b:div></a:b:div>", "<div/ ></div>", "<div a:b:c=\"d\"/>", "<div #\u{1F600}@ a/>", "<div a= b/>", "<div a=b/>", "<div a=/>", "<div a=\"b\"a=\"c\"/>", "<div a =\n\"b\"/>",
    "<div></>", "<div></span>", "</div>", "<div></div x \u{1F600}>", "<Div></DIV>", "<div></ div>",
    "<template name=\"a\" is=\"b\" data=\"{{c}}\"/>", "<template is=\"a\" data=\"x\"/>", "<template is=\"a\" data=\"{{b}} c\"/>", "<template is=\"a\" data=\"{{b c}}\"/>", "<template is data/>",
    "<wxs module=\"1a\"/>", "<wxs module=\"m\"/><wxs module=\"m\"/>", "<template name=\"t\"/><template name=\"t\"/>", "<wxs module={{a}}/>", "<wxs module=\"m\" wx:if=\"{{a}}\"/>",
    "<block wx:for=\"{{a}}\" wx:for-item=\"1\" wx:for-index=\"\u{1F600}\"/>", "<div wx:for-item=\"a\" wx:for-index=\"b\" wx:key=\"c\"/>", "<div wx:elif=\"{{a}}\"/>", "<div wx:else/>",
    "<div wx:if=\"{{a}}\" wx:elif=\"{{b}}\" wx:else/>", "<div wx:for=\"{{a}}\" wx:elif=\"{{b}}\" wx:else/>", "<div wx:key=\"{{a}}\" wx:for=\"{{b}}\"/>", "<div wx:key={{a}} />", "<div wx:else=\"x\"/>", "<div wx:if/>",
    "<block class=\"a\" id=\"b\" bind:tap=\"c\" mark:a=\"b\" data:a=\"b\" data-c=\"d\" model:a=\"{{b}}\" change:a=\"b\" worklet:a=\"b\" generic:a=\"b\" extra-attr:a=\"b\" style=\"s\" class:a style:b hidden/>",
    "<slot class=\"a\" style=\"b\" model:a=\"b\" change:a=\"b\" worklet:a=\"b\" generic:a=\"b\" extra-attr:a=\"b\" class:a style:b/>", "<include src=\"a\" slot=\"b\" slot:c id=\"d\"/>", "<div wx:if=\"{{a}}\" slot:b/>",
    "<template name=\"n\" wx:if=\"{{a}}\" wx:for=\"{{b}}\" wx:elif=\"{{c}}\" wx:else/>", "<div class:a class:a style:a style:a/>", "<div worklet:a={{b}} generic:a=\"{{b}}\"/>", "<div slot:a=\"1\u{1F600}\"/>",
    "{{ a ? b }}", "{{ a[b }}", "{{ f(a }}", "{{ (a }}", "{{ a. }}", "{{ {a:1,a:2} }}", "{{ {a b} }}", "{{ [a b] }}", "{{ 0x }}", "{{ 0xfg }}", "{{ 09a }}", "{{ 017a }}", "{{ 1e }}", "{{ 1e5x }}", "{{ 1.2.3 }}", "{{ 1a }}",
    "{{ ...a }}", "{{ {...a b} }}", "{{ [...a b] }}", "{{ {.a} }}", "{{ [.a] }}", "{{ {a:b c} }}", "{{ a..b }}", "{{ # }}", "{{}}", "{{ /* \u{1F600} */ }}", "{{ a } }", "{{ {a }}", "{{ [a }}", "{{ a ? b : }}", "{{ a[b) }}", "{{ f(a] }}",
    "<div data-Ab=\"1\" Cd=\"2\"/>", "<div a=\"{{ b\" c=\"{{ d }}\"/>", "<div a='{{ \"\u{1F600} }}'/>",
];
fn fuzz_corpus() -> Vec<String> {
    let mut v: Vec<String> = PROVOKE.iter().chain(GUIDE.iter()).chain(NOTED.iter()).map(|s| s.to_string()).collect();
    for style in [0u32, 4, 5, 6] {
        for k in 0..N_STRUCT {
            if style != 0 && k % 3 != (style as usize) % 3 { continue; }
            let mut g = Gen::new(style, 3000 + k as u64 * 3);
            g.structure(k);
            v.push(g.t.s);
        }
    }
    v.push("<view a=\"\u{1F600}{{ b ? '\u{1F600}' : \"\u{5B57}\" }}\u{1F600}\"\r\n>\u{1F600}&amp;\u{1F600}{{\u{5B57}}}</view>\r\n\u{1F600}".into());
    v
}
fn fuzz(base: &str, mut f: impl FnMut(String) -> bool) {
    let idx: Vec<usize> = base.char_indices().map(|(i, _)| i).chain(std::iter::once(base.len())).collect();
    for w in idx.windows(2) {
        if f(base[..w[0]].to_string()) { return; }                                      // prefix
        if f(format!("{}{}", &base[..w[0]], &base[w[1]..])) { return; }                 // deletion
    }
    // (long bases: a third of the fragments at each position, rotating)
    let thin = idx.len() > 60;
    for (n, &i) in idx.iter().enumerate() {
        for (fi, fr) in FRAGS.iter().enumerate() {
            if thin && (fi + n) % 3 != 0 { continue; }
            if f(format!("{}{}{}", &base[..i], fr, &base[i..])) { return; }
        }
    }
}

// ------------------------------------------------------------------------------------------------------------
// search / run
// ------------------------------------------------------------------------------------------------------------
fn guarded(mode: Mode, src: &str) -> Option<Fail> {
    let owned = src.to_string();
    match std::panic::catch_unwind(move || check(mode, &owned)) {
        Ok(Ok(())) => None,
        Ok(Err(fl)) => Some(fl),
        Err(_) => Some(Fail { observed: "panic".into(), expected: "no panic".into() }),
    }
}

pub fn search() -> Outcome {
    std::panic::set_hook(Box::new(|_| {}));
    let dump = std::env::var("DIAG_DUMP").unwrap_or_default();
    let mut seen = std::collections::HashSet::new();
    let (mut n_clean, mut n_broken, mut n_fuzz) = (0u64, 0u64, 0u64);
    let mut per_defect = std::collections::BTreeMap::<&'static str, u64>::new();
    let mut found: Option<(Mode, String, Fail)> = None;
    {
        let mut one = |mode: Mode, src: &str, found: &mut Option<(Mode, String, Fail)>| -> bool {
            if !seen.insert((mode, src.to_string())) { return false; }
            match mode {
                Mode::Clean => n_clean += 1,
                Mode::Fuzz => n_fuzz += 1,
                Mode::Broken(d) => { n_broken += 1; *per_defect.entry(spec(d).id).or_insert(0) += 1; }
            }
            if !dump.is_empty() && (dump == "all" || dump == mode_id(mode)) { eprintln!("{}", encode_input(mode, src)); }
            if let Some(fl) = guarded(mode, src) { *found = Some((mode, src.to_string(), fl)); return true; }
            false
        };
        // clean literals, then built templates each followed by its injections
        for s in GUIDE.iter().chain(NOTED.iter()).chain(NOT_DUP_PREFIXED.iter()) { if one(Mode::Clean, s, &mut found) { break; } }
        if found.is_none() { for s in DUP_PREFIXED { if one(Mode::Broken(Defect::DupStyle), s, &mut found) { break; } } }
        if found.is_none() {
            enumerate_built(|t| {
                if one(Mode::Clean, &t.s, &mut found) { return true; }
                let mut stop = false;
                injections(t, |d, x| { stop = one(Mode::Broken(d), &x, &mut found); stop });
                stop
            });
        }
        if found.is_none() {
            'p: for p in PROVOKE {
                for x in [p.to_string(), format!("\u{1F600}\u{5B57}\r\n\u{1F600}{}", p), format!("<view>\n\u{1F600}{}\u{1F600}\r\n</view>", p), format!("{}\n{}\u{5B57}", p, p)] {
                    if one(Mode::Fuzz, &x, &mut found) { break 'p; }
                }
            }
        }
        if found.is_none() {
            'outer: for base in fuzz_corpus() {
                let mut stop = false;
                fuzz(&base, |x| { stop = one(Mode::Fuzz, &x, &mut found); stop });
                if stop { break 'outer; }
            }
        }
    }
    let total = n_clean + n_broken + n_fuzz;
    let counts: Vec<String> = per_defect.iter().map(|(k, v)| format!("{} {}", k, v)).collect();
    let n_kinds = KINDS_SEEN.lock().map(|k| k.len()).unwrap_or(0);
    if std::env::var("DIAG_KINDS").is_ok() { if let Ok(k) = KINDS_SEEN.lock() { for (c, n) in k.iter() { eprintln!("{:#x} {}", c, n); } } }
    let bound = format!("{}; evaluated: {} clean, {} broken ({}), {} fuzz; {} of the {} diagnostic kinds were produced and location-checked", BOUND_HEAD, n_clean, n_broken, counts.join(", "), n_fuzz, n_kinds, ALL_KINDS);
    match found {
        Some((mode, src, fl)) => Outcome { found: true, input: encode_input(mode, &src), observed: fl.observed, expected: fl.expected, evaluations: total, bound },
        None => Outcome::none(total, &bound),
    }
}

pub fn run(input: &str) -> Outcome {
    std::panic::set_hook(Box::new(|_| {}));
    let (mode, src) = decode_input(input);
    let one = |found: bool, observed: String, expected: String| Outcome { found, input: input.into(), observed, expected, evaluations: 1, bound: "single input".into() };
    match guarded(mode, &src) {
        None => {
            let note = match mode {
                Mode::Broken(d) => match spec(d).known { Some(k) if !strict(k) => format!("clause 2 is not asserted for `{}` (known finding {}; set DIAG_STRICT={})", spec(d).id, k, k), _ => String::new() },
                _ => String::new(),
            };
            one(false, note, String::new())
        }
        Some(fl) => one(true, fl.observed, fl.expected),
    }
}
