//! GROUPDET (bounded stand-in for C20: determinism across insertion orders / runs is a hyperproperty no
//! single-run contract decides): groups of 3 and 4 small files (templates with several data fields, imports,
//! slot values, an inline script, an external script), every insertion order, and importing one group into
//! another; every emitter's output must be byte-identical to the output for the first order, and compiling the
//! same order again (fresh maps, fresh hash seeds within the process) must give the same bytes.
use crate::Outcome;
use glass_easel_template_compiler::TmplGroup;

const FILES: &[(&str, &str, bool)] = &[
    ("a", "<view a=\"{{x}}\" b=\"{{y}}\" c=\"{{z}}\">{{w}}-{{v}}</view><template name=\"t\"><div>{{q}}</div></template>", false),
    ("b", "<import src=\"a\"/><template is=\"t\" data=\"{{ {q: m} }}\"/><view>{{n}}{{o}}{{p}}</view>", false),
    ("c", "<comp><view slot:s1 slot:s2 slot:s3 slot:s4>{{s1}}{{s2}}{{s3}}{{s4}}</view></comp><view>{{k}}{{l}}</view>", false),
    ("d", "<wxs module=\"m\">exports.f = function(){ return 1 }</wxs><view>{{ m.f() }}{{h}}{{i}}{{j}}</view>", false),
    ("e.wxs", "exports.g = 1;", true),
    ("lib/u.wxs", "exports.g = 2;", true),
    ("z.wxs", "exports.g = require('./e.wxs').g + 1;", true),
    // a script path that is not in normal form: a different input than "e.wxs", whatever the group makes of it
    ("./e.wxs", "exports.g = 3;", true),
    // many distinct references of every kind from one file: their emission order must be the source order
    ("f", "<import src=\"a\"/><import src=\"b\"/><import src=\"c\"/><import src=\"d\"/><import src=\"x/y\"/><import src=\"z\"/><wxs module=\"m1\" src=\"e.wxs\"/><wxs module=\"m2\" src=\"lib/u.wxs\"/><wxs module=\"m3\">exports.h = 2</wxs><include src=\"a\"/><include src=\"c\"/><template name=\"t1\">1</template><template name=\"t2\">2</template><template name=\"t3\">3</template><template is=\"t\"/><view bind:tap=\"h1\" catch:tap=\"h2\" data-a=\"{{r}}\" data-b=\"{{s}}\" mark:a=\"{{t}}\" mark:b=\"{{u}}\" class=\"{{ca}} {{cb}}\">{{m1.g}}{{m2.g}}{{m3.h}}</view><comp generic:ga=\"x\" generic:gb=\"y\" generic:gc=\"z\" generic:gd=\"w\" generic:ge=\"v\" extra-attr:ea=\"1\" extra-attr:eb=\"2\" extra-attr:ec=\"3\" worklet:wa=\"p\" worklet:wb=\"q\" worklet:wc=\"r\" change:pa=\"{{m1.g}}\" change:pb=\"{{m2.g}}\" change:pc=\"{{m3.h}}\" model:ma=\"{{r}}\" model:mb=\"{{s}}\"/>", false),
];
const BOUND: &str = "9 files (4 of them script files, one under a path that is not in normal form) (one with 6 imports, 3 script modules, 2 includes, 3 sub-templates, several attributes of every kind); in normal and dev mode; every subset of 3 and 4 files in every insertion order, compiled twice; plus split-and-import_group of each subset";

fn emit(files: &[usize], import_split: Option<usize>) -> String {
    // both modes: the dev-mode extras (attribute-name lists, source locations for the runtime) are part of the output too
    format!("{}\n==dev==\n{}", emit_mode(files, import_split, false), emit_mode(files, import_split, true))
}
fn emit_mode(files: &[usize], import_split: Option<usize>, dev: bool) -> String {
    let mut g = if dev { TmplGroup::new_dev() } else { TmplGroup::new() };
    let add = |g: &mut TmplGroup, i: usize| {
        let (p, c, script) = FILES[i];
        if script { g.add_script(p, c); } else { g.add_tmpl(p, c); }
    };
    match import_split {
        None => for i in files { add(&mut g, *i); },
        Some(k) => {
            let mut g2 = if dev { TmplGroup::new_dev() } else { TmplGroup::new() };
            for i in &files[..k] { add(&mut g, *i); }
            for i in &files[k..] { add(&mut g2, *i); }
            g.import_group(&g2);
        }
    }
    let mut out = String::new();
    out.push_str(&g.get_runtime_string());
    out.push_str("\n--groups--\n");
    out.push_str(&g.get_tmpl_gen_object_groups().unwrap_or_default());
    out.push_str("\n--wx--\n");
    out.push_str(&g.get_wx_gen_object_groups().unwrap_or_default());
    out.push_str("\n--scripts--\n");
    out.push_str(&g.export_all_scripts().unwrap_or_default());
    for i in files {
        if !FILES[*i].2 {
            out.push_str("\n--tmpl--\n");
            out.push_str(&g.get_tmpl_gen_object(FILES[*i].0).unwrap_or_default());
        }
    }
    out
}
fn perms(v: &[usize]) -> Vec<Vec<usize>> {
    if v.len() <= 1 { return vec![v.to_vec()]; }
    let mut out = vec![];
    for i in 0..v.len() {
        let mut rest = v.to_vec();
        let x = rest.remove(i);
        for mut p in perms(&rest) { p.insert(0, x); out.push(p); }
    }
    out
}
fn norm1(s: &str) -> String {
    // per-template sections are emitted in the order asked: compare them as a sorted multiset
    let mut parts: Vec<&str> = s.split("\n--tmpl--\n").collect();
    let head = parts.remove(0).to_string();
    parts.sort();
    format!("{}\n{}", head, parts.join("\n"))
}
fn norm(s: &str, files: &[usize]) -> String {
    let _ = files;
    // the normal-mode and the dev-mode outputs, each normalised on its own
    s.split("\n==dev==\n").map(norm1).collect::<Vec<_>>().join("\n==dev==\n")
}
fn first_diff(a: &str, b: &str) -> String {
    let i = a.bytes().zip(b.bytes()).position(|(x, y)| x != y).unwrap_or(a.len().min(b.len()));
    let lo = i.saturating_sub(30);
    format!("first difference at byte {}: {:?} vs {:?}", i, a.get(lo..(i + 30).min(a.len())).unwrap_or(""), b.get(lo..(i + 30).min(b.len())).unwrap_or(""))
}
pub fn search() -> Outcome {
    let mut n = 0u64;
    let all: Vec<usize> = (0..FILES.len()).collect();
    let mut subsets: Vec<Vec<usize>> = vec![];
    for mask in 0u32..(1 << all.len()) {
        let s: Vec<usize> = all.iter().cloned().filter(|i| mask & (1 << i) != 0).collect();
        if s.len() == 3 || s.len() == 4 { subsets.push(s); }
    }
    for s in subsets {
        let reference = norm(&emit(&s, None), &s);
        for p in perms(&s) {
            for rep in 0..2 {
                n += 1;
                let got = norm(&emit(&p, None), &p);
                if got != reference {
                    return Outcome { found: true, input: format!("{:?}\t{:?}\t{}", s, p, rep), observed: first_diff(&got, &reference), expected: "byte-identical output for every insertion order and run".into(), evaluations: n, bound: BOUND.into() };
                }
            }
            for k in 1..p.len() {
                n += 1;
                let got = norm(&emit(&p, Some(k)), &p);
                if got != reference {
                    return Outcome { found: true, input: format!("{:?}\t{:?}\timport@{}", s, p, k), observed: first_diff(&got, &reference), expected: "importing a group is equivalent to adding its files".into(), evaluations: n, bound: BOUND.into() };
                }
            }
        }
    }
    Outcome::none(n, BOUND)
}
pub fn run(input: &str) -> Outcome {
    let parts: Vec<&str> = input.split('\t').collect();
    let parse = |s: &str| -> Vec<usize> { s.trim_matches(|c| c == '[' || c == ']').split(',').filter(|x| !x.trim().is_empty()).map(|x| x.trim().parse().unwrap()).collect() };
    let s = parse(parts[0]);
    let p = parse(parts[1]);
    let split = parts[2].strip_prefix("import@").map(|k| k.parse().unwrap());
    let reference = norm(&emit(&s, None), &s);
    let got = norm(&emit(&p, split), &p);
    Outcome { found: got != reference, input: input.into(), observed: if got != reference { first_diff(&got, &reference) } else { String::new() }, expected: "byte-identical output".into(), evaluations: 1, bound: "single input".into() }
}
