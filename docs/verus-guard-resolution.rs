// Minimal reproduction of the Verus 0.2026.09.13 imprecision worked around by `vx_noop` (vx/prelude/common.rs).
// `verus verus-guard-resolution.rs`: f fails ("postcondition not satisfied" at `return Some(1)`), g verifies.
use vstd::prelude::*;
verus! {
pub struct PS { pub i: usize, pub n: usize }
impl PS {
    #[verifier::external_body]
    pub fn next(&mut self) -> (r: Option<char>) ensures final(self).n == old(self).n, { unimplemented!() }
    #[verifier::external_body]
    pub fn peek(&mut self) -> (r: Option<char>) ensures *final(self) == *old(self), { unimplemented!() }
}
fn vx_noop<T>(x: &mut T) ensures *final(x) == *old(x) {}
fn f(ps: &mut PS) -> (r: Option<usize>) ensures final(ps).n == old(ps).n,
{
    match ps.peek() {
        Some(x) if x == 'a' => { ps.next(); return None; }
        _ => { return Some(1); }
    }
}
fn g(ps: &mut PS) -> (r: Option<usize>) ensures final(ps).n == old(ps).n,
{
    match ps.peek() {
        Some(x) if x == 'a' => { ps.next(); return None; }
        _ => { vx_noop(ps); return Some(1); }
    }
}
}
fn main() {}
