"""Witness search / replay against the REAL crates (not the deciding step; DESIGN 3.5).

The crate /verif/replay depends on the two /repo crates by path and is rebuilt (offline, with
`--cfg glass_easel_verif`) from /repo's working tree before every use."""
import json
import os
import subprocess

VERIF = os.path.dirname(os.path.dirname(os.path.abspath(__file__)))
CRATE = os.path.join(VERIF, "replay")
BIN = os.path.join(VERIF, ".cache", "target", "debug", "vxreplay")
_built = {"ok": None, "log": ""}


def build():
    if _built["ok"] is not None:
        return _built["ok"]
    env = dict(os.environ, CARGO_NET_OFFLINE="true")
    try:
        p = subprocess.run(["cargo", "build", "--offline"], cwd=CRATE, env=env, capture_output=True, text=True, timeout=900)
        _built["ok"] = p.returncode == 0
        _built["log"] = p.stderr[-2000:]
    except Exception as e:  # noqa
        _built["ok"] = False
        _built["log"] = str(e)
    return _built["ok"]


def generator_of(unit):
    """the witness generator serving a unit: unit.json may name another one ("witness_unit")"""
    uj = os.path.join(VERIF, "units", unit, "unit.json")
    g = unit
    if os.path.exists(uj):
        g = json.load(open(uj)).get("witness_unit", unit)
    return g if os.path.exists(os.path.join(CRATE, "src", g.lower() + "_unit.rs")) else None


def has_generator(unit):
    return generator_of(unit) is not None


def _run(args, timeout=120, env=None):
    try:
        e = dict(os.environ)
        if env:
            e.update(env)
        p = subprocess.run([BIN] + args, capture_output=True, text=True, timeout=timeout, env=e)
    except subprocess.TimeoutExpired:
        return {"found": True, "input": " ".join(args), "observed": "no result within %ds (hang)" % timeout, "expected": "termination", "evaluations": 0, "bound": "timeout"}
    out = p.stdout.strip().split("\n")[-1] if p.stdout.strip() else ""
    try:
        d = json.loads(out)
    except Exception:
        if p.returncode not in (0, 1, 2):
            # the real code panicked / aborted inside the harness
            return {"found": True, "input": " ".join(args), "observed": "process died rc=%d: %s" % (p.returncode, p.stderr[-400:]), "expected": "normal return", "evaluations": 0, "bound": "n/a"}
        return None
    return d


def search_witness(prop, unit, fnpath, failure):
    """returns {"found": bool, ...} or None when the unit has no witness generator"""
    if not has_generator(unit):
        return None
    if not build():
        return {"found": False, "error": "replay crate did not build: " + _built["log"][-500:]}
    return run_generator(generator_of(unit))


_cache = {}


def run_generator(gen):
    """run one bounded generator of the replay crate (memoised per process)"""
    if gen in _cache:
        return _cache[gen]
    if not build():
        r = {"found": False, "error": "replay crate did not build: " + _built["log"][-500:]}
    else:
        r = _run([gen, "search"], timeout=1800) or {"found": False, "error": "generator produced no result"}
        r["kind"] = "bounded search on the real crate (not the deciding step)"
        r["replay_args"] = [gen, "run", r.get("input", "")]
    _cache[gen] = r
    return r


def run_known(gen, inp, env=None):
    """replay one recorded known-finding input on the real crate (with the generator's strict switches, if any)"""
    if not build():
        return {"found": False, "error": "replay crate did not build: " + _built["log"][-500:]}
    return _run([gen, "run", inp], env=env) or {"found": False, "error": "generator produced no result"}


def replay_file(path):
    doc = json.load(open(path))
    print("replay of obligation", doc.get("obligation"))
    for o in doc.get("verifier_output", []):
        print(o)
    w = doc.get("witness")
    if not w or not w.get("found"):
        print("no concrete failing input was recorded (no-failing-input-found); the failed obligation above is the violation")
        return 1
    if not build():
        print("replay crate did not build:", _built["log"][-500:])
        return 2
    d = _run(w["replay_args"])
    print("input:", w.get("input"))
    print("on the current tree:", json.dumps(d))
    if d and d.get("found"):
        print("REPRODUCED: observed %r, expected %s" % (d.get("observed"), d.get("expected")))
        return 1
    print("not reproduced on the current tree")
    return 0
