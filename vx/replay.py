"""Witness search / replay against the REAL crates (not the deciding step; DESIGN 3.5)."""
import json
import os
import subprocess
import sys

VERIF = os.path.dirname(os.path.dirname(os.path.abspath(__file__)))


def search_witness(prop, unit, fnpath, failure):
    """returns {"found": bool, ...} or None when the unit has no witness generator"""
    return None


def replay_file(path):
    doc = json.load(open(path))
    print("replay of", doc.get("obligation"))
    for o in doc.get("verifier_output", []):
        print(o)
    w = doc.get("witness")
    if not w or not w.get("found"):
        print("no concrete failing input was recorded (no-failing-input-found); the obligation above is the violation")
        return 1
    return 1
