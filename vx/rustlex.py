"""Minimal Rust lexer used by the extractor / weaver.

It is *not* a parser: it splits a source text into tokens that are good enough
to (a) skip strings, chars, lifetimes, comments and raw strings correctly and
(b) track bracket nesting, so that items can be cut out byte for byte.
"""
import re
from dataclasses import dataclass

IDENT_RE = re.compile(r"[A-Za-z_][A-Za-z0-9_]*")
NUM_RE = re.compile(r"[0-9][0-9A-Za-z_]*(\.[0-9][0-9A-Za-z_]*)?")


@dataclass
class Tok:
    kind: str  # ident, num, str, char, lifetime, punct, comment, doc, ws
    text: str
    start: int
    end: int
    depth: int = 0  # nesting of (), [], {} *before* this token
    brace: int = 0  # nesting of {} only, before this token
    paren: int = 0  # nesting of () and [] only, before this token


class LexError(Exception):
    pass


def lex(src: str):
    toks = []
    i = 0
    n = len(src)
    while i < n:
        c = src[i]
        if c in " \t\r\n":
            j = i + 1
            while j < n and src[j] in " \t\r\n":
                j += 1
            toks.append(Tok("ws", src[i:j], i, j))
            i = j
            continue
        if src.startswith("//", i):
            j = src.find("\n", i)
            if j < 0:
                j = n
            kind = "doc" if (src.startswith("///", i) and not src.startswith("////", i)) or src.startswith("//!", i) else "comment"
            toks.append(Tok(kind, src[i:j], i, j))
            i = j
            continue
        if src.startswith("/*", i):
            depth = 1
            j = i + 2
            while j < n and depth > 0:
                if src.startswith("/*", j):
                    depth += 1
                    j += 2
                elif src.startswith("*/", j):
                    depth -= 1
                    j += 2
                else:
                    j += 1
            toks.append(Tok("comment", src[i:j], i, j))
            i = j
            continue
        # raw strings / byte strings
        m = re.match(r"(b?r)(#*)\"", src[i:i + 40])
        if m:
            hashes = m.group(2)
            close = '"' + hashes
            j = src.find(close, i + len(m.group(0)))
            if j < 0:
                raise LexError("unterminated raw string at %d" % i)
            j += len(close)
            toks.append(Tok("str", src[i:j], i, j))
            i = j
            continue
        if c == '"' or (c == "b" and i + 1 < n and src[i + 1] == '"'):
            j = i + (2 if c == "b" else 1)
            while j < n and src[j] != '"':
                if src[j] == "\\":
                    j += 2
                else:
                    j += 1
            j += 1
            toks.append(Tok("str", src[i:j], i, j))
            i = j
            continue
        if c == "'" or (c == "b" and i + 1 < n and src[i + 1] == "'"):
            k = i + (1 if c == "b" else 0)
            # char literal or lifetime?
            if k + 1 < n and src[k + 1] == "\\":
                j = k + 3  # skip the escaped character itself (it may be a quote)
                while j < n and src[j] != "'":
                    j += 1
                j += 1
                toks.append(Tok("char", src[i:j], i, j))
                i = j
                continue
            if k + 2 < n and src[k + 2] == "'":
                j = k + 3
                toks.append(Tok("char", src[i:j], i, j))
                i = j
                continue
            # multi-byte char literal like '\u{..}' handled above; non-ascii single char
            m2 = IDENT_RE.match(src, k + 1)
            if m2 and c == "'":
                toks.append(Tok("lifetime", src[i:m2.end()], i, m2.end()))
                i = m2.end()
                continue
            # fallback: non-ascii char literal
            j = src.find("'", k + 1)
            if j < 0:
                raise LexError("bad quote at %d" % i)
            j += 1
            toks.append(Tok("char", src[i:j], i, j))
            i = j
            continue
        m = IDENT_RE.match(src, i)
        if m:
            toks.append(Tok("ident", m.group(0), i, m.end()))
            i = m.end()
            continue
        m = NUM_RE.match(src, i)
        if m:
            # avoid swallowing `0..n` range dots: NUM_RE requires a digit after '.'
            toks.append(Tok("num", m.group(0), i, m.end()))
            i = m.end()
            continue
        toks.append(Tok("punct", c, i, i + 1))
        i += 1
    # nesting
    depth = brace = paren = 0
    for t in toks:
        if t.kind == "punct" and t.text in ")]}":
            depth -= 1
            if t.text == "}":
                brace -= 1
            else:
                paren -= 1
        t.depth, t.brace, t.paren = depth, brace, paren
        if t.kind == "punct" and t.text in "([{":
            depth += 1
            if t.text == "{":
                brace += 1
            else:
                paren += 1
    return toks


def code_toks(toks):
    """indices of tokens that are not whitespace/comments"""
    return [i for i, t in enumerate(toks) if t.kind not in ("ws", "comment", "doc")]


def match_close(toks, i_open):
    """index of the bracket token closing toks[i_open]"""
    d = toks[i_open].depth
    for j in range(i_open + 1, len(toks)):
        t = toks[j]
        if t.kind == "punct" and t.text in ")]}" and t.depth == d:
            return j
    raise LexError("unbalanced bracket at %d" % toks[i_open].start)


def line_of(src: str, pos: int) -> int:
    return src.count("\n", 0, pos) + 1
