"""Contract weaving: inserts requires/ensures/invariant/decreases/proof hints at
anchors inside mechanically extracted items, and applies the fixed list of
syntactic rewrite rules (DESIGN.md 3.2)."""
import re
from dataclasses import dataclass, field

from . import rustlex as rl
from .extract import LostAnchor


@dataclass
class Section:
    kind: str  # sig | loop | after | before | attr | closure
    target: str  # function path
    args: dict
    body: str
    file: str
    line: int  # line of the first body line in the contracts file


def parse_contracts(path):
    """Sections start with a line `@@ kind target [k=v ...] [<<<literal pattern>>>]`"""
    secs = []
    try:
        lines = open(path, encoding="utf-8").read().split("\n")
    except OSError:
        return secs
    cur = None
    for ln, line in enumerate(lines, 1):
        if line.startswith("@@"):
            pat = None
            m = re.search(r"<<<(.*)>>>\s*$", line)
            head = line[2:]
            if m:
                pat = m.group(1)
                head = line[2:m.start()]
            parts = head.split()
            if len(parts) < 2:
                raise ValueError("%s:%d: bad section header" % (path, ln))
            args = {}
            pos = []
            for p in parts[2:]:
                if "=" in p:
                    k, v = p.split("=", 1)
                    args[k] = v
                else:
                    pos.append(p)
            args["_pos"] = pos
            if pat is not None:
                args["pattern"] = pat
            cur = Section(parts[0], parts[1], args, "", path, ln + 1)
            secs.append(cur)
        elif cur is not None:
            if line.startswith("#!"):  # comment line in contracts file
                cur.body += "\n"
                continue
            cur.body += line + "\n"
    for s in secs:
        s.body = s.body.rstrip("\n")
    return secs


# ---------------------------------------------------------------------------
# rewrite rules (complete list; every application is logged)
# ---------------------------------------------------------------------------

def _sub_logged(rule, pattern, repl, text, log, item, flags=0):
    def _r(m):
        line = item.line + text.count("\n", 0, m.start())
        log.append({"rule": rule, "at": "%s:%d" % (item.file, line), "from": m.group(0)[:80]})
        return repl(m) if callable(repl) else m.expand(repl)
    return re.sub(pattern, _r, text, flags=flags)


def _blank_keep_lines(m):
    return "\n" * m.group(0).count("\n")


def apply_rewrites(item, rules, log, extra=None):
    """returns rewritten text; number of lines is preserved by every rule"""
    t = item.text
    if "R-vis" in rules:
        # all extracted items live in one module, so visibility has no run-time meaning; it is dropped
        t = _sub_logged("R-vis", r"\bpub\b(\s*\(\s*(crate|super|self|in [^)]*)\s*\))?[ \t]*", "", t, log, item)
        # derives are dropped, except that `Copy` types stay `Clone, Copy` (move semantics must not change)
        t = _sub_logged("R-vis", r"#\[derive\(([^\]]*\bCopy\b[^\]]*)\)\]", lambda m: "#[derive(Clone, Copy)]" + "\n" * m.group(0).count("\n"), t, log, item)
        t = _sub_logged("R-vis", r"#\[(derive|inline|must_use|non_exhaustive|allow|repr|serde)\b(?!\(Clone, Copy\)\])[^\]]*\]", _blank_keep_lines, t, log, item)
    if "R-doc" in rules:
        t = _sub_logged("R-doc", r"(?m)^[ \t]*///.*$", "", t, log, item)
    if "R-range" in rules:
        # (A..=B).contains(&X)  ->  (A <= X && X <= B)
        t = _sub_logged("R-range", r"\(\s*('(?:\\.|[^'])+'|[\w:]+)\s*\.\.=\s*('(?:\\.|[^'])+'|[\w:]+)\s*\)\s*\.contains\(\s*&\s*([A-Za-z_][\w\.]*)\s*\)",
                        r"(\1 <= \3 && \3 <= \2)", t, log, item)
    if "R-split" in rules:
        # `for P in E.split(C) {`  ->  `for P in vx_split(E, C) {`   (eager; see DESIGN 3.2)
        t = _sub_logged("R-split", r"\bin\s+([A-Za-z_][\w]*)\.split\(([^()]*)\)", r"in vx_split(\1, \2)", t, log, item)
    if "R-chars" in rules:
        # `for c in E.chars() {`  ->  `for c in vx_chars(E) {`  (eager Vec<char>; a for loop consumes the iterator completely, in order)
        t = _sub_logged("R-chars", r"\bin\s+([A-Za-z_][\w]*)\.chars\(\)", r"in vx_chars(\1)", t, log, item)
    if "R-join" in rules:
        t = _sub_logged("R-join", r"\b([A-Za-z_][\w]*)\.join\(([^()]*)\)", r"vx_join(&\1, \2)", t, log, item)
    if "R-strop" in rules:
        # byte slicing of a `str`: the `Index` impls of `str` have no Verus spec (and cannot be given one from
        # outside vstd), so the three slice forms become calls of stand-ins with the std semantics as assumed contract
        t = _sub_logged("R-strop", r"&\s*([A-Za-z_][\w\.]*(?:\(\))?)\[\s*([^\[\]\.]+?)\s*\.\.=\s*([^\[\]=\.]+?)\s*\]", r"vx_slice(\1, \2, \3 + 1)", t, log, item)
        t = _sub_logged("R-strop", r"&\s*([A-Za-z_][\w\.]*(?:\(\))?)\[\s*([^\[\]]+?)\s*\.\.\s*\]", r"vx_slice_from(\1, \2)", t, log, item)
        t = _sub_logged("R-strop", r"&\s*([A-Za-z_][\w\.]*(?:\(\))?)\[\s*\.\.\s*([^\[\]=]+?)\s*\]", r"vx_slice_to(\1, \2)", t, log, item)
        t = _sub_logged("R-strop", r"&\s*([A-Za-z_][\w\.]*(?:\(\))?)\[\s*([^\[\]\.]+?)\s*\.\.\s*([^\[\]=\.]+?)\s*\]", r"vx_slice(\1, \2, \3)", t, log, item)
    for rule in (extra or []):
        # unit-specific literal rules: {"id","pattern","repl","why"} -- still logged, still listed in the evidence
        t = _sub_logged(rule["id"], rule["pattern"], rule["repl"], t, log, item, flags=re.S if rule.get("dotall") else 0)
    return t


# ---------------------------------------------------------------------------
# weaving
# ---------------------------------------------------------------------------

@dataclass
class Insertion:
    off: int
    text: str
    origin: tuple  # (file, line)
    replace_to: int = -1  # if >= 0: replace text[off:replace_to]


def _fn_layout(text):
    """locate, inside the text of ONE fn item: keyword, param close, arrow/ret type, body open/close (token indices)"""
    toks = rl.lex(text)
    code = rl.code_toks(toks)
    kfn = None
    for k in code:
        if toks[k].kind == "ident" and toks[k].text == "fn" and toks[k].depth == 0:
            kfn = k
            break
    if kfn is None:
        raise LostAnchor("no fn keyword in item")
    body_open = None
    for k in code:
        if k > kfn and toks[k].kind == "punct" and toks[k].text == "{" and toks[k].depth == 0:
            body_open = k
            break
    if body_open is None:
        raise LostAnchor("fn without body")
    body_close = rl.match_close(toks, body_open)
    # return arrow at depth 0 between fn and body
    arrow = None
    prev = None
    for k in code:
        if k <= kfn:
            continue
        if k >= body_open:
            break
        t = toks[k]
        if t.kind == "punct" and t.text == ">" and prev is not None and toks[prev].text == "-" and toks[prev].end == t.start and t.depth == 0:
            arrow = k
        prev = k
    where_tok = None
    for k in code:
        if kfn < k < body_open and toks[k].kind == "ident" and toks[k].text == "where" and toks[k].depth == 0:
            where_tok = k
    return toks, code, kfn, arrow, where_tok, body_open, body_close


def _loops(toks, code, body_open, body_close):
    """loop keywords inside the body in source order -> list of (kind, kw_tok_index, open_brace_index)"""
    out = []
    for idx, k in enumerate(code):
        if not (body_open < k < body_close):
            continue
        t = toks[k]
        if t.kind == "ident" and t.text in ("while", "loop", "for"):
            if t.text == "for":
                # exclude `for<'a>` HRTB and `impl X for Y`
                nxt = toks[code[idx + 1]]
                if nxt.text == "<":
                    continue
            # body `{` = first `{` after kw at same paren depth and same-or... brace depth equal to kw's
            for k2 in code[idx + 1:]:
                t2 = toks[k2]
                if t2.kind == "punct" and t2.text == "{" and t2.paren == t.paren and t2.brace == t.brace:
                    out.append((t.text, k, k2))
                    break
    return out


def _section_added_nothing(si, n_before, total):
    keys = sorted(n_before)
    k = keys.index(si)
    nxt = n_before[keys[k + 1]] if k + 1 < len(keys) else total
    return nxt == n_before[si]


def weave_fn(item_text, fnpath, sections, origin_file, origin_line):
    """returns list of segments [(text, (file, line))] for one fn item"""
    toks, code, kfn, arrow, where_tok, body_open, body_close = _fn_layout(item_text)
    ins = []
    used = set()
    loops = None
    n_before = {}
    for si, s in enumerate(sections):
        if s.target != fnpath:
            continue
        used.add(si)
        n_before[si] = len(ins)
        if s.kind == "sig":
            ret = s.args.get("ret")
            if ret:
                if arrow is None:
                    raise LostAnchor("%s: contract names a return value but fn has no return type" % fnpath)
                end_tok = where_tok if where_tok is not None else body_open
                a = toks[arrow].end
                b = toks[end_tok].start
                ty = item_text[a:b].strip()
                ins.append(Insertion(a, " (%s: %s) " % (ret, ty), (s.file, s.line), replace_to=b))
            ins.append(Insertion(toks[body_open].start, "\n" + s.body + "\n", (s.file, s.line)))
        elif s.kind == "attr":
            ins.append(Insertion(0, s.body + "\n", (s.file, s.line)))
        elif s.kind == "fnstart":
            ins.append(Insertion(toks[body_open].end, "\n" + s.body + "\n", (s.file, s.line)))
        elif s.kind == "fnend":
            # proof hint placed as the last statement of the function body; only sound to use when the body ends
            # with a statement (unit return), otherwise the weave would not compile
            ins.append(Insertion(toks[body_close].start, "\n" + s.body + "\n", (s.file, s.line)))
        elif s.kind == "loopend":
            # proof hint placed as the last statement of the k-th loop's body
            if loops is None:
                loops = _loops(toks, code, body_open, body_close)
            sel = s.args["_pos"][0]
            m = re.match(r"(while|loop|for)#(\d+)$", sel)
            same = [l for l in loops if l[0] == m.group(1)]
            k = int(m.group(2))
            if k >= len(same):
                if s.args.get("opt"):
                    continue
                raise LostAnchor("%s: %s does not exist" % (fnpath, sel))
            kind, kw, ob = same[k]
            cb = rl.match_close(toks, ob)
            ins.append(Insertion(toks[cb].start, "\n" + s.body + "\n", (s.file, s.line)))
        elif s.kind == "loop":
            if loops is None:
                loops = _loops(toks, code, body_open, body_close)
            sel = s.args["_pos"][0]
            m = re.match(r"(while|loop|for)#(\d+)$", sel)
            if not m:
                raise ValueError("%s:%d: bad loop selector %r" % (s.file, s.line, sel))
            same = [l for l in loops if l[0] == m.group(1)]
            k = int(m.group(2))
            if k >= len(same) and s.args.get("opt"):
                continue
            if k >= len(same):
                raise LostAnchor("%s: %s does not exist (function has %d `%s` loops)" % (fnpath, sel, len(same), m.group(1)))
            kind, kw, ob = same[k]
            if kind == "for" and "label" in s.args:
                # `for P in E {`  ->  `for P in label: E {`
                kin = None
                for k2 in code:
                    if k2 > kw and toks[k2].kind == "ident" and toks[k2].text == "in" and toks[k2].paren == toks[kw].paren and toks[k2].brace == toks[kw].brace:
                        kin = k2
                        break
                if kin is None:
                    raise LostAnchor("%s: for-loop without `in`" % fnpath)
                ins.append(Insertion(toks[kin].end, " %s:" % s.args["label"], (s.file, s.line)))
            ins.append(Insertion(toks[ob].start, "\n" + s.body + "\n", (s.file, s.line)))
        elif s.kind in ("after", "before"):
            pat = s.args.get("pattern")
            k = int(s.args["_pos"][0]) if s.args["_pos"] else 0
            lo, hi = toks[body_open].start, toks[body_close].end
            pos = lo
            found = -1
            for _ in range(k + 1):
                found = item_text.find(pat, pos, hi)
                if found < 0:
                    break
                pos = found + 1
            if found < 0:
                if s.args.get("opt"):
                    continue  # optional proof hint: its anchor is gone, the hint is dropped (logged by the caller)
                raise LostAnchor("%s: anchor pattern %r #%d not found" % (fnpath, pat, k))
            off = found + len(pat) if s.kind == "after" else found
            ins.append(Insertion(off, "\n" + s.body + "\n", (s.file, s.line)))
        elif s.kind == "closureexpr":
            # the pattern ends right after the `|params|` of a closure that is the LAST argument of a call and whose
            # body is a brace-less expression; the body runs up to the `)` closing that call.  The section body is
            # woven after the parameters and the body expression is wrapped in braces.
            pat = s.args.get("pattern")
            k = int(s.args["_pos"][0]) if s.args["_pos"] else 0
            lo, hi = toks[body_open].start, toks[body_close].end
            pos = lo
            found = -1
            for _ in range(k + 1):
                found = item_text.find(pat, pos, hi)
                if found < 0:
                    break
                pos = found + 1
            if found < 0:
                if s.args.get("opt"):
                    continue
                raise LostAnchor("%s: closure %r #%d not found" % (fnpath, pat, k))
            start = found + len(pat)
            # first code token of the body
            bt = None
            for ti, t in enumerate(toks):
                if t.start >= start and t.kind not in ("ws", "comment", "doc"):
                    bt = ti
                    break
            if bt is None:
                raise LostAnchor("%s: closure body not found" % fnpath)
            end_tok = None
            for ti in range(bt, len(toks)):
                t = toks[ti]
                if t.kind == "punct" and t.text == ")" and t.depth < toks[bt].depth:
                    end_tok = ti
                    break
            if end_tok is None:
                raise LostAnchor("%s: end of closure body not found" % fnpath)
            ins.append(Insertion(start, " " + " ".join(s.body.split()) + " { ", (s.file, s.line)))
            ins.append(Insertion(toks[end_tok].start, " }", (s.file, s.line)))
        elif s.kind == "closurehead":
            # the pattern is the text up to and including the `{` that opens a closure body, e.g. `foo(|ps| {`;
            # the section body (return binder, requires/ensures) is woven before that brace
            pat = s.args.get("pattern")
            k = int(s.args["_pos"][0]) if s.args["_pos"] else 0
            lo, hi = toks[body_open].start, toks[body_close].end
            pos = lo
            found = -1
            for _ in range(k + 1):
                found = item_text.find(pat, pos, hi)
                if found < 0:
                    break
                pos = found + 1
            if found < 0 or not pat.rstrip().endswith("{"):
                if s.args.get("opt"):
                    continue
                raise LostAnchor("%s: closure head %r #%d not found" % (fnpath, pat, k))
            ins.append(Insertion(found + len(pat.rstrip()) - 1, "\n" + s.body + "\n", (s.file, s.line)))
        elif s.kind == "closure":
            # the pattern is the complete text of a closure `|PARAMS| BODY`; the section body (return binder and
            # requires/ensures) is woven between the parameter list and the body, which gets braces if it has none
            pat = s.args.get("pattern")
            k = int(s.args["_pos"][0]) if s.args["_pos"] else 0
            lo, hi = toks[body_open].start, toks[body_close].end
            pos = lo
            found = -1
            for _ in range(k + 1):
                found = item_text.find(pat, pos, hi)
                if found < 0:
                    break
                pos = found + 1
            if found < 0:
                if s.args.get("opt"):
                    continue
                raise LostAnchor("%s: closure %r #%d not found" % (fnpath, pat, k))
            m = re.match(r"(move\s+)?\|[^|]*\|", pat)
            if not m:
                raise ValueError("%s:%d: closure pattern must start with |params|" % (s.file, s.line))
            body_txt = pat[m.end():].strip()
            ins.append(Insertion(found + m.end(), " " + " ".join(s.body.split()) + " ", (s.file, s.line)))
            if not body_txt.startswith("{"):
                ins.append(Insertion(found + len(pat) - len(pat[m.end():].lstrip()), "{ ", (s.file, s.line)))
                ins.append(Insertion(found + len(pat), " }", (s.file, s.line)))
        else:
            raise ValueError("%s:%d: unknown section kind %r" % (s.file, s.line, s.kind))
    dropped = [sections[si] for si in n_before if sections[si].args.get("opt") and len(ins) == n_before[si] and
               (si == max(n_before) or True) and _section_added_nothing(si, n_before, len(ins))]
    # assemble
    ins.sort(key=lambda i: i.off)
    segs = []
    pos = 0

    def emit_src(a, b):
        if a >= b:
            return
        line = origin_line + item_text.count("\n", 0, a)
        segs.append((item_text[a:b], (origin_file, line), True))

    for i in ins:
        emit_src(pos, i.off)
        segs.append((i.text, i.origin, False))
        pos = max(pos, i.off if i.replace_to < 0 else i.replace_to)
    emit_src(pos, len(item_text))
    weave_fn.last_dropped = ["%s %s %s" % (d.kind, d.target, d.args.get("pattern") or " ".join(d.args.get("_pos", []))) for d in dropped]
    return segs, used
