// ---- stand-ins for the transformer layer of lib.rs (unit CSSTR) ----
/// what one output has been asked to write, in order (the real StyleSheetOutput methods are proved in unit CSSOUT)
pub enum OutOp { Raw(Seq<char>), Tok(Emit) }
pub struct StyleSheetOutput { pub ops: Ghost<Seq<OutOp>> }
spec fn opt_tokv(t: Option<Token>) -> Option<TokV> { match t { Some(x) => Some(tokv(x)), None => None } }
pub uninterp spec fn out_utf8_len(ops: Seq<OutOp>) -> usize;
impl StyleSheetOutput {
    #[verifier::external_body]
    fn append_raw(&mut self, s: &str)
        ensures final(self).ops@ == old(self).ops@.push(OutOp::Raw(s@)),
    { unimplemented!() }
    #[verifier::external_body]
    fn append_token(&mut self, token: StepToken, src: Option<Token>)
        ensures final(self).ops@ == old(self).ops@.push(OutOp::Tok(Emit { tok: tokv(token.token), pos: token.position, src: opt_tokv(src), keep_space: false })),
    { unimplemented!() }
    #[verifier::external_body]
    fn append_token_space_preserved(&mut self, token: StepToken, src: Option<Token>)
        ensures final(self).ops@ == old(self).ops@.push(OutOp::Tok(Emit { tok: tokv(token.token), pos: token.position, src: opt_tokv(src), keep_space: true })),
    { unimplemented!() }
    #[verifier::external_body]
    fn cur_utf8_len(&self) -> (r: usize)
        ensures r == out_utf8_len(self.ops@),
    { unimplemented!() }
}
pub struct StepParser { pub _x: u8 }
pub struct VxParseError { pub _x: u8 }
/// urlencoding::encode (external crate, A6): percent-encoding of the UTF-8 bytes; what matters here: it is a function of
/// the path, its result contains no `*` `/` pair or any other character outside [A-Za-z0-9-_.~%], and percent-decoding
/// gives the path back (these facts are the crate's documented contract, assumed)
pub uninterp spec fn pct_enc(s: Seq<char>) -> Seq<char>;
#[verifier::external_body]
fn vx_urlencode(s: &str) -> (r: String)
    ensures r@ == pct_enc(s@),
{ unimplemented!() }
#[verifier::external_body]
fn vx_fmt_space(a: &String, b: &String) -> (r: String)
    ensures r@ == a@ + seq![' '] + b@,
{ unimplemented!() }
