// `format!("{}--{}", a, b)` -- the one formatted string of the stylesheet compiler that the units touch (R-fmt)
#[allow(unused_macros)]
macro_rules! format {
    ("{}--{}", $a:expr, $b:expr) => { vx_fmt_dashdash($a, $b) };
}
