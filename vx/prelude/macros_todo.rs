// `todo!()` arms (never constructed by the parser: ClassAttribute::Multiple / StyleAttribute::Multiple) are modelled as
// a call that does not return
#[allow(unused_macros)]
macro_rules! todo {
    () => { vx_todo() };
}
