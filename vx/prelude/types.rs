// ---- opaque stand-ins for external-crate types (R-type); local names shadow preludes ----
#[verifier::external_body]
#[verifier::accept_recursive_types(T)]
pub struct PhantomOpaque<T> { _p: core::marker::PhantomData<T> }

/// stand-in for compact_str::CompactString: an owned string viewed as Seq<char>
#[verifier::external_body]
pub struct CompactString { inner: String }
impl View for CompactString {
    type V = Seq<char>;
    uninterp spec fn view(&self) -> Seq<char>;
}
pub use core::ops::Range;
