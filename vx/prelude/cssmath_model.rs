// ---- stand-ins for is_math_function (unit CSSMATH) ----
pub open spec fn lower_char(c: char) -> char { if 'A' <= c && c <= 'Z' { ((c as u8) + 32u8) as char } else { c } }
pub open spec fn lower(s: Seq<char>) -> Seq<char> { Seq::new(s.len(), |i: int| lower_char(s[i])) }
/// ASSUMED (A2): str::to_ascii_lowercase
pub assume_specification [str::to_ascii_lowercase] (s: &str) -> (r: String)
    ensures r@ == lower(s@);
