// local macros shadow the std ones (R-fmt): call sites stay verbatim
#[allow(unused_macros)]
macro_rules! unreachable {
    () => { vx_unreachable() };
    ($($t:tt)*) => { vx_unreachable() };
}
