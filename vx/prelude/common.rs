// ---- common trusted base (listed in every evidence file that uses it) ----
/// ASSUMED (A2): a `str` value is determined by its sequence of characters, so two `&str` with the same
/// view are the same value.  Needed because rustc's `match s { "lit" => .. }` compares `str` values,
/// while specifications speak about the character sequence `s@`.
#[verifier::external_body]
pub proof fn axiom_str_ext(a: &str)
    ensures forall|b: &str| (#[trigger] b@) == a@ ==> b == a,
{
}
/// ASSUMED (A3): Rust never allocates more than isize::MAX bytes, so a Vec of a non-zero-sized element
/// type has at most isize::MAX elements (std docs of Vec / Layout).  Only used for element types that
/// are visibly non-zero-sized (enums with payload, &str, String).
#[verifier::external_body]
pub proof fn axiom_vec_len_bound<T>(v: &Vec<T>)
    ensures v@.len() <= isize::MAX,
{
}
