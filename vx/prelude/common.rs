// ---- common trusted base (listed in every evidence file that uses it) ----
/// ASSUMED (A2): a `str` value is determined by its sequence of characters, so two `&str` with the same
/// view are the same value.  Needed because rustc's `match s { "lit" => .. }` compares `str` values,
/// while specifications speak about the character sequence `s@`.
#[verifier::external_body]
pub proof fn axiom_str_ext(a: &str)
    ensures forall|b: &str| (#[trigger] b@) == a@ ==> b == a,
{
}
/// ASSUMED (A3): Rust never allocates more than isize::MAX bytes, so a Vec of a non-zero-sized element
/// type has at most isize::MAX elements (std docs of Vec / Layout).  Only used for element types that
/// are visibly non-zero-sized (enums with payload, &str, String).
#[verifier::external_body]
pub proof fn axiom_vec_len_bound<T>(v: &Vec<T>)
    ensures v@.len() <= isize::MAX,
{
}
/// `unreachable!()` / `panic!()` call sites expand to this (macro shadowing, R-fmt): reaching one is a
/// failed obligation ("precondition not satisfied"), so C01's "no panic" is checked, not assumed.
#[verifier::external_body]
pub fn vx_unreachable() -> !
    requires false,
{
    unreachable!()
}
/// A VERIFIED no-op (its body is checked, it is not an assumption).  Calls of it are woven in as
/// "resolution hints": Verus' inference of when a `&mut` parameter's final value is fixed is imprecise
/// after a `match` arm with an `if` guard whose body mutates through the reference (minimal reproduction
/// in docs/verus-guard-resolution.rs); touching the reference once in the following arm restores it.
pub fn vx_noop<T>(x: &mut T)
    ensures *final(x) == *old(x),
{
}
/// ASSUMED (A3): `Option::replace` stores the new value and returns the old one
pub assume_specification<T> [Option::<T>::replace] (o: &mut Option<T>, value: T) -> (r: Option<T>)
    ensures r == *old(o), *final(o) == Some(value);
