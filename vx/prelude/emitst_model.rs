// ---- stand-ins for stringify/expr.rs ----
#[derive(Debug)]
pub struct VxFmtError { _x: u8 }
impl CompactString {
    #[verifier::external_body]
    pub fn vx_as_str(&self) -> (r: &str)
        ensures r@ == self@,
    { unimplemented!() }
    #[verifier::external_body]
    pub fn as_str(&self) -> (r: &str)
        ensures r@ == self@,
    { unimplemented!() }
}
pub uninterp spec fn js_lit(s: Seq<char>) -> Seq<char>;
/// escape::gen_lit_str (verified in unit JSLIT: the literal's JS value is the input)
#[verifier::external_body]
pub fn gen_lit_str(s: &str) -> (r: String)
    ensures r@ == js_lit(s@),
{ unimplemented!() }
/// escape::gen_lit_float: a NumericLiteral that JavaScript and the template parser read back as the value (`1e999` for infinity)
#[verifier::external_body]
pub fn gen_lit_float(x: f64) -> (r: String)
    ensures r@ == display_f64(x),
{ unimplemented!() }
#[verifier::external_body]
pub fn vx_fmt_id(s: &String) -> (r: String)
    ensures r@ == s@,
{ unimplemented!() }
pub uninterp spec fn display_i64(v: i64) -> Seq<char>;
pub uninterp spec fn display_f64(v: f64) -> Seq<char>;
pub trait VxDisplay { spec fn disp(&self) -> Seq<char>; fn vx_disp(&self) -> (r: String) ensures r@ == self.disp(); }
impl VxDisplay for i64 {
    open spec fn disp(&self) -> Seq<char> { display_i64(*self) }
    #[verifier::external_body]
    fn vx_disp(&self) -> (r: String) { unimplemented!() }
}
impl VxDisplay for f64 {
    open spec fn disp(&self) -> Seq<char> { display_f64(*self) }
    #[verifier::external_body]
    fn vx_disp(&self) -> (r: String) { unimplemented!() }
}
pub fn vx_display<T: VxDisplay>(v: &T) -> (r: String)
    ensures r@ == v.disp(),
{ v.vx_disp() }

/// the Stringifier as seen by the expression printer: the text written so far and the scope names in force
pub struct Stringifier { pub out: Ghost<Seq<char>>, pub names: Ghost<Seq<Seq<char>>> }
pub open spec fn invalid_scope_name() -> Seq<char> { "__INVALID_SCOPE_NAME__"@ }
impl Stringifier {
    pub open spec fn scope_name(&self, index: int) -> Seq<char> {
        if 0 <= index < self.names@.len() { self.names@[index] } else { invalid_scope_name() }
    }
    #[verifier::external_body]
    pub fn write_str(&mut self, s: &str) -> (r: Result<(), VxFmtError>)
        ensures r.is_ok(), final(self).names@ == old(self).names@, final(self).out@ == old(self).out@ + s@,
    { unimplemented!() }
    #[verifier::external_body]
    pub fn write_token(&mut self, dest_text: &str, source_text: Option<&str>, location: &Range<Position>) -> (r: Result<(), VxFmtError>)
        ensures r.is_ok(), final(self).names@ == old(self).names@, final(self).out@ == old(self).out@ + dest_text@,
    { unimplemented!() }
    #[verifier::external_body]
    pub fn write_scope_name(&mut self, index: usize, location: &Range<Position>) -> (r: Result<(), VxFmtError>)
        ensures r.is_ok(), final(self).names@ == old(self).names@, final(self).out@ == old(self).out@ + old(self).scope_name(index as int),
    { unimplemented!() }
    #[verifier::external_body]
    pub fn get_scope_name(&mut self, index: usize) -> (r: &str)
        ensures *final(self) == *old(self), r@ == old(self).scope_name(index as int),
    { unimplemented!() }
}
