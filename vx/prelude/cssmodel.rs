// ---- assumed model of the external types the stylesheet output touches (A5, A6) ----
#[derive(Debug)]
pub struct VxFmtError { _x: u8 }
/// `write!(dst, "literal")` on a String sink: appends the literal, never fails
#[verifier::external_body]
pub fn vx_write_lit(dst: &mut String, lit: &str) -> (r: Result<(), VxFmtError>)
    ensures r.is_ok(), final(dst)@ == old(dst)@ + lit@,
{ unimplemented!() }

pub open spec fn u16len(s: Seq<char>) -> int
    decreases s.len(),
{
    if s.len() == 0 { 0 } else { u16len(s.drop_last()) + utf16_len(s.last()) }
}
/// stand-in for `str::encode_utf16(x).count()`
#[verifier::external_body]
pub fn vx_utf16_count(s: &str) -> (r: usize)
    ensures r as int == u16len(s@),
{ unimplemented!() }

pub assume_specification [String::len] (s: &String) -> (r: usize)
    ensures r as int == boff(s@, s@.len() as int);

/// cssparser::TokenSerializationType (an enum of token classes; only `Nothing` is named by this crate)
#[derive(Clone, Copy)]
pub enum TokenSerializationType { Nothing, WhiteSpace, Other(u8) }
pub uninterp spec fn needs_sep(a: TokenSerializationType, b: TokenSerializationType) -> bool;
impl TokenSerializationType {
    #[verifier::external_body]
    pub fn needs_separator_when_before(self, other: TokenSerializationType) -> (r: bool)
        ensures r == needs_sep(self, other),
    { unimplemented!() }
}
/// cssparser::Token: opaque except for the WhiteSpace variant this crate matches on
pub enum Token<'i> { WhiteSpace(&'i str), Comment(&'i str), Other(&'i str) }
pub uninterp spec fn css_text(t: Token) -> Seq<char>;
pub uninterp spec fn ser_type(t: Token) -> TokenSerializationType;
impl<'i> Token<'i> {
    #[verifier::external_body]
    pub fn serialization_type(&self) -> (r: TokenSerializationType)
        ensures r == ser_type(*self),
    { unimplemented!() }
    #[verifier::external_body]
    pub fn to_css(&self, dest: &mut String) -> (r: Result<(), VxFmtError>)
        ensures r.is_ok(), final(dest)@ == old(dest)@ + css_text(*self),
    { unimplemented!() }
    #[verifier::external_body]
    pub fn to_css_string(&self) -> (r: String)
        ensures r@ == css_text(*self),
    { unimplemented!() }
}
/// what output.rs::write_token_text appends for a token: cssparser's text, except that an integer the token carries
/// exactly is written from its integer value (the function itself works on Token fields this abstract model does not
/// have: it is exercised by the bounded generator RPX, family `other`)
pub uninterp spec fn out_text(t: Token) -> Seq<char>;
#[verifier::external_body]
pub fn write_token_text(token: &Token, dest: &mut String) -> (r: Result<(), VxFmtError>)
    ensures r.is_ok(), final(dest)@ == old(dest)@ + out_text(*token),
{ unimplemented!() }
/// sourcemap::SourceMapBuilder, modelled as the sequence of raw entries it was given
pub struct MapEntry { pub dst_line: u32, pub dst_col: u32, pub src_line: u32, pub src_col: u32, pub source: Option<u32>, pub name: Option<Seq<char>> }
pub struct SourceMapBuilder { pub entries: Ghost<Seq<MapEntry>>, pub names: Ghost<Seq<Seq<char>>> }
impl SourceMapBuilder {
    #[verifier::external_body]
    pub fn add_name(&mut self, name: &str) -> (r: u32)
        ensures final(self).entries@ == old(self).entries@, final(self).names@.len() > r, final(self).names@[r as int] == name@,
            forall|k: int| 0 <= k < old(self).names@.len() ==> final(self).names@[k] == old(self).names@[k] && old(self).names@.len() <= final(self).names@.len(),
    { unimplemented!() }
    #[verifier::external_body]
    pub fn add_raw(&mut self, dst_line: u32, dst_col: u32, src_line: u32, src_col: u32, source: Option<u32>, name: Option<u32>)
        requires name.is_some() ==> name.unwrap() < old(self).names@.len(),
        ensures final(self).names@ == old(self).names@,
            final(self).entries@ == old(self).entries@.push(MapEntry { dst_line, dst_col, src_line, src_col, source,
                name: if name.is_some() { Some(old(self).names@[name.unwrap() as int]) } else { None } }),
    { unimplemented!() }
}
