// ---- stand-ins for proc_gen/mod.rs writers (unit JSW) ----
pub struct VxFmtErr { _x: u8 }
/// the generic `W: fmt::Write` fixed to a sink that records the text
pub struct VxSink { pub t: Ghost<Seq<char>> }
pub struct VxOk { _x: u8 }
impl VxOk { pub fn unwrap(self) {} }
impl VxSink {
    #[verifier::external_body]
    pub fn vx_w0(&mut self, s: &str) -> (r: VxOk)
        ensures final(self).t@ == old(self).t@ + s@,
    { unimplemented!() }
    #[verifier::external_body]
    pub fn vx_w1(&mut self, s: &str) -> (r: VxOk)
        ensures final(self).t@ == old(self).t@ + s@,
    { unimplemented!() }
}
