// ---- stand-ins for entities.rs ----
pub enum Cow<'a> { Borrowed(&'a str), Owned(String) }
impl<'a> View for Cow<'a> {
    type V = Seq<char>;
    open spec fn view(&self) -> Seq<char> { match self { Cow::Borrowed(s) => s@, Cow::Owned(s) => s@ } }
}
pub uninterp spec fn named_entity(e: Seq<char>) -> Option<Seq<char>>;
#[verifier::external_body]
pub fn vx_named_entity(entity: &str) -> (r: Option<Cow<'static>>)
    ensures r.is_some() == named_entity(entity@).is_some(), r.is_some() ==> r.unwrap()@ == named_entity(entity@).unwrap(),
{ unimplemented!() }
#[verifier::external_body]
pub fn vx_string_from_char(c: char) -> (r: String)
    ensures r@ == seq![c],
{ unimplemented!() }
pub open spec fn digit_val(c: char, radix: int) -> int {
    let v = if '0' <= c && c <= '9' { c as int - '0' as int }
        else if 'a' <= c && c <= 'z' { c as int - 'a' as int + 10 }
        else if 'A' <= c && c <= 'Z' { c as int - 'A' as int + 10 } else { -1 };
    if 0 <= v < radix { v } else { -1 }
}
pub open spec fn all_digits(s: Seq<char>, radix: int) -> bool { forall|i: int| 0 <= i < s.len() ==> digit_val(#[trigger] s[i], radix) >= 0 }
pub open spec fn digits_value(s: Seq<char>, radix: int) -> int
    decreases s.len(),
{
    if s.len() == 0 { 0 } else { digits_value(s.drop_last(), radix) * radix + digit_val(s.last(), radix) }
}
#[derive(Debug)]
pub struct VxParseIntError { _x: u8 }
/// stand-in contract of `u32::from_str_radix` (A4); a leading '+' is accepted by std
pub open spec fn radix_body(s: Seq<char>) -> Seq<char> { if s.len() > 0 && s[0] == '+' { s.skip(1) } else { s } }
#[verifier::external_body]
pub fn vx_u32_from_str_radix(s: &str, radix: u32) -> (r: Result<u32, VxParseIntError>)
    requires radix == 10 || radix == 16,
    ensures
        r.is_ok() == (radix_body(s@).len() > 0 && all_digits(radix_body(s@), radix as int) && digits_value(radix_body(s@), radix as int) <= u32::MAX),
        r.is_ok() ==> r.unwrap() as int == digits_value(radix_body(s@), radix as int),
{ unimplemented!() }
