// ---- stand-ins for stringify/mod.rs ----
#[derive(Debug)]
pub struct VxFmtError { _x: u8 }
pub struct VxOut { pub t: Ghost<Seq<char>> }
impl VxOut {
    #[verifier::external_body]
    pub fn write_str(&mut self, s: &str) -> (r: Result<(), VxFmtError>)
        ensures r.is_ok(), final(self).t@ == old(self).t@ + s@,
    { unimplemented!() }
}
pub struct SmEntry { pub dst_line: u32, pub dst_col: u32, pub src_line: u32, pub src_col: u32, pub source: Option<Seq<char>>, pub name: Option<Seq<char>> }
pub struct SourceMapBuilder { pub entries: Ghost<Seq<SmEntry>> }
pub open spec fn ostr(o: Option<&str>) -> Option<Seq<char>> { match o { Some(s) => Some(s@), None => None } }
impl SourceMapBuilder {
    #[verifier::external_body]
    pub fn add(&mut self, dst_line: u32, dst_col: u32, src_line: u32, src_col: u32, source: Option<&str>, name: Option<&str>)
        ensures final(self).entries@ == old(self).entries@.push(SmEntry { dst_line, dst_col, src_line, src_col, source: ostr(source), name: ostr(name) }),
    { unimplemented!() }
}
