// ---- stand-ins for stringify/mod.rs ----
#[derive(Debug)]
pub struct VxFmtError { _x: u8 }
pub struct VxOut { pub t: Ghost<Seq<char>> }
impl VxOut {
    #[verifier::external_body]
    pub fn write_str(&mut self, s: &str) -> (r: Result<(), VxFmtError>)
        ensures r.is_ok(), final(self).t@ == old(self).t@ + s@,
    { unimplemented!() }
}
pub struct SmEntry { pub dst_line: u32, pub dst_col: u32, pub src_line: u32, pub src_col: u32, pub source: Option<Seq<char>>, pub name: Option<Seq<char>> }
pub struct SourceMapBuilder { pub entries: Ghost<Seq<SmEntry>> }
pub open spec fn ostr(o: Option<&str>) -> Option<Seq<char>> { match o { Some(s) => Some(s@), None => None } }
impl SourceMapBuilder {
    #[verifier::external_body]
    pub fn add(&mut self, dst_line: u32, dst_col: u32, src_line: u32, src_col: u32, source: Option<&str>, name: Option<&str>)
        ensures final(self).entries@ == old(self).entries@.push(SmEntry { dst_line, dst_col, src_line, src_col, source: ostr(source), name: ostr(name) }),
    { unimplemented!() }
}
/// decimal digits of n, most significant first
pub open spec fn dec_digits(n: nat) -> Seq<char>
    decreases n,
{
    if n < 10 { seq![(('0' as u8) + (n as u8)) as char] } else { dec_digits(n / 10).push((('0' as u8) + ((n % 10) as u8)) as char) }
}
/// `format!("_${}", i)`
#[verifier::external_body]
pub fn vx_fmt_mangled(i: usize) -> (r: String)
    ensures r@ == seq!['_', '$'] + dec_digits(i as nat),
{ unimplemented!() }
/// String -> CompactString (`.into()`)
#[verifier::external_body]
pub fn vx_into_compact(s: String) -> (r: CompactString)
    ensures r@ == s@,
{ unimplemented!() }
impl Clone for CompactString {
    #[verifier::external_body]
    fn clone(&self) -> (r: Self)
        ensures r@ == self@,
    { unimplemented!() }
}
impl CompactString {
    #[verifier::external_body]
    pub fn as_str(&self) -> (r: &str)
        ensures r@ == self@,
    { unimplemented!() }
}
/// escape.rs escape_html_quote (regex based; uninterpreted here)
pub uninterp spec fn esc_quote(s: Seq<char>) -> Seq<char>;
#[verifier::external_body]
pub fn escape_html_quote(s: &str) -> (r: String)
    ensures r@ == esc_quote(s@),
{ unimplemented!() }
