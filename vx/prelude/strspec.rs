// ---- assumed specifications of `str` primitives (A2). Strings are viewed as Seq<char>; byte offsets are
// ---- related to character indices by the *defined* function `boff` (UTF-8 encoded length of a prefix).
pub open spec fn utf8_len(c: char) -> int {
    if (c as u32) < 0x80 { 1 } else if (c as u32) < 0x800 { 2 } else if (c as u32) < 0x10000 { 3 } else { 4 }
}
pub open spec fn utf16_len(c: char) -> int {
    if (c as u32) < 0x10000 { 1 } else { 2 }
}
/// byte offset of character index `i` in the UTF-8 encoding of `s`
pub open spec fn boff(s: Seq<char>, i: int) -> int
    decreases i,
{
    if i <= 0 { 0 } else { boff(s, i - 1) + utf8_len(s[i - 1]) }
}
/// `b` is a character boundary of `s` (including both ends)
pub open spec fn is_boundary(s: Seq<char>, b: int) -> bool {
    exists|i: int| 0 <= i <= s.len() && boff(s, i) == b
}

pub uninterp spec fn pat_seq<P>(p: P) -> Seq<char>;
#[verifier::external_body]
pub broadcast proof fn axiom_pat_char(c: char)
    ensures #[trigger] pat_seq::<char>(c) == seq![c],
{
}
#[verifier::external_body]
pub broadcast proof fn axiom_pat_str(s: &str)
    ensures #[trigger] pat_seq::<&str>(s) == s@,
{
}
#[verifier::allow(undeclared_external_trait)]
pub assume_specification<P: core::str::pattern::Pattern> [str::starts_with] (s: &str, p: P) -> (r: bool)
    ensures r == pat_seq(p).is_prefix_of(s@);

/// stand-in for `&s[a..]` (rewrite rule R-strop): std panics unless `a` is a character boundary
#[verifier::external_body]
pub fn vx_slice_from<'a>(s: &'a str, a: usize) -> (r: &'a str)
    requires is_boundary(s@, a as int),
    ensures forall|i: int| #![trigger boff(s@, i)] 0 <= i <= s@.len() && boff(s@, i) == a ==> r@ == s@.skip(i),
{
    &s[a..]
}
/// stand-in for `&s[..b]`
#[verifier::external_body]
pub fn vx_slice_to<'a>(s: &'a str, b: usize) -> (r: &'a str)
    requires is_boundary(s@, b as int),
    ensures forall|i: int| #![trigger boff(s@, i)] 0 <= i <= s@.len() && boff(s@, i) == b ==> r@ == s@.take(i),
{
    &s[..b]
}
/// stand-in for `&s[a..b]`
#[verifier::external_body]
pub fn vx_slice<'a>(s: &'a str, a: usize, b: usize) -> (r: &'a str)
    requires is_boundary(s@, a as int), is_boundary(s@, b as int), a <= b,
    ensures forall|i: int, j: int| #![trigger boff(s@, i), boff(s@, j)] 0 <= i <= j <= s@.len() && boff(s@, i) == a && boff(s@, j) == b ==> r@ == s@.subrange(i, j),
{
    &s[a..b]
}
/// eager stand-in for `s.chars()` when it is the iterable of a `for` loop (rewrite rule R-chars)
#[verifier::external_body]
pub fn vx_chars(s: &str) -> (r: Vec<char>)
    ensures r@ == s@,
{
    s.chars().collect()
}

/// ASSUMED (A2): the byte length of a str (vstd: `s.len() == s.spec_bytes().len()`) is the UTF-8 encoded
/// length of its characters
#[verifier::external_body]
pub broadcast proof fn axiom_str_byte_len(s: &str)
    ensures #[trigger] vstd::string::StringSliceAdditionalSpecFns::spec_bytes(s).len() == boff(s@, s@.len() as int),
        vstd::string::StringSliceAdditionalSpecFns::spec_bytes(s).len() <= usize::MAX,
{
}
/// ASSUMED (A4): `char::from_u32` -- Some exactly for Unicode scalar values
pub open spec fn is_scalar(v: int) -> bool { (0 <= v < 0xD800) || (0xE000 <= v <= 0x10FFFF) }
pub assume_specification [char::from_u32] (i: u32) -> (r: Option<char>)
    ensures r.is_some() == is_scalar(i as int), r.is_some() ==> r.unwrap() as u32 == i;
