// ---- stand-ins for the scope analysis of parse/tag.rs (unit ELSCOPE) ----
/// `todo!()`: panics, i.e. never returns
#[verifier::external_body]
pub fn vx_todo()
    ensures false,
{ unimplemented!() }

impl Clone for CompactString {
    #[verifier::external_body]
    fn clone(&self) -> (r: Self)
        ensures r@ == self@,
    { unimplemented!() }
}
#[verifier::external_body]
pub struct Comment { _x: u8 }
#[verifier::external_body]
pub struct UnknownMetaTag { _x: u8 }
#[verifier::external_body]
pub struct BindingMapKeys { _x: u8 }
impl BindingMapKeys {
    #[verifier::external_body]
    pub fn new() -> (r: Self) { unimplemented!() }
}
/// binding_map.rs (contracts proved in unit BMC); here only the frame matters
#[verifier::external_body]
pub struct BindingMapCollector { _x: u8 }
impl BindingMapCollector {
    #[verifier::external_body]
    pub fn disable_all(&mut self) { unimplemented!() }
}
/// the names of a scope stack, innermost last
pub open spec fn names(s: Seq<(CompactString, Range<Position>)>) -> Seq<Seq<char>> {
    Seq::new(s.len(), |i: int| s[i].0@)
}
/// parse/expr.rs Expression, opaque here: `resolved` records the scope stack its identifiers were resolved against
/// (None = convert_scopes has not run on it)
pub struct Expression { pub resolved: Ghost<Option<Seq<Seq<char>>>>, pub bm: Ghost<int> }
impl Expression {
    /// ASSUMED (convert_scopes walks SubExpressionMut, outside Verus): identifiers are looked up in `scopes`,
    /// innermost (last) first -- what this unit pins is WHICH stack each expression is handed
    #[verifier::external_body]
    pub fn convert_scopes(&mut self, scopes: &[(CompactString, Range<Position>)])
        ensures final(self).resolved@ == Some(names(scopes@)), final(self).bm == old(self).bm,
    { unimplemented!() }
    /// contracts proved in unit SCOPES; here: does not touch the resolution record
    #[verifier::external_body]
    pub fn disable_binding_map_keys(&self, bmc: &mut BindingMapCollector)
    { unimplemented!() }
    #[verifier::external_body]
    pub fn collect_binding_map_keys(&self, bmc: &mut BindingMapCollector, bmk: &mut BindingMapKeys)
    { unimplemented!() }
}
impl BindingMapCollector {
    #[verifier::external_body]
    pub fn new() -> (r: Self) { unimplemented!() }
}
