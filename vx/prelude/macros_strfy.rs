// `format!("_${}", i)` -- the mangled scope name of the stringifier (R-fmt): interpreted exactly by the stand-in
#[allow(unused_macros)]
macro_rules! format {
    ("_${}", $a:expr) => { vx_fmt_mangled($a) };
}
