// ---- stand-ins for StrName::parse_next_entity (unit NEXTENT) ----
/// std::borrow::Cow<'a, str>: either a slice of the source or a decoded string
pub enum VxCow<'a> { Borrowed(&'a str), Owned(String) }
impl<'a> VxCow<'a> {
    pub open spec fn view(&self) -> Seq<char> { match self { VxCow::Borrowed(s) => s@, VxCow::Owned(s) => s@ } }
}
pub open spec fn all_ascii(s: Seq<char>) -> bool { forall|i: int| 0 <= i < s.len() ==> (#[trigger] s[i] as u32) < 0x80 }
/// entities.rs `decode`: the contract PROVED in unit ENT (there decode_spec is defined; here it is opaque)
pub uninterp spec fn decode_spec(e: Seq<char>) -> Option<Seq<char>>;
#[verifier::external_body]
pub fn vx_entities_decode(entity: &str) -> (r: Option<VxCow<'static>>)
    requires all_ascii(entity@), entity@.len() >= 1,
    ensures
        r.is_some() == decode_spec(entity@).is_some(),
        r.is_some() ==> r.unwrap().view() == decode_spec(entity@).unwrap(),
{ unimplemented!() }
