// `format!("{} {}", a, b)` -- the import placeholder text (R-fmt): interpreted exactly by the stand-in
#[allow(unused_macros)]
macro_rules! format {
    ("{} {}", $a:expr, $b:expr) => { vx_fmt_space(&$a, &$b) };
}
