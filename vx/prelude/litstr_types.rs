impl CompactString {
    #[verifier::external_body]
    pub fn new_inline(s: &str) -> (r: CompactString)
        ensures r@ == s@,
    { unimplemented!() }
    #[verifier::external_body]
    pub fn push(&mut self, c: char)
        ensures final(self)@ == old(self)@.push(c),
    { unimplemented!() }
}
