// ---- stand-ins for the block converters of lib.rs (unit CSSBLOCK) ----
// One nesting level of the token stream, as StepParser hands it out: comments are skipped (proved in unit STEP), a
// block opener (`{` `[` `(` or a function token) is one item whose content is the nested level `inner` -- cssparser's
// Parser::next* steps over the whole block, parse_nested_block parses exactly that content (A5).
pub use core::ops::Range;
pub struct BItem { pub tok: TokV, pub pos: Position, pub inner: Seq<BItem> }
#[derive(Debug)]
pub struct BasicParseError<'i> { pub _s: &'i str }
pub struct StepParser<'i, 't, 'a> {
    pub items: Ghost<Seq<BItem>>,
    pub cur: Ghost<int>,
    pub _p: core::marker::PhantomData<(&'i u8, &'t u8, &'a u8)>,
}
pub open spec fn first_non_ws(items: Seq<BItem>, c: int) -> int
    decreases items.len() - c,
{
    if c < 0 || c >= items.len() { items.len() as int } else if !(items[c].tok is WhiteSpace) { c } else { first_non_ws(items, c + 1) }
}
impl<'i, 't, 'a> StepParser<'i, 't, 'a> {
    spec fn wf(&self) -> bool { 0 <= self.cur@ <= self.items@.len() }
    /// cssparser::Parser::skip_whitespace, reached through DerefMut
    #[verifier::external_body]
    fn skip_whitespace(&mut self)
        requires old(self).wf(),
        ensures final(self).wf(), final(self).items@ == old(self).items@, final(self).cur@ == first_non_ws(old(self).items@, old(self).cur@),
            old(self).cur@ <= final(self).cur@,
    { unimplemented!() }
    /// StepParser::next_including_whitespace (proved in unit STEP): the next non-comment token with the position it starts at
    #[verifier::external_body]
    fn next_including_whitespace(&mut self) -> (r: Result<StepToken<'i>, BasicParseError<'i>>)
        requires old(self).wf(),
        ensures final(self).wf(), final(self).items@ == old(self).items@,
            old(self).cur@ < old(self).items@.len() ==> r.is_ok() && tokv(r.unwrap().token) == old(self).items@[old(self).cur@].tok
                && r.unwrap().position == old(self).items@[old(self).cur@].pos && final(self).cur@ == old(self).cur@ + 1,
            old(self).cur@ >= old(self).items@.len() ==> r.is_err() && final(self).cur@ == old(self).cur@,
    { unimplemented!() }
    /// StepParser::next (proved in unit STEP): skip whitespace, then the next non-comment token
    #[verifier::external_body]
    fn next(&mut self) -> (r: Result<StepToken<'i>, BasicParseError<'i>>)
        requires old(self).wf(),
        ensures final(self).wf(), final(self).items@ == old(self).items@,
            ({
                let j = first_non_ws(old(self).items@, old(self).cur@);
                &&& j < old(self).items@.len() ==> r.is_ok() && tokv(r.unwrap().token) == old(self).items@[j].tok
                        && r.unwrap().position == old(self).items@[j].pos && final(self).cur@ == j + 1
                &&& j >= old(self).items@.len() ==> r.is_err() && final(self).cur@ == old(self).items@.len()
            }),
    { unimplemented!() }
    /// StepParser::peek (proved in unit STEP): skip whitespace, then look at the next non-comment token without consuming it
    #[verifier::external_body]
    fn peek(&mut self) -> (r: Result<StepToken<'i>, BasicParseError<'i>>)
        requires old(self).wf(),
        ensures final(self).wf(), final(self).items@ == old(self).items@,
            final(self).cur@ == first_non_ws(old(self).items@, old(self).cur@),
            final(self).cur@ < old(self).items@.len() ==> r.is_ok() && tokv(r.unwrap().token) == old(self).items@[final(self).cur@].tok
                    && r.unwrap().position == old(self).items@[final(self).cur@].pos,
            final(self).cur@ >= old(self).items@.len() ==> r.is_err(),
    { unimplemented!() }
    /// cssparser::Parser::is_exhausted (through Deref): true when only whitespace / comments are left in the current block;
    /// the cursor is put back (A5)
    #[verifier::external_body]
    fn is_exhausted(&mut self) -> (r: bool)
        requires old(self).wf(),
        ensures *final(self) == *old(self), r == (first_non_ws(old(self).items@, old(self).cur@) >= old(self).items@.len()),
    { unimplemented!() }
    /// StepParser::position (proved in unit STEP): where the next token starts
    #[verifier::external_body]
    fn position(&self) -> (r: Position)
        ensures self.cur@ < self.items@.len() ==> r == self.items@[self.cur@].pos,
    { unimplemented!() }
    /// cssparser::Parser::new_error_for_next_token (through Deref): looks at the next token and puts the cursor back
    #[verifier::external_body]
    fn new_error_for_next_token(&mut self) -> (r: VxParseErr)
        ensures *final(self) == *old(self),
    { unimplemented!() }
}
pub struct VxParseErr { pub _x: u8 }
impl<'i> CowRcStr<'i> {
    /// str::to_ascii_lowercase through Deref
    #[verifier::external_body]
    fn to_ascii_lowercase(&self) -> (r: String)
        ensures r@ == lower(self@),
    { unimplemented!() }
    /// str::eq_ignore_ascii_case through Deref
    #[verifier::external_body]
    fn eq_ignore_ascii_case(&self, other: &str) -> (r: bool)
        ensures r == (lower(self@) == lower(other@)),
    { unimplemented!() }
}
pub open spec fn is_sign(t: TokV) -> bool { t == TokV::Delim('+') || t == TokV::Delim('-') }
/// `let _ = input.try_parse(|input| { <slice convert_rpx_in_block#lookahead>; Err(()) })`: the slice's contract, and the
/// cursor is put back because the closure returns Err (cssparser try_parse, A5)
#[verifier::external_body]
fn vx_lookahead_sign(input: &mut StepParser, skip: &mut bool)
    requires old(input).wf(),
    ensures *final(input) == *old(input),
        *final(skip) == (*old(skip) && !(old(input).cur@ < old(input).items@.len() && is_sign(old(input).items@[old(input).cur@].tok))),
{ unimplemented!() }
/// what the transformer was asked to do, in order
pub enum Ev {
    /// append_token / append_token_space_preserved
    Tok { tok: TokV, pos: Position, keep_space: bool },
    /// append_nested_block: the opener; append_nested_block_close: the closer handed back by append_nested_block
    Open { tok: TokV, pos: Position },
    Close { tok: TokV, pos: Position },
    /// write_maybe_class_name(name, in_class): prefixes the name iff in_class (proved in unit CSSCLS)
    Name { name: Seq<char>, pos: Position, in_class: bool },
    /// write_maybe_rpx_dimension (proved in units CSSCLS / RPX)
    Dim { tok: TokV, pos: Position },
    /// convert_class_names_and_rpx_in_block over the content of the block just opened
    SelBlock { inner: Seq<BItem> },
    /// convert_rpx_in_block over the content of the block just opened
    ValBlock { inner: Seq<BItem>, in_calc: Option<bool> },
    /// add_warning
    Warn { kind: ParseErrorKind, start: Position, end: Position },
    /// parse_rules over the content of the block just opened (unit CSSATSTEP)
    RuleList { inner: Seq<BItem> },
    /// wrap_at_rule_output: the at-rule's own text goes on / comes off the chain of enclosing at-rules (unit CSSATSTEP)
    WrapBegin { text: Seq<char> },
    WrapEnd,
}
pub open spec fn is_opener(t: TokV) -> bool { t is CurlyBracketBlock || t is SquareBracketBlock || t is ParenthesisBlock || t is Function }
pub open spec fn closer_of(t: TokV) -> TokV {
    match t { TokV::CurlyBracketBlock => TokV::CloseCurlyBracket, TokV::SquareBracketBlock => TokV::CloseSquareBracket, _ => TokV::CloseParenthesis }
}
pub struct StyleSheetTransformer { pub log: Ghost<Seq<Ev>> }
impl StyleSheetTransformer {
    #[verifier::external_body]
    fn append_token(&mut self, token: StepToken, _input: &mut StepParser, src: Option<Token>)
        ensures final(self).log@ == old(self).log@.push(Ev::Tok { tok: tokv(token.token), pos: token.position, keep_space: false }),
            *final(_input) == *old(_input),
    { unimplemented!() }
    #[verifier::external_body]
    fn append_token_space_preserved(&mut self, token: StepToken, _input: &mut StepParser, src: Option<Token>)
        ensures final(self).log@ == old(self).log@.push(Ev::Tok { tok: tokv(token.token), pos: token.position, keep_space: true }),
            *final(_input) == *old(_input),
    { unimplemented!() }
    #[verifier::external_body]
    fn add_warning(&mut self, kind: ParseErrorKind, location: Range<Position>)
        ensures final(self).log@ == old(self).log@.push(Ev::Warn { kind, start: location.start, end: location.end }),
    { unimplemented!() }
    /// proved in unit CSSTR
    #[verifier::external_body]
    fn append_nested_block(&mut self, token: StepToken, _input: &mut StepParser) -> (r: StepToken<'static>)
        requires is_opener(tokv(token.token)),
        ensures final(self).log@ == old(self).log@.push(Ev::Open { tok: tokv(token.token), pos: token.position }),
            tokv(r.token) == closer_of(tokv(token.token)), r.position == token.position,
            *final(_input) == *old(_input),
    { unimplemented!() }
    #[verifier::external_body]
    fn append_nested_block_close(&mut self, close: StepToken<'static>, _input: &mut StepParser)
        ensures final(self).log@ == old(self).log@.push(Ev::Close { tok: tokv(close.token), pos: close.position }),
            *final(_input) == *old(_input),
    { unimplemented!() }
}
#[verifier::external_body]
fn write_maybe_class_name(input: &mut StepParser, ss: &mut StyleSheetTransformer, next: &StepToken, src: &CowRcStr, in_class: bool)
    ensures final(ss).log@ == old(ss).log@.push(Ev::Name { name: src@, pos: next.position, in_class }),
        *final(input) == *old(input),
{ unimplemented!() }
#[verifier::external_body]
fn write_maybe_rpx_dimension(input: &mut StepParser, ss: &mut StyleSheetTransformer, next: &StepToken, has_sign: bool, value: f32, int_value: Option<i32>, unit: &CowRcStr)
    ensures final(ss).log@ == old(ss).log@.push(Ev::Dim { tok: tokv(next.token), pos: next.position }),
        *final(input) == *old(input),
{ unimplemented!() }
pub uninterp spec fn is_math_name(n: Seq<char>) -> bool;
/// proved in unit CSSMATH (ASCII-case-insensitive membership in the list of CSS math functions)
#[verifier::external_body]
fn is_math_function(name: &str) -> (r: bool)
    ensures r == is_math_name(name@),
{ unimplemented!() }
pub struct ConvertOptions { pub in_calc: bool }
pub open spec fn opt_calc(o: Option<ConvertOptions>) -> Option<bool> { match o { Some(c) => Some(c.in_calc), None => None } }
/// the two converters, called on the block whose opener was handed out last: parse_nested_block runs the converter's
/// loop on exactly that block's content and leaves the outer cursor after the block (A5); what the loop does with a
/// level is what this unit proves for the loop bodies
#[verifier::external_body]
fn convert_class_names_and_rpx_in_block(input: &mut StepParser, ss: &mut StyleSheetTransformer)
    requires 0 < old(input).cur@ <= old(input).items@.len(),
    ensures *final(input) == *old(input),
        final(ss).log@ == old(ss).log@.push(Ev::SelBlock { inner: old(input).items@[old(input).cur@ - 1].inner }),
{ unimplemented!() }
#[verifier::external_body]
fn convert_rpx_in_block(input: &mut StepParser, ss: &mut StyleSheetTransformer, convert_options: Option<ConvertOptions>)
    requires 0 < old(input).cur@ <= old(input).items@.len(),
    ensures *final(input) == *old(input),
        final(ss).log@ == old(ss).log@.push(Ev::ValBlock { inner: old(input).items@[old(input).cur@ - 1].inner, in_calc: opt_calc(convert_options) }),
{ unimplemented!() }
impl<'i> StepToken<'i> {
    /// #[derive(Clone)]
    #[verifier::external_body]
    fn clone(&self) -> (r: StepToken<'i>)
        ensures tokv(r.token) == tokv(self.token), r.position == self.position,
    { unimplemented!() }
}
