// ---- stand-ins for Value::parse_data_binding / parse_until_before (unit VALUE) ----
impl CompactString {
    #[verifier::external_body]
    fn new_inline(s: &str) -> (r: CompactString)
        ensures r@ == s@,
    { unimplemented!() }
    #[verifier::external_body]
    fn push_str(&mut self, s: &str)
        ensures final(self)@ == old(self)@ + s@,
    { unimplemented!() }
    #[verifier::external_body]
    fn is_empty(&self) -> (r: bool)
        ensures r == (self@.len() == 0),
    { unimplemented!() }
}
/// parse/expr.rs Expression, reduced to what Value builds: an opaque parsed expression, and the three node kinds the mixed
/// text assembly creates itself (R-type: the real enum has 44 variants; only these are constructed or matched here)
pub struct BindingMapKeys { pub _x: u8 }
