#[allow(unused_macros)]
macro_rules! panic {
    ($($t:tt)*) => { vx_unreachable() };
}
#[allow(unused_macros)]
macro_rules! format {
    (r#"{}"#, $a:expr) => { vx_fmt_id(&$a) };
    ("{}", $a:expr) => { vx_fmt_id(&$a) };
}
