// ---- assumed model of cssparser's Token / CowRcStr as used by lib.rs (A5); abstract value `TokV` ----
pub struct CowRcStr<'i> { pub s: &'i str }
impl<'i> View for CowRcStr<'i> {
    type V = Seq<char>;
    open spec fn view(&self) -> Seq<char> { self.s@ }
}
impl<'i> CowRcStr<'i> {
    #[verifier::external_body]
    pub fn clone(&self) -> (r: CowRcStr<'i>)
        ensures r@ == self@,
    { unimplemented!() }
    /// stand-in for `From<&str> for CowRcStr` (`x.into()`)
    #[verifier::external_body]
    pub fn vx_from(s: &'i str) -> (r: CowRcStr<'i>)
        ensures r@ == s@,
    { unimplemented!() }
    /// stand-in for the Deref coercion `&CowRcStr -> &str`
    #[verifier::external_body]
    pub fn vx_as_str(&self) -> (r: &str)
        ensures r@ == self@,
    { unimplemented!() }
}
pub enum Token<'i> {
    Ident(CowRcStr<'i>),
    AtKeyword(CowRcStr<'i>),
    Function(CowRcStr<'i>),
    Delim(char),
    Dimension { has_sign: bool, value: f32, int_value: Option<i32>, unit: CowRcStr<'i> },
    WhiteSpace(&'i str),
    Comment(&'i str),
    CurlyBracketBlock,
    SquareBracketBlock,
    ParenthesisBlock,
    CloseCurlyBracket,
    CloseSquareBracket,
    CloseParenthesis,
    Semicolon,
    Comma,
    Colon,
    QuotedString(CowRcStr<'i>),
    Other(u32),
}
/// the lifetime-free value of a token
pub enum TokV {
    Ident(Seq<char>), AtKeyword(Seq<char>), Function(Seq<char>), Delim(char),
    Dimension { has_sign: bool, value: f32, int_value: Option<i32>, unit: Seq<char> },
    WhiteSpace(Seq<char>), Comment(Seq<char>),
    CurlyBracketBlock, SquareBracketBlock, ParenthesisBlock, CloseCurlyBracket, CloseSquareBracket, CloseParenthesis, Semicolon, Comma, Colon, QuotedString(Seq<char>), Other(u32),
}
pub open spec fn tokv(t: Token) -> TokV {
    match t {
        Token::Ident(s) => TokV::Ident(s@),
        Token::AtKeyword(s) => TokV::AtKeyword(s@),
        Token::Function(s) => TokV::Function(s@),
        Token::Delim(c) => TokV::Delim(c),
        Token::Dimension { has_sign, value, int_value, unit } => TokV::Dimension { has_sign, value, int_value, unit: unit@ },
        Token::WhiteSpace(s) => TokV::WhiteSpace(s@),
        Token::Comment(s) => TokV::Comment(s@),
        Token::CurlyBracketBlock => TokV::CurlyBracketBlock,
        Token::SquareBracketBlock => TokV::SquareBracketBlock,
        Token::ParenthesisBlock => TokV::ParenthesisBlock,
        Token::CloseCurlyBracket => TokV::CloseCurlyBracket,
        Token::CloseSquareBracket => TokV::CloseSquareBracket,
        Token::CloseParenthesis => TokV::CloseParenthesis,
        Token::Semicolon => TokV::Semicolon,
        Token::Comma => TokV::Comma,
        Token::Colon => TokV::Colon,
        Token::QuotedString(s) => TokV::QuotedString(s@),
        Token::Other(k) => TokV::Other(k),
    }
}
impl<'i> Token<'i> {
    #[verifier::external_body]
    pub fn clone(&self) -> (r: Token<'i>)
        ensures tokv(r) == tokv(*self),
    { unimplemented!() }
}
/// one call of append_token / append_token_space_preserved on the current output
pub struct Emit { pub tok: TokV, pub pos: Position, pub src: Option<TokV>, pub keep_space: bool }
