// ---- positions of text: lines, UTF-16 columns, UTF-8 byte offsets (pure lemmas shared by PSCORE and STRFYPOS) ----
spec fn adv_line(line: int, t: Seq<char>) -> int
    decreases t.len(),
{
    if t.len() == 0 { line } else { adv_line(if t[0] == '\n' { line + 1 } else { line }, t.skip(1)) }
}

spec fn adv_col(col: int, t: Seq<char>) -> int
    decreases t.len(),
{
    if t.len() == 0 { col } else { adv_col(if t[0] == '\n' { 0 } else { col + utf16_len(t[0]) }, t.skip(1)) }
}

proof fn lemma_boff_lt(s: Seq<char>, i: int, j: int)
    requires 0 <= i < j,
    ensures boff(s, i) < boff(s, j),
    decreases j,
{
    if j - 1 > i { lemma_boff_lt(s, i, j - 1); }
}

proof fn lemma_boff_inj(s: Seq<char>, i: int, j: int)
    requires 0 <= i, 0 <= j, boff(s, i) == boff(s, j),
    ensures i == j,
{
    if i < j { lemma_boff_lt(s, i, j); } else if j < i { lemma_boff_lt(s, j, i); }
}

proof fn lemma_boff_skip(s: Seq<char>, a: int, k: int)
    requires 0 <= a, 0 <= k, a + k <= s.len(),
    ensures boff(s.skip(a), k) == boff(s, a + k) - boff(s, a),
    decreases k,
{
    if k > 0 { lemma_boff_skip(s, a, k - 1); }
}

proof fn lemma_boff_take(s: Seq<char>, n: int, k: int)
    requires 0 <= k <= n <= s.len(),
    ensures boff(s.take(n), k) == boff(s, k),
    decreases k,
{
    if k > 0 { lemma_boff_take(s, n, k - 1); }
}

proof fn lemma_count_split(a: Seq<char>, b: Seq<char>)
    ensures count_nl(a + b) == count_nl(a) + count_nl(b), u16len(a + b) == u16len(a) + u16len(b), count_nl(b) >= 0, u16len(b) >= 0,
    decreases b.len(),
{
    if b.len() == 0 { assert(a + b =~= a); } else {
        assert((a + b).drop_last() =~= a + b.drop_last());
        lemma_count_split(a, b.drop_last());
    }
}

proof fn lemma_adv_push(line: int, col: int, t: Seq<char>, c: char)
    ensures
        adv_line(line, t.push(c)) == (if c == '\n' { adv_line(line, t) + 1 } else { adv_line(line, t) }),
        adv_col(col, t.push(c)) == (if c == '\n' { 0 } else { adv_col(col, t) + utf16_len(c) }),
    decreases t.len(),
{
    if t.len() == 0 {
        reveal_with_fuel(adv_line, 2);
        reveal_with_fuel(adv_col, 2);
        assert(t.push(c).skip(1) =~= Seq::<char>::empty());
    } else {
        assert(t.push(c).skip(1) =~= t.skip(1).push(c));
        lemma_adv_push(if t[0] == '\n' { line + 1 } else { line }, if t[0] == '\n' { 0 } else { col + utf16_len(t[0]) }, t.skip(1), c);
    }
}

/// closed form of the position after a text: lines are counted, the column restarts after the last newline
proof fn lemma_adv_closed(line: int, col: int, t: Seq<char>)
    ensures
        adv_line(line, t) == line + count_nl(t),
        last_nl(t) < 0 ==> adv_col(col, t) == col + u16len(t) && count_nl(t) == 0,
        last_nl(t) >= 0 ==> adv_col(col, t) == u16len(t.skip(last_nl(t) + 1)) && count_nl(t) > 0 && last_nl(t) < t.len(),
        count_nl(t) >= 0,
    decreases t.len(),
{
    if t.len() > 0 {
        let p = t.drop_last();
        let c = t.last();
        lemma_adv_closed(line, col, p);
        assert(p.push(c) =~= t);
        lemma_adv_push(line, col, p, c);
        if c == '\n' {
            assert(t.skip(t.len() as int) =~= Seq::<char>::empty());
        } else if last_nl(p) >= 0 {
            assert(t.skip(last_nl(p) + 1).drop_last() =~= p.skip(last_nl(p) + 1));
        }
    }
}

proof fn lemma_boff_le(s: Seq<char>, i: int, j: int)
    requires 0 <= i <= j,
    ensures boff(s, i) <= boff(s, j), 0 <= boff(s, i),
    decreases j,
{
    if i < j { lemma_boff_le(s, i, j - 1); } else if i > 0 { lemma_boff_le(s, i - 1, i - 1); }
}

/// the piece after its last newline
proof fn lemma_last_line(sk: Seq<char>)
    requires last_nl(sk) >= 0,
    ensures ({
        let l = last_nl(sk);
        &&& 0 <= l < sk.len() && sk[l] == '\n'
        &&& boff(sk, l + 1) == boff(sk, l) + 1
        &&& boff(sk, l + 1) <= boff(sk, sk.len() as int)
        &&& forall|i: int| 0 <= i <= sk.len() && boff(sk, i) == boff(sk, l) + 1 ==> i == l + 1
        &&& u16len(sk.skip(l + 1)) <= u16len(sk) && u16len(sk.skip(l + 1)) >= 0
    }),
    decreases sk.len(),
{
    let l = last_nl(sk);
    lemma_last_nl_props(sk);
    lemma_boff_le(sk, l + 1, sk.len() as int);
    assert forall|i: int| 0 <= i <= sk.len() && boff(sk, i) == boff(sk, l) + 1 implies i == l + 1 by { lemma_boff_inj(sk, i, l + 1); }
    assert(sk =~= sk.take(l + 1) + sk.skip(l + 1));
    lemma_count_split(sk.take(l + 1), sk.skip(l + 1));
    lemma_count_split(Seq::<char>::empty(), sk.take(l + 1));
    assert(Seq::<char>::empty() + sk.take(l + 1) =~= sk.take(l + 1));
}

proof fn lemma_last_nl_props(sk: Seq<char>)
    requires last_nl(sk) >= 0,
    ensures 0 <= last_nl(sk) < sk.len(), sk[last_nl(sk)] == '\n',
    decreases sk.len(),
{
    if sk.len() > 0 && sk.last() != '\n' { lemma_last_nl_props(sk.drop_last()); }
}

proof fn lemma_adv_split(line: int, col: int, a: Seq<char>, b: Seq<char>)
    ensures
        adv_line(line, a + b) == adv_line(adv_line(line, a), b),
        adv_col(col, a + b) == adv_col(adv_col(col, a), b),
    decreases a.len(),
{
    if a.len() == 0 {
        assert(a + b =~= b);
    } else {
        assert((a + b).skip(1) =~= a.skip(1) + b);
        lemma_adv_split(if a[0] == '\n' { line + 1 } else { line }, if a[0] == '\n' { 0 } else { col + utf16_len(a[0]) }, a.skip(1), b);
    }
}

proof fn lemma_boff_prefix(a: Seq<char>, b: Seq<char>, i: int)
    requires 0 <= i <= a.len(), i <= b.len(), a.take(i) == b.take(i),
    ensures boff(a, i) == boff(b, i),
    decreases i,
{
    if i > 0 {
        assert(a.take(i - 1) =~= a.take(i).take(i - 1));
        assert(b.take(i - 1) =~= b.take(i).take(i - 1));
        assert(a[i - 1] == a.take(i)[i - 1]);
        assert(b[i - 1] == b.take(i)[i - 1]);
        lemma_boff_prefix(a, b, i - 1);
    }
}

/// a string that is a prefix of the remaining text ends on a character boundary of it, at its own byte length
proof fn lemma_prefix_boundary(s: Seq<char>, r: Seq<char>)
    requires s.is_prefix_of(r),
    ensures boff(r, s.len() as int) == boff(s, s.len() as int), is_boundary(r, boff(s, s.len() as int)), s.len() <= r.len(), r.take(s.len() as int) == s,
{
    assert(r.take(s.len() as int) =~= s) by { assert(s =~= r.subrange(0, s.len() as int)); }
    assert(s.take(s.len() as int) =~= s);
    lemma_boff_prefix(r, s, s.len() as int);
}
