// ---- ParseState as seen by the scanner units: an abstract cursor over the source text. ----
// ---- Every method contract below is ASSUMED in the scanner units; unit PSCORE is where the real
// ---- `ParseState` methods are checked against (a subset of) these contracts.
spec fn is_tws(c: char) -> bool {
    c == ' ' || ('\u{9}' <= c && c <= '\u{d}')
}
/// first index >= i that is not template whitespace
spec fn skip_ws(s: Seq<char>, i: int) -> int
    decreases s.len() - i,
{
    if i < 0 || i >= s.len() { s.len() as int } else if is_tws(s[i]) { skip_ws(s, i + 1) } else { i }
}
/// index of the first `*/` at or after i, or -1
spec fn find_comment_end(s: Seq<char>, i: int) -> int
    decreases s.len() - i,
{
    if i < 0 || i + 1 >= s.len() { -1 } else if s[i] == '*' && s[i + 1] == '/' { i } else { find_comment_end(s, i + 1) }
}
/// where `skip_whitespace_with_js_comments` stops
spec fn skip_ws_js(s: Seq<char>, i: int) -> int
    decreases s.len() - i,
{
    if i < 0 || i >= s.len() { s.len() as int } else {
        let j = skip_ws(s, i);
        if j < i || j >= s.len() { s.len() as int }
        else if j + 1 < s.len() && s[j] == '/' && s[j + 1] == '*' {
            let k = find_comment_end(s, j + 2);
            if k < j + 2 || k + 2 > s.len() { s.len() as int } else { skip_ws_js(s, k + 2) }
        } else { j }
    }
}
/// position after reading text `t` from (line, col): newline resets the column, other characters
/// advance it by their UTF-16 length
spec fn adv_line(line: int, t: Seq<char>) -> int
    decreases t.len(),
{
    if t.len() == 0 { line } else { adv_line(if t[0] == '\n' { line + 1 } else { line }, t.skip(1)) }
}
spec fn adv_col(col: int, t: Seq<char>) -> int
    decreases t.len(),
{
    if t.len() == 0 { col } else { adv_col(if t[0] == '\n' { 0 } else { col + utf16_len(t[0]) }, t.skip(1)) }
}
/// first index >= i at which `u` occurs in `s`, or -1
spec fn find_from(s: Seq<char>, u: Seq<char>, i: int) -> int
    decreases s.len() - i,
{
    if i < 0 || i > s.len() { -1 } else if u.is_prefix_of(s.skip(i)) { i } else if i == s.len() { -1 } else { find_from(s, u, i + 1) }
}
proof fn lemma_find_from(s: Seq<char>, u: Seq<char>, i: int)
    requires 0 <= i <= s.len(),
    ensures find_from(s, u, i) == -1 || (i <= find_from(s, u, i) && find_from(s, u, i) + u.len() <= s.len()),
    decreases s.len() - i,
{
    if !u.is_prefix_of(s.skip(i)) && i < s.len() { lemma_find_from(s, u, i + 1); }
}
spec fn pos_le(a: Position, b: Position) -> bool {
    a.line < b.line || (a.line == b.line && a.utf16_col <= b.utf16_col)
}

pub struct Warning { pub kind: ParseErrorKind, pub start: Position, pub end: Position }

pub struct ParseState<'s> {
    pub whole_str: &'s str,
    pub idx: Ghost<int>,
    pub line: u32,
    pub utf16_col: u32,
    pub auto: Ghost<int>,
    pub warnings: Ghost<Seq<Warning>>,
}

impl<'s> ParseState<'s> {
    spec fn src(&self) -> Seq<char> { self.whole_str@ }
    spec fn wf(&self) -> bool { 0 <= self.idx@ <= self.src().len() && (self.auto@ == 0 || self.auto@ == 1) }
    spec fn pos(&self) -> Position { Position { line: self.line, utf16_col: self.utf16_col } }
    /// where the cursor is after the automatic whitespace skipping that `next`/`peek*`/`consume_str` do first
    spec fn auto_idx(&self) -> int { if self.auto@ == 1 { skip_ws_js(self.src(), self.idx@) } else { self.idx@ } }
    /// the cursor moved from `old` to character index j: same text, same mode, same warnings, position advanced over the text in between
    spec fn moved_to(&self, old: &Self, j: int) -> bool {
        &&& self.wf()
        &&& self.whole_str == old.whole_str
        &&& self.auto@ == old.auto@
        &&& self.warnings@ == old.warnings@
        &&& self.idx@ == j
        &&& old.idx@ <= j <= old.src().len()
        &&& self.line as int == adv_line(old.line as int, old.src().subrange(old.idx@, j))
        &&& self.utf16_col as int == adv_col(old.utf16_col as int, old.src().subrange(old.idx@, j))
        // (consequence of the two lines above by lemma_adv_monotone, stated for convenience) positions never go backwards
        &&& pos_le(old.pos(), self.pos())
    }

    #[verifier::external_body]
    fn next(&mut self) -> (r: Option<char>)
        requires old(self).wf(),
        ensures
            old(self).auto_idx() < old(self).src().len() ==> r == Some(old(self).src()[old(self).auto_idx()]) && final(self).moved_to(old(self), old(self).auto_idx() + 1),
            old(self).auto_idx() >= old(self).src().len() ==> r.is_none() && final(self).moved_to(old(self), old(self).src().len() as int),
    { unimplemented!() }

    /// the next character as a slice of the source, without automatic whitespace skipping (proved in PSCORE)
    #[verifier::external_body]
    fn next_char_as_str(&mut self) -> (r: &'s str)
        requires old(self).wf(),
        ensures
            old(self).idx@ < old(self).src().len() ==> r@ == old(self).src().subrange(old(self).idx@, old(self).idx@ + 1) && final(self).moved_to(old(self), old(self).idx@ + 1),
            old(self).idx@ >= old(self).src().len() ==> r@.len() == 0 && *final(self) == *old(self),
    { unimplemented!() }

    #[verifier::external_body]
    fn peek<const I: usize>(&mut self) -> (r: Option<char>)
        requires old(self).wf(),
        ensures
            final(self).moved_to(old(self), old(self).auto_idx()),
            r == (if old(self).auto_idx() + I < old(self).src().len() { Some(old(self).src()[old(self).auto_idx() + I as int]) } else { None }),
    { unimplemented!() }

    #[verifier::external_body]
    fn peek_str(&mut self, s: &str) -> (r: bool)
        requires old(self).wf(),
        ensures
            final(self).moved_to(old(self), old(self).auto_idx()),
            r == s@.is_prefix_of(old(self).src().skip(old(self).auto_idx())),
    { unimplemented!() }

    #[verifier::external_body]
    fn consume_str(&mut self, s: &str) -> (r: Option<Range<Position>>)
        requires old(self).wf(),
        ensures
            s@.is_prefix_of(old(self).src().skip(old(self).auto_idx())) ==> r.is_some()
                && final(self).moved_to(old(self), old(self).auto_idx() + s@.len())
                && r.unwrap().end == final(self).pos()
                && r.unwrap().start.line as int == adv_line(old(self).line as int, old(self).src().subrange(old(self).idx@, old(self).auto_idx()))
                && r.unwrap().start.utf16_col as int == adv_col(old(self).utf16_col as int, old(self).src().subrange(old(self).idx@, old(self).auto_idx())),
            !s@.is_prefix_of(old(self).src().skip(old(self).auto_idx())) ==> r.is_none() && final(self).moved_to(old(self), old(self).auto_idx()),
    { unimplemented!() }

    #[verifier::external_body]
    fn position(&self) -> (r: Position)
        ensures r == self.pos(),
    { unimplemented!() }

    #[verifier::external_body]
    fn cur_index(&self) -> (r: usize)
        requires self.wf(),
        ensures r as int == boff(self.src(), self.idx@),
    { unimplemented!() }

    #[verifier::external_body]
    fn code_slice(&self, range: Range<usize>) -> (r: &'s str)
        requires self.wf(), range.start <= range.end, is_boundary(self.src(), range.start as int), is_boundary(self.src(), range.end as int),
        ensures forall|i: int, j: int| 0 <= i <= j <= self.src().len() && boff(self.src(), i) == range.start && boff(self.src(), j) == range.end ==> r@ == self.src().subrange(i, j),
    { unimplemented!() }

    #[verifier::external_body]
    fn ended(&self) -> (r: bool)
        requires self.wf(),
        ensures r == (self.idx@ == self.src().len()),
    { unimplemented!() }

    /// C15/C16: a diagnostic location must be ordered -- checked at every call site of every scanner
    #[verifier::external_body]
    fn add_warning(&mut self, kind: ParseErrorKind, location: Range<Position>)
        requires old(self).wf(), pos_le(location.start, location.end),
        ensures
            final(self).warnings@ == old(self).warnings@.push(Warning { kind, start: location.start, end: location.end }),
            final(self).whole_str == old(self).whole_str, final(self).idx@ == old(self).idx@, final(self).line == old(self).line,
            final(self).utf16_col == old(self).utf16_col, final(self).auto@ == old(self).auto@, final(self).wf(),
            // (consequence of the push, stated for convenience) warnings are only ever appended
            forall|a: Seq<Warning>| #[trigger] a.is_prefix_of(old(self).warnings@) ==> a.is_prefix_of(final(self).warnings@),
    { unimplemented!() }

    #[verifier::external_body]
    fn add_warning_at_current_position(&mut self, kind: ParseErrorKind)
        requires old(self).wf(),
        ensures
            final(self).warnings@ == old(self).warnings@.push(Warning { kind, start: old(self).pos(), end: old(self).pos() }),
            final(self).whole_str == old(self).whole_str, final(self).idx@ == old(self).idx@, final(self).line == old(self).line,
            final(self).utf16_col == old(self).utf16_col, final(self).auto@ == old(self).auto@, final(self).wf(),
            // (consequence of the push, stated for convenience) warnings are only ever appended
            forall|a: Seq<Warning>| #[trigger] a.is_prefix_of(old(self).warnings@) ==> a.is_prefix_of(final(self).warnings@),
    { unimplemented!() }

    #[verifier::external_body]
    fn skip_whitespace(&mut self) -> (r: Option<Range<Position>>)
        requires old(self).wf(),
        ensures
            final(self).moved_to(old(self), skip_ws(old(self).src(), old(self).idx@)),
            r.is_some() == (skip_ws(old(self).src(), old(self).idx@) > old(self).idx@),
            r.is_some() ==> r.unwrap().start == old(self).pos() && r.unwrap().end == final(self).pos(),
    { unimplemented!() }

    /// whitespace and /* */ comments (proved in PSCORE)
    #[verifier::external_body]
    fn skip_whitespace_with_js_comments(&mut self) -> (r: Option<Range<Position>>)
        requires old(self).wf(),
        ensures
            final(self).moved_to(old(self), skip_ws_js(old(self).src(), old(self).idx@)),
            r.is_some() == (skip_ws_js(old(self).src(), old(self).idx@) > old(self).idx@),
            r.is_some() ==> r.unwrap().start == old(self).pos() && r.unwrap().end == final(self).pos(),
    { unimplemented!() }

    /// up to (not including) the first occurrence of `until`, or to the end (proved in PSCORE)
    #[verifier::external_body]
    fn skip_until_before(&mut self, until: &str) -> (r: Option<&'s str>)
        requires old(self).wf(),
        ensures ({
            let k = find_from(old(self).src(), until@, old(self).idx@);
            &&& (k >= 0 ==> final(self).moved_to(old(self), k) && (r matches Some(x) && x@ == old(self).src().subrange(old(self).idx@, k)))
            &&& (k < 0 ==> final(self).moved_to(old(self), old(self).src().len() as int) && r.is_none())
        }),
    { unimplemented!() }

    #[verifier::external_body]
    fn skip_until_after(&mut self, until: &str) -> (r: Option<&'s str>)
        requires old(self).wf(),
        ensures ({
            let k = find_from(old(self).src(), until@, old(self).idx@);
            &&& (k >= 0 ==> final(self).moved_to(old(self), k + until@.len()) && (r matches Some(x) && x@ == old(self).src().subrange(old(self).idx@, k)))
            &&& (k < 0 ==> final(self).moved_to(old(self), old(self).src().len() as int) && r.is_none())
        }),
    { unimplemented!() }

    /// runs `f` with automatic whitespace skipping switched off and restores the previous mode
    #[verifier::external_body]
    fn parse_off_auto_whitespace<T>(&mut self, f: impl FnOnce(&mut Self) -> T) -> (r: T)
        requires
            old(self).wf(),
            forall|p: &mut Self| (*p == ParseState { auto: Ghost(0int), ..*old(self) }) ==> f.requires((p,)),
        ensures
            exists|p: &mut Self| *p == (ParseState { auto: Ghost(0int), ..*old(self) }) && f.ensures((p,), r)
                && *final(self) == (ParseState { auto: old(self).auto, ..*final(p) }),
    { unimplemented!() }

    /// runs `f`; if it returns None the cursor (index, line, column TOGETHER) is put back, warnings are kept
    #[verifier::external_body]
    fn try_parse<T>(&mut self, f: impl FnOnce(&mut Self) -> Option<T>) -> (r: Option<T>)
        requires
            old(self).wf(),
            forall|p: &mut Self| (*p == *old(self)) ==> f.requires((p,)),
        ensures
            exists|p: &mut Self| *p == *old(self) && f.ensures((p,), r)
                && (r.is_some() ==> *final(self) == *final(p))
                && (r.is_none() ==> *final(self) == (ParseState { idx: old(self).idx, line: old(self).line, utf16_col: old(self).utf16_col, ..*final(p) })),
    { unimplemented!() }
}

// ---- proved facts about positions ----
proof fn lemma_adv_split(line: int, col: int, a: Seq<char>, b: Seq<char>)
    ensures
        adv_line(line, a + b) == adv_line(adv_line(line, a), b),
        adv_col(col, a + b) == adv_col(adv_col(col, a), b),
    decreases a.len(),
{
    if a.len() == 0 {
        assert(a + b =~= b);
    } else {
        assert((a + b).skip(1) =~= a.skip(1) + b);
        lemma_adv_split(if a[0] == '\n' { line + 1 } else { line }, if a[0] == '\n' { 0 } else { col + utf16_len(a[0]) }, a.skip(1), b);
    }
}
/// reading text never moves the position backwards
proof fn lemma_adv_monotone(line: int, col: int, t: Seq<char>)
    requires col >= 0,
    ensures
        adv_line(line, t) > line || (adv_line(line, t) == line && adv_col(col, t) >= col),
        adv_col(col, t) >= 0,
    decreases t.len(),
{
    if t.len() > 0 {
        lemma_adv_monotone(if t[0] == '\n' { line + 1 } else { line }, if t[0] == '\n' { 0 } else { col + utf16_len(t[0]) }, t.skip(1));
    }
}
proof fn lemma_skip_ws_ge(s: Seq<char>, i: int)
    requires 0 <= i <= s.len(),
    ensures i <= skip_ws(s, i) <= s.len(),
    decreases s.len() - i,
{
    if i < s.len() && is_tws(s[i]) { lemma_skip_ws_ge(s, i + 1); }
}
proof fn lemma_find_comment_end(s: Seq<char>, i: int)
    requires 0 <= i,
    ensures find_comment_end(s, i) == -1 || (i <= find_comment_end(s, i) && find_comment_end(s, i) + 1 < s.len()),
    decreases s.len() - i,
{
    if i + 1 < s.len() && !(s[i] == '*' && s[i + 1] == '/') { lemma_find_comment_end(s, i + 1); }
}
/// automatic whitespace skipping never moves the cursor backwards or past the end
proof fn lemma_skip_ws_js_ge(s: Seq<char>, i: int)
    requires 0 <= i <= s.len(),
    ensures i <= skip_ws_js(s, i) <= s.len(),
    decreases s.len() - i,
{
    if i < s.len() {
        lemma_skip_ws_ge(s, i);
        let j = skip_ws(s, i);
        if j < s.len() && j + 1 < s.len() && s[j] == '/' && s[j + 1] == '*' {
            lemma_find_comment_end(s, j + 2);
            let k = find_comment_end(s, j + 2);
            if k >= j + 2 && k + 2 <= s.len() { lemma_skip_ws_js_ge(s, k + 2); }
        }
    }
}
/// two consecutive moves are one move
proof fn lemma_moved_trans(a: &ParseState, b: &ParseState, c: &ParseState, j: int, k: int)
    requires a.wf(), b.moved_to(a, j), c.moved_to(b, k),
    ensures c.moved_to(a, k),
{
    let s = a.src();
    assert(s.subrange(a.idx@, k) =~= s.subrange(a.idx@, j) + s.subrange(j, k));
    lemma_adv_split(a.line as int, a.utf16_col as int, s.subrange(a.idx@, j), s.subrange(j, k));
    lemma_adv_monotone(a.line as int, a.utf16_col as int, s.subrange(a.idx@, k));
}
proof fn lemma_moved_refl(a: &ParseState)
    requires a.wf(),
    ensures a.moved_to(a, a.idx@),
{
    assert(a.src().subrange(a.idx@, a.idx@) =~= Seq::<char>::empty());
}
