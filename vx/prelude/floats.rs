// ---- ASSUMED (A8): Rust floating point arithmetic never panics; its results are uninterpreted here ----
#[verifier::external_body]
pub broadcast proof fn axiom_f64_mul_total(a: f64, b: f64)
    ensures #[trigger] vstd::std_specs::ops::MulSpec::mul_req(a, b),
{
}
#[verifier::external_body]
pub broadcast proof fn axiom_f64_add_total(a: f64, b: f64)
    ensures #[trigger] vstd::std_specs::ops::AddSpec::add_req(a, b),
{
}
pub broadcast group group_float_total { axiom_f64_mul_total, axiom_f64_add_total }

/// the same two facts, quantified, for use inside closures (where `broadcast use` of the enclosing function does not reach)
#[verifier::external_body]
pub proof fn axiom_f64_ops_total()
    ensures
        forall|a: f64, b: f64| #[trigger] vstd::std_specs::ops::MulSpec::mul_req(a, b),
        forall|a: f64, b: f64| #[trigger] vstd::std_specs::ops::AddSpec::add_req(a, b),
{
}
