// `write!(w, "lit")` / `write!(w, "{}", x)` of JsTopScopeWriter::finish (R-fmt): the sink stand-in appends exactly the
// literal or the displayed string
#[allow(unused_macros)]
macro_rules! write {
    ($dst:expr, "{}", $a:expr) => { $dst.vx_w1($a.as_str()) };
    ($dst:expr, $lit:literal) => { $dst.vx_w0($lit) };
}
