// ---- stand-ins around write_maybe_* : the transformer logs what it is asked to append ----
pub struct StepParser { pub _x: u8 }
pub struct StyleSheetTransformer { pub options: StyleSheetOptions, pub emits: Ghost<Seq<Emit>> }
impl StyleSheetTransformer {
    #[verifier::external_body]
    fn append_token(&mut self, token: StepToken, _input: &mut StepParser, src: Option<Token>)
        ensures
            final(self).options == old(self).options,
            final(self).emits@ == old(self).emits@.push(Emit { tok: tokv(token.token), pos: token.position, src: opt_tokv(src), keep_space: false }),
    { unimplemented!() }
    #[verifier::external_body]
    fn append_token_space_preserved(&mut self, token: StepToken, _input: &mut StepParser, src: Option<Token>)
        ensures
            final(self).options == old(self).options,
            final(self).emits@ == old(self).emits@.push(Emit { tok: tokv(token.token), pos: token.position, src: opt_tokv(src), keep_space: true }),
    { unimplemented!() }
}
spec fn opt_tokv(t: Option<Token>) -> Option<TokV> { match t { Some(x) => Some(tokv(x)), None => None } }
impl<'i> StepToken<'i> {
    /// #[derive(Clone)]
    #[verifier::external_body]
    fn clone(&self) -> (r: StepToken<'i>)
        ensures tokv(r.token) == tokv(self.token), r.position == self.position,
    { unimplemented!() }
}
#[verifier::external_body]
fn vx_fmt_dashdash(a: &String, b: &CowRcStr) -> (r: String)
    ensures r@ == a@ + seq!['-', '-'] + b@,
{ unimplemented!() }
