// `write!(&mut self.s, " ")` -- literal-only formats are interpreted exactly (R-fmt)
#[allow(unused_macros)]
macro_rules! write {
    ($dst:expr, $lit:literal) => { vx_write_lit($dst, $lit) };
}
