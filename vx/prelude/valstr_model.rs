// ---- stand-ins for Value::stringify_write (stringify/tag.rs) ----
/// parse::tag::BindingMapKeys is not read by the printer
pub struct BindingMapKeys { _x: u8 }
pub uninterp spec fn esc_body(s: Seq<char>) -> Seq<char>;
/// escape::escape_html_body (regex replace of `<`, `"`, `&` and runs of `{{`): uninterpreted text
#[verifier::external_body]
pub fn escape_html_body(s: &str) -> (r: String)
    ensures r@ == esc_body(s@),
{ unimplemented!() }
pub uninterp spec fn is_tpl_ws(c: char) -> bool;
pub open spec fn blank(s: Seq<char>) -> bool { forall|i: int| 0 <= i < s.len() ==> is_tpl_ws(#[trigger] s[i]) }
/// `s.trim_matches(is_template_whitespace).is_empty()`
#[verifier::external_body]
pub fn vx_is_blank(s: &str) -> (r: bool)
    ensures r == blank(s@),
{ unimplemented!() }
impl CompactString {
    #[verifier::external_body]
    pub fn is_empty(&self) -> (r: bool)
        ensures r == (self@.len() == 0),
    { unimplemented!() }
}
