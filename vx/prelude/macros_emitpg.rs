// `write!` call sites stay verbatim; this local macro shadows std's (R-fmt) and maps each form to a sink method
// (method syntax, so that `String` and `&mut String` destinations auto-reference exactly as with std's `write_fmt`)
#[allow(unused_macros)]
macro_rules! write {
    ($dst:expr, $fmt:literal) => { $dst.vx_w0($fmt) };
    ($dst:expr, $fmt:literal, ident = $a:expr) => { $dst.vx_w1n($fmt, &$a) };
    ($dst:expr, $fmt:literal, $a:expr) => { $dst.vx_w1($fmt, &$a) };
    ($dst:expr, $fmt:literal, $a:expr, $b:expr) => { $dst.vx_w2($fmt, &$a, &$b) };
}
