// ---- stand-ins for proc_gen/expr.rs ----
#[derive(Debug)]
pub struct TmplError { _x: u8 }
impl CompactString {
    #[verifier::external_body]
    pub fn clone(&self) -> (r: CompactString)
        ensures r@ == self@,
    { unimplemented!() }
}
pub uninterp spec fn js_lit(s: Seq<char>) -> Seq<char>;
pub uninterp spec fn lit_float(x: f64) -> Seq<char>;
pub uninterp spec fn display_i64(v: i64) -> Seq<char>;
/// escape::gen_lit_str (verified in unit JSLIT) -- takes the CompactString by Deref coercion
#[verifier::external_body]
pub fn gen_lit_str(s: &CompactString) -> (r: String)
    ensures r@ == js_lit(s@),
{ unimplemented!() }
#[verifier::external_body]
pub fn gen_lit_float(x: f64) -> (r: String)
    ensures r@ == lit_float(x),
{ unimplemented!() }

/// what `{}` prints for a value (std::fmt::Display)
pub trait VxDisp { spec fn disp(&self) -> Seq<char>; }
impl VxDisp for String { open spec fn disp(&self) -> Seq<char> { self@ } }
impl VxDisp for CompactString { open spec fn disp(&self) -> Seq<char> { self@ } }
impl VxDisp for i64 { open spec fn disp(&self) -> Seq<char> { display_i64(*self) } }
impl VxDisp for bool { open spec fn disp(&self) -> Seq<char> { if *self { "true"@ } else { "false"@ } } }
impl<T: VxDisp> VxDisp for &T { open spec fn disp(&self) -> Seq<char> { (**self).disp() } }

/// text of a format string without placeholders (`{{`/`}}` are escapes), and interpolation of one / two / a repeated named argument
pub uninterp spec fn fmt0(f: Seq<char>) -> Seq<char>;
pub uninterp spec fn fmt1(f: Seq<char>, a: Seq<char>) -> Seq<char>;
pub uninterp spec fn fmt2(f: Seq<char>, a: Seq<char>, b: Seq<char>) -> Seq<char>;
pub uninterp spec fn fmt1n(f: Seq<char>, a: Seq<char>) -> Seq<char>;

pub trait VxSink {
    spec fn text(&self) -> Seq<char>;
    fn vx_w0(&mut self, f: &str) -> (r: Result<(), TmplError>)
        ensures r.is_ok(), final(self).text() == old(self).text() + fmt0(f@);
    fn vx_w1<A: VxDisp>(&mut self, f: &str, a: &A) -> (r: Result<(), TmplError>)
        ensures r.is_ok(), final(self).text() == old(self).text() + fmt1(f@, a.disp());
    fn vx_w1n<A: VxDisp>(&mut self, f: &str, a: &A) -> (r: Result<(), TmplError>)
        ensures r.is_ok(), final(self).text() == old(self).text() + fmt1n(f@, a.disp());
    fn vx_w2<A: VxDisp, B: VxDisp>(&mut self, f: &str, a: &A, b: &B) -> (r: Result<(), TmplError>)
        ensures r.is_ok(), final(self).text() == old(self).text() + fmt2(f@, a.disp(), b.disp());
}
impl VxSink for String {
    open spec fn text(&self) -> Seq<char> { self@ }
    #[verifier::external_body]
    fn vx_w0(&mut self, f: &str) -> (r: Result<(), TmplError>) { unimplemented!() }
    #[verifier::external_body]
    fn vx_w1<A: VxDisp>(&mut self, f: &str, a: &A) -> (r: Result<(), TmplError>) { unimplemented!() }
    #[verifier::external_body]
    fn vx_w1n<A: VxDisp>(&mut self, f: &str, a: &A) -> (r: Result<(), TmplError>) { unimplemented!() }
    #[verifier::external_body]
    fn vx_w2<A: VxDisp, B: VxDisp>(&mut self, f: &str, a: &A, b: &B) -> (r: Result<(), TmplError>) { unimplemented!() }
}
