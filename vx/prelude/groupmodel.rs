// ---- stand-ins for group.rs ----
pub struct ParseError { pub _x: u8 }
pub struct Template { pub path: String, pub has_inline: Ghost<bool> }
pub struct ParseStateG { pub _x: u8 }
impl Template {
    #[verifier::external_body]
    pub fn vx_has_inline_scripts(&self) -> (r: bool)
        ensures r == self.has_inline@,
    { unimplemented!() }
}
impl ParseStateG {
    #[verifier::external_body]
    pub fn take_warnings(&mut self) -> (r: Vec<ParseError>)
    { unimplemented!() }
}
#[verifier::external_body]
pub fn vx_parse(path: &str, src: &str) -> (r: (Template, ParseStateG))
    ensures r.0.path@ == path@,
{ unimplemented!() }
pub struct TreeMap { pub m: Ghost<Map<Seq<char>, Template>> }
pub struct ScriptMap { pub m: Ghost<Map<Seq<char>, Seq<char>>> }
impl TreeMap {
    #[verifier::external_body]
    pub fn is_empty(&self) -> (r: bool) ensures r == (forall|k: Seq<char>| !self.m@.contains_key(k)), { unimplemented!() }
    #[verifier::external_body]
    pub fn contains_key(&self, k: &str) -> (r: bool) ensures r == self.m@.contains_key(k@), { unimplemented!() }
    #[verifier::external_body]
    pub fn new() -> (r: TreeMap) ensures r.m@ == Map::<Seq<char>, Template>::empty(), { unimplemented!() }
    #[verifier::external_body]
    pub fn insert(&mut self, k: String, v: Template) -> (r: Option<Template>)
        ensures final(self).m@ == old(self).m@.insert(k@, v),
    { unimplemented!() }
    #[verifier::external_body]
    pub fn clone(&self) -> (r: TreeMap) ensures r.m@ == self.m@, { unimplemented!() }
    /// std map `remove(&key)`: the entry under exactly that key goes, every other entry stays
    #[verifier::external_body]
    pub fn remove(&mut self, k: &str) -> (r: Option<Template>)
        ensures final(self).m@ == old(self).m@.remove(k@), r.is_some() == old(self).m@.contains_key(k@),
    { unimplemented!() }
    /// `extend` with an owned map: entries of `other` win (right-biased union)
    #[verifier::external_body]
    pub fn extend(&mut self, other: TreeMap)
        ensures final(self).m@ == old(self).m@.union_prefer_right(other.m@),
    { unimplemented!() }
}
impl ScriptMap {
    #[verifier::external_body]
    pub fn is_empty(&self) -> (r: bool) ensures r == (forall|k: Seq<char>| !self.m@.contains_key(k)), { unimplemented!() }
    #[verifier::external_body]
    pub fn contains_key(&self, k: &str) -> (r: bool) ensures r == self.m@.contains_key(k@), { unimplemented!() }
    #[verifier::external_body]
    pub fn new() -> (r: ScriptMap) ensures r.m@ == Map::<Seq<char>, Seq<char>>::empty(), { unimplemented!() }
    #[verifier::external_body]
    pub fn insert(&mut self, k: String, v: String) -> (r: Option<String>)
        ensures final(self).m@ == old(self).m@.insert(k@, v@),
    { unimplemented!() }
    #[verifier::external_body]
    pub fn clone(&self) -> (r: ScriptMap) ensures r.m@ == self.m@, { unimplemented!() }
    #[verifier::external_body]
    pub fn remove(&mut self, k: &str) -> (r: Option<String>)
        ensures final(self).m@ == old(self).m@.remove(k@), r.is_some() == old(self).m@.contains_key(k@),
    { unimplemented!() }
    #[verifier::external_body]
    pub fn extend(&mut self, other: ScriptMap)
        ensures final(self).m@ == old(self).m@.union_prefer_right(other.m@),
    { unimplemented!() }
}
