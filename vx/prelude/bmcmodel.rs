// ---- BindingMapCollector / BindingMapKeys as seen by the traversals: the contracts PROVED in unit BMC, assumed here ----
pub enum BindingMapField { Mapped(usize), Disabled }
pub struct BindingMapCollector { pub overall_disabled: bool, pub fm: Ghost<Map<Seq<char>, BindingMapField>> }
pub struct BindingMapKeys { pub keys: Ghost<Seq<(Seq<char>, usize)>> }
impl BindingMapCollector {
    pub open spec fn disabled(&self, f: Seq<char>) -> bool { self.fm@.contains_key(f) && self.fm@[f] is Disabled }
    pub open spec fn count(&self, f: Seq<char>) -> nat {
        if self.fm@.contains_key(f) { match self.fm@[f] { BindingMapField::Mapped(n) => n as nat, BindingMapField::Disabled => 0 } } else { 0 }
    }
    pub open spec fn monotone(&self, old: &Self) -> bool {
        (old.overall_disabled ==> self.overall_disabled) && forall|g: Seq<char>| old.disabled(g) ==> #[trigger] self.disabled(g)
    }
    #[verifier::external_body]
    pub fn add_field(&mut self, field: &str) -> (r: Option<usize>)
        // BMC proves this under `count < usize::MAX`; a template cannot contain 2^64 occurrences of a field (assumption)
        ensures
            final(self).overall_disabled == old(self).overall_disabled, final(self).monotone(old(self)),
            old(self).disabled(field@) ==> r.is_none() && final(self).fm@ == old(self).fm@,
            !old(self).disabled(field@) ==> r == Some(old(self).count(field@) as usize)
                && final(self).fm@ == old(self).fm@.insert(field@, BindingMapField::Mapped((old(self).count(field@) + 1) as usize)),
    { unimplemented!() }
    #[verifier::external_body]
    pub fn disable_field(&mut self, field: &str)
        ensures
            final(self).overall_disabled == old(self).overall_disabled,
            final(self).fm@ == old(self).fm@.insert(field@, BindingMapField::Disabled),
            final(self).disabled(field@), final(self).monotone(old(self)),
    { unimplemented!() }
}
impl BindingMapKeys {
    #[verifier::external_body]
    pub fn add(&mut self, key: &str, index: usize)
        ensures final(self).keys@ == old(self).keys@.push((key@, index)),
    { unimplemented!() }
}
impl CompactString {
    /// Deref<Target = str>
    #[verifier::external_body]
    pub fn vx_as_str(&self) -> (r: &str)
        ensures r@ == self@,
    { unimplemented!() }
}
