// ---- `str::split(char)` consumed by a `for` loop, and `[&str]::join` (rewrite rules R-split / R-join) ----
pub open spec fn find_char(s: Seq<char>, c: char) -> int
    decreases s.len(),
{
    if s.len() == 0 { -1 } else if s[0] == c { 0 } else {
        let r = find_char(s.skip(1), c);
        if r < 0 { -1 } else { r + 1 }
    }
}
/// the pieces of `s` between occurrences of `c` (always at least one piece) -- std's documented behaviour
pub open spec fn split_spec(s: Seq<char>, c: char) -> Seq<Seq<char>>
    decreases s.len(),
{
    let i = find_char(s, c);
    if i < 0 || i >= s.len() { seq![s] } else { seq![s.take(i)] + split_spec(s.skip(i + 1), c) }
}
pub open spec fn join_spec(v: Seq<Seq<char>>, sep: Seq<char>) -> Seq<char>
    decreases v.len(),
{
    if v.len() == 0 { Seq::<char>::empty() } else if v.len() == 1 { v[0] } else { v[0] + sep + join_spec(v.skip(1), sep) }
}
pub open spec fn views(v: Seq<&str>) -> Seq<Seq<char>> {
    v.map_values(|s: &str| s@)
}
/// eager stand-in for the lazy `s.split(c)` iterator when it is the iterable of a `for` loop
#[verifier::external_body]
pub fn vx_split<'a>(s: &'a str, c: char) -> (r: Vec<&'a str>)
    ensures views(r@) == split_spec(s@, c),
{
    s.split(c).collect()
}
#[verifier::external_body]
pub fn vx_join(v: &Vec<&str>, sep: &str) -> (r: String)
    ensures r@ == join_spec(views(v@), sep@),
{
    v.join(sep)
}
