pub struct Ident { _x: u8 }
