// ---- stand-ins used by the real ParseState methods (A2) ----
/// the fn-pointer stored in `auto_skip_whitespace` (opaque)
#[derive(Clone, Copy)]
pub struct WsFn { pub id: u8 }

pub open spec fn count_nl(s: Seq<char>) -> int
    decreases s.len(),
{
    if s.len() == 0 { 0 } else { count_nl(s.drop_last()) + if s.last() == '\n' { 1int } else { 0int } }
}
pub open spec fn u16len(s: Seq<char>) -> int
    decreases s.len(),
{
    if s.len() == 0 { 0 } else { u16len(s.drop_last()) + utf16_len(s.last()) }
}
/// index of the last '\n' in s, or -1
pub open spec fn last_nl(s: Seq<char>) -> int
    decreases s.len(),
{
    if s.len() == 0 { -1 } else if s.last() == '\n' { s.len() - 1 } else { last_nl(s.drop_last()) }
}
#[verifier::external_body]
pub fn vx_count_newlines(s: &str) -> (r: usize)
    ensures r as int == count_nl(s@),
{ unimplemented!() }
#[verifier::external_body]
pub fn vx_utf16_count(s: &str) -> (r: usize)
    ensures r as int == u16len(s@),
{ unimplemented!() }
/// `s.rfind(c)`: byte offset of the last occurrence
#[verifier::external_body]
pub fn vx_rfind_char(s: &str, c: char) -> (r: Option<usize>)
    requires c == '\n',
    ensures
        last_nl(s@) < 0 ==> r.is_none(),
        last_nl(s@) >= 0 ==> r.is_some() && r.unwrap() as int == boff(s@, last_nl(s@)),
{ unimplemented!() }
/// stand-in for `str::char_indices()` (A2): yields (byte offset, char) of successive characters
pub struct VxCharIndices { pub s: Ghost<Seq<char>>, pub pos: Ghost<int> }
#[verifier::external_body]
pub fn vx_char_indices(s: &str) -> (r: VxCharIndices)
    ensures r.s@ == s@, r.pos@ == 0,
{ unimplemented!() }
impl VxCharIndices {
    #[verifier::external_body]
    pub fn next(&mut self) -> (r: Option<(usize, char)>)
        requires 0 <= old(self).pos@ <= old(self).s@.len(),
        ensures
            final(self).s@ == old(self).s@,
            old(self).pos@ < old(self).s@.len() ==> r.is_some() && r.unwrap().0 as int == boff(old(self).s@, old(self).pos@) && r.unwrap().1 == old(self).s@[old(self).pos@]
                && final(self).pos@ == old(self).pos@ + 1,
            old(self).pos@ >= old(self).s@.len() ==> r.is_none() && final(self).pos@ == old(self).pos@,
    { unimplemented!() }
}
/// stand-in for `c.encode_utf16(&mut [0; 2]).len()`
#[verifier::external_body]
pub fn vx_char_utf16_len(c: char) -> (r: usize)
    ensures r as int == utf16_len(c),
{ unimplemented!() }
/// first character index >= i at which `u` occurs in `t`, or -1
pub open spec fn find_first(t: Seq<char>, u: Seq<char>, i: int) -> int
    decreases t.len() - i,
{
    if i < 0 || i > t.len() { -1 } else if u.is_prefix_of(t.skip(i)) { i } else if i == t.len() { -1 } else { find_first(t, u, i + 1) }
}
/// `s.find(pat)` for a string pattern (A2): byte offset of the first occurrence
#[verifier::external_body]
pub fn vx_find_str(s: &str, pat: &str) -> (r: Option<usize>)
    ensures
        find_first(s@, pat@, 0) < 0 ==> r.is_none(),
        find_first(s@, pat@, 0) >= 0 ==> r.is_some() && r.unwrap() as int == boff(s@, find_first(s@, pat@, 0)),
{ unimplemented!() }
/// `s.is_char_boundary(i)` (A2)
#[verifier::external_body]
pub fn vx_is_char_boundary(s: &str, i: usize) -> (r: bool)
    ensures r == is_boundary(s@, i as int),
{ unimplemented!() }
/// stand-in for `str::chars()` used as an iterator object (A2)
pub struct VxChars { pub s: Ghost<Seq<char>>, pub pos: Ghost<int> }
#[verifier::external_body]
pub fn vx_chars_iter(s: &str) -> (r: VxChars)
    ensures r.s@ == s@, r.pos@ == 0,
{ unimplemented!() }
impl VxChars {
    #[verifier::external_body]
    pub fn next(&mut self) -> (r: Option<char>)
        requires 0 <= old(self).pos@ <= old(self).s@.len(),
        ensures
            final(self).s@ == old(self).s@,
            old(self).pos@ < old(self).s@.len() ==> r == Some(old(self).s@[old(self).pos@]) && final(self).pos@ == old(self).pos@ + 1,
            old(self).pos@ >= old(self).s@.len() ==> r.is_none() && final(self).pos@ == old(self).pos@,
    { unimplemented!() }
}
/// `s.chars().next()` (A2)
#[verifier::external_body]
pub fn vx_first_char(s: &str) -> (r: Option<char>)
    ensures r == (if s@.len() > 0 { Some(s@[0]) } else { None }),
{ unimplemented!() }
