// ---- stand-ins used by the real ParseState methods (A2) ----
/// the fn-pointer stored in `auto_skip_whitespace` (opaque)
#[derive(Clone, Copy)]
pub struct WsFn { pub id: u8 }
pub struct ParseError { pub _x: u8 }

pub open spec fn count_nl(s: Seq<char>) -> int
    decreases s.len(),
{
    if s.len() == 0 { 0 } else { count_nl(s.drop_last()) + if s.last() == '\n' { 1int } else { 0int } }
}
pub open spec fn u16len(s: Seq<char>) -> int
    decreases s.len(),
{
    if s.len() == 0 { 0 } else { u16len(s.drop_last()) + utf16_len(s.last()) }
}
/// index of the last '\n' in s, or -1
pub open spec fn last_nl(s: Seq<char>) -> int
    decreases s.len(),
{
    if s.len() == 0 { -1 } else if s.last() == '\n' { s.len() - 1 } else { last_nl(s.drop_last()) }
}
#[verifier::external_body]
pub fn vx_count_newlines(s: &str) -> (r: usize)
    ensures r as int == count_nl(s@),
{ unimplemented!() }
#[verifier::external_body]
pub fn vx_utf16_count(s: &str) -> (r: usize)
    ensures r as int == u16len(s@),
{ unimplemented!() }
/// `s.rfind(c)`: byte offset of the last occurrence
#[verifier::external_body]
pub fn vx_rfind_char(s: &str, c: char) -> (r: Option<usize>)
    requires c == '\n',
    ensures
        last_nl(s@) < 0 ==> r.is_none(),
        last_nl(s@) >= 0 ==> r.is_some() && r.unwrap() as int == boff(s@, last_nl(s@)),
{ unimplemented!() }
