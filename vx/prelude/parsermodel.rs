// ---- assumed model of cssparser::Parser as used by StepParser (A5) ----
pub struct Item { pub kind: int, pub tok: Token<'static>, pub line: u32, pub col: u32 }
pub struct SourceLocation { pub line: u32, pub column: u32 }
#[derive(Debug)]
pub struct BasicParseError<'i> { pub _s: &'i str }
pub struct ParserState { pub cur: Ghost<int> }
pub struct Parser<'i, 't> {
    pub items: Ghost<Seq<Item>>,
    pub cur: Ghost<int>,
    pub end_line: u32,
    pub end_col: u32,
    pub _p: core::marker::PhantomData<(&'i u8, &'t u8)>,
}
pub open spec fn item_wf(it: Item) -> bool {
    it.col >= 1 && (it.kind == 0 || it.kind == 1 || it.kind == 2)
    && (it.kind == 2 <==> it.tok is Comment) && (it.kind == 1 <==> it.tok is WhiteSpace)
}
/// first index >= c whose item is a token (kind 0), or the number of items
pub open spec fn next_tok(items: Seq<Item>, c: int) -> int
    decreases items.len() - c,
{
    if c < 0 || c >= items.len() { items.len() as int } else if items[c].kind == 0 { c } else { next_tok(items, c + 1) }
}
/// first index >= c whose item is not a comment, or the number of items
pub open spec fn next_non_comment(items: Seq<Item>, c: int) -> int
    decreases items.len() - c,
{
    if c < 0 || c >= items.len() { items.len() as int } else if items[c].kind != 2 { c } else { next_non_comment(items, c + 1) }
}
impl<'i, 't> Parser<'i, 't> {
    pub open spec fn wf(&self) -> bool {
        0 <= self.cur@ <= self.items@.len() && self.end_col >= 1 && forall|k: int| 0 <= k < self.items@.len() ==> item_wf(#[trigger] self.items@[k])
    }
    #[verifier::external_body]
    pub fn current_source_location(&self) -> (r: SourceLocation)
        requires self.wf(),
        ensures
            self.cur@ < self.items@.len() ==> r.line == self.items@[self.cur@].line && r.column == self.items@[self.cur@].col,
            self.cur@ >= self.items@.len() ==> r.line == self.end_line && r.column == self.end_col,
    { unimplemented!() }
    #[verifier::external_body]
    pub fn skip_whitespace(&mut self)
        requires old(self).wf(),
        ensures final(self).wf(), final(self).items@ == old(self).items@, final(self).end_line == old(self).end_line, final(self).end_col == old(self).end_col,
            final(self).cur@ == next_tok(old(self).items@, old(self).cur@),
    { unimplemented!() }
    #[verifier::external_body]
    pub fn next_including_whitespace_and_comments(&mut self) -> (r: Result<&Token<'i>, BasicParseError<'i>>)
        requires old(self).wf(),
        ensures final(self).wf(), final(self).items@ == old(self).items@, final(self).end_line == old(self).end_line, final(self).end_col == old(self).end_col,
            old(self).cur@ < old(self).items@.len() ==> r.is_ok() && tok_eq(*r.unwrap(), old(self).items@[old(self).cur@].tok) && final(self).cur@ == old(self).cur@ + 1,
            old(self).cur@ >= old(self).items@.len() ==> r.is_err() && final(self).cur@ == old(self).cur@,
    { unimplemented!() }
    /// cssparser: `next_including_whitespace` = `next_including_whitespace_and_comments` with comments skipped
    #[verifier::external_body]
    pub fn next_including_whitespace(&mut self) -> (r: Result<&Token<'i>, BasicParseError<'i>>)
        requires old(self).wf(),
        ensures final(self).wf(), final(self).items@ == old(self).items@, final(self).end_line == old(self).end_line, final(self).end_col == old(self).end_col,
            next_non_comment(old(self).items@, old(self).cur@) < old(self).items@.len() ==> r.is_ok()
                && tok_eq(*r.unwrap(), old(self).items@[next_non_comment(old(self).items@, old(self).cur@)].tok)
                && final(self).cur@ == next_non_comment(old(self).items@, old(self).cur@) + 1,
            next_non_comment(old(self).items@, old(self).cur@) >= old(self).items@.len() ==> r.is_err() && final(self).cur@ == old(self).items@.len(),
    { unimplemented!() }
    #[verifier::external_body]
    pub fn state(&self) -> (r: ParserState)
        ensures r.cur@ == self.cur@,
    { unimplemented!() }
    #[verifier::external_body]
    pub fn reset(&mut self, state: &ParserState)
        requires old(self).wf(), 0 <= state.cur@ <= old(self).items@.len(),
        ensures final(self).wf(), final(self).items@ == old(self).items@, final(self).end_line == old(self).end_line, final(self).end_col == old(self).end_col,
            final(self).cur@ == state.cur@,
    { unimplemented!() }
}
/// token equality up to the lifetime parameter (the model stores 'static copies)
pub uninterp spec fn tok_eq<'a, 'b>(a: Token<'a>, b: Token<'b>) -> bool;
#[verifier::external_body]
pub broadcast proof fn axiom_tok_eq_kind<'a, 'b>(a: Token<'a>, b: Token<'b>)
    requires #[trigger] tok_eq(a, b),
    ensures (a is Comment) == (b is Comment), (a is WhiteSpace) == (b is WhiteSpace),
{
}
pub trait VxCloned<'i> { fn vx_cloned(self) -> Result<Token<'i>, BasicParseError<'i>>; }
impl<'i, 'r> VxCloned<'i> for Result<&'r Token<'i>, BasicParseError<'i>> {
    #[verifier::external_body]
    fn vx_cloned(self) -> (r: Result<Token<'i>, BasicParseError<'i>>)
        ensures self.is_ok() == r.is_ok(), self.is_ok() ==> r.unwrap() == *self.unwrap(),
    { unimplemented!() }
}
