"""Mechanical extraction of Rust items from /repo's working tree.

Every item is copied byte for byte; `Item.text` is exactly
`src[item.start:item.end]` of the file as it is on disk at the time of the run.
"""
import hashlib
import os
import re
from dataclasses import dataclass, field

from . import rustlex as rl


class LostAnchor(Exception):
    pass


@dataclass
class Item:
    file: str  # path relative to the repo root
    kind: str
    name: str
    text: str
    start: int
    end: int
    line: int  # 1-based line of `start` in the file
    end_line: int
    impl_header: str = ""  # for methods: text of the impl header up to and including `{`
    impl_key: str = ""
    sha256: str = ""

    def finish(self):
        self.sha256 = hashlib.sha256(self.text.encode()).hexdigest()
        return self


class SourceFile:
    def __init__(self, repo_root, rel):
        self.rel = rel
        self.path = os.path.join(repo_root, rel)
        try:
            with open(self.path, encoding="utf-8") as f:
                self.src = f.read()
        except OSError as e:
            raise LostAnchor("cannot read %s: %s" % (rel, e))
        try:
            self.toks = rl.lex(self.src)
        except rl.LexError as e:
            raise LostAnchor("cannot lex %s: %s" % (rel, e))
        self.code = rl.code_toks(self.toks)

    # -- helpers -----------------------------------------------------------
    def _item_start(self, ci):
        """Given index into self.code of the keyword token (fn/const/enum/...),
        walk back over visibility, qualifiers, attributes and doc comments that
        belong to the item; returns a source offset."""
        toks = self.toks
        k = ci
        first = self.code[k]
        # qualifiers
        while k > 0:
            p = toks[self.code[k - 1]]
            if p.kind == "ident" and p.text in ("pub", "const", "unsafe", "async", "extern", "default"):
                k -= 1
                first = self.code[k]
                continue
            # pub(crate) / pub(super) / pub(in path)
            if p.kind == "punct" and p.text == ")":
                # find matching "(" and check preceded by pub
                d = p.depth
                j = k - 1
                while j > 0 and not (toks[self.code[j]].kind == "punct" and toks[self.code[j]].text == "(" and toks[self.code[j]].depth == d):
                    j -= 1
                if j > 0 and toks[self.code[j - 1]].kind == "ident" and toks[self.code[j - 1]].text == "pub":
                    k = j - 1
                    first = self.code[k]
                    continue
            break
        # attributes and doc comments directly above
        ti = first
        while ti > 0:
            j = ti - 1
            while j >= 0 and toks[j].kind == "ws":
                j -= 1
            if j < 0:
                break
            t = toks[j]
            if t.kind == "doc":
                ti = j
                continue
            if t.kind == "punct" and t.text == "]":
                # attribute #[...]
                d = t.depth
                m = j
                while m > 0 and not (toks[m].kind == "punct" and toks[m].text == "[" and toks[m].depth == d):
                    m -= 1
                h = m - 1
                while h >= 0 and toks[h].kind == "ws":
                    h -= 1
                if h >= 0 and toks[h].kind == "punct" and toks[h].text == "#":
                    ti = h
                    continue
            break
        return toks[ti].start

    def _find_body_or_semi(self, ci):
        """from code index ci (keyword) find the end of the item: either the
        matching `}` of the first `{` at the keyword's nesting, or a `;`."""
        toks = self.toks
        base = toks[self.code[ci]]
        for k in range(ci + 1, len(self.code)):
            t = toks[self.code[k]]
            if t.depth < base.depth:
                break
            if t.kind == "punct" and t.depth == base.depth:
                if t.text == "{":
                    close = rl.match_close(toks, self.code[k])
                    return toks[close].end
                if t.text == ";":
                    return t.end
        raise LostAnchor("no end found for item at %s:%d" % (self.rel, rl.line_of(self.src, base.start)))

    def _mk(self, kind, name, start, end, **kw):
        return Item(self.rel, kind, name, self.src[start:end], start, end,
                    rl.line_of(self.src, start), rl.line_of(self.src, end - 1), **kw).finish()

    # -- finders -----------------------------------------------------------
    def find_keyword_item(self, kw, name, depth=0, within=None):
        """`fn name`, `const NAME`, `enum Name`, `struct Name`, `static`, `type`, `trait`"""
        toks = self.toks
        found = []
        for k, ti in enumerate(self.code[:-1]):
            t = toks[ti]
            if t.kind == "ident" and t.text == kw and t.depth == depth:
                if within and not (within[0] <= t.start < within[1]):
                    continue
                nt = toks[self.code[k + 1]]
                if nt.kind == "ident" and nt.text == name:
                    if kw == "const" and k + 2 < len(self.code) and toks[self.code[k + 2]].text != ":":
                        continue
                    found.append(k)
        return found

    def top_item(self, kw, name):
        f = self.find_keyword_item(kw, name, 0)
        if len(f) != 1:
            raise LostAnchor("%s %s: %d matches in %s" % (kw, name, len(f), self.rel))
        ci = f[0]
        return self._mk(kw, name, self._item_start(ci), self._find_body_or_semi(ci))

    def impl_blocks(self, type_re, trait_re=None):
        """yield (header_text, body_start_off, body_end_off, header_start_off) of
        impl blocks at depth 0 whose header matches"""
        toks = self.toks
        out = []
        for k, ti in enumerate(self.code):
            t = toks[ti]
            if t.kind == "ident" and t.text == "impl" and t.depth == 0:
                # header runs to the first `{` at depth 0
                for k2 in range(k + 1, len(self.code)):
                    t2 = toks[self.code[k2]]
                    if t2.kind == "punct" and t2.text == "{" and t2.depth == 0:
                        break
                else:
                    continue
                header = self.src[t.start:t2.end]
                hdr_flat = " ".join(header.split())
                # determine "impl [<..>] Trait for Type" vs "impl [<..>] Type"
                m = re.match(r"impl\s*(<.*?>)?\s*(.*?)\s*(where .*)?\{$", hdr_flat)
                core = m.group(2) if m else hdr_flat
                trait = None
                ty = core
                mm = re.match(r"(.*?)\s+for\s+(.*)$", core)
                if mm and not core.startswith("for<"):
                    trait, ty = mm.group(1), mm.group(2)
                if not re.match(type_re + r"(<.*>)?$", ty.strip()):
                    continue
                if trait_re is None and trait is not None:
                    continue
                if trait_re is not None and (trait is None or not re.match(trait_re, trait.strip())):
                    continue
                close = rl.match_close(toks, self.code[k2])
                out.append((header, t2.end, toks[close].start, self._item_start(k)))
        return out

    def method(self, type_name, name, trait_re=None):
        type_re = re.escape(type_name)
        cands = []
        for header, b0, b1, h0 in self.impl_blocks(type_re, trait_re):
            for ci in self.find_keyword_item("fn", name, 1, within=(b0, b1)):
                cands.append((header, ci))
        if len(cands) != 1:
            raise LostAnchor("method %s::%s: %d matches in %s" % (type_name, name, len(cands), self.rel))
        header, ci = cands[0]
        return self._mk("method", "%s::%s" % (type_name, name), self._item_start(ci), self._find_body_or_semi(ci),
                        impl_header=header, impl_key=" ".join(header.split()))

    def impl_block(self, type_name, trait_re):
        bl = self.impl_blocks(re.escape(type_name), trait_re)
        if len(bl) != 1:
            raise LostAnchor("impl %s for %s: %d matches in %s" % (trait_re, type_name, len(bl), self.rel))
        header, b0, b1, h0 = bl[0]
        return self._mk("implblock", "%s as %s" % (type_name, trait_re), h0, b1 + 1)

    def macro_rules(self, name):
        toks = self.toks
        for k, ti in enumerate(self.code[:-3]):
            t = toks[ti]
            if t.kind == "ident" and t.text == "macro_rules" and toks[self.code[k + 1]].text == "!" and toks[self.code[k + 2]].text == name:
                o = self.code[k + 3]
                close = rl.match_close(toks, o)
                return self._mk("macro", name, self._item_start(k), toks[close].end)
        raise LostAnchor("macro_rules! %s not found in %s" % (name, self.rel))

    def macro_instance(self, name, args, fn_name, log=None):
        """R-macro: the body of the (single-rule, non-recursive) macro `name` with `$param` replaced by the
        invocation's arguments -- what rustc's expander does -- then the method `fn_name` of the impl block in it."""
        mac = self.macro_rules(name)
        # the invocation must exist with exactly these arguments
        inv = "%s!(" % name
        if inv not in self.src:
            raise LostAnchor("macro %s! is never invoked in %s" % (name, self.rel))
        m = re.search(r"=>\s*\{", mac.text)
        if not m:
            raise LostAnchor("macro %s: no rule body" % name)
        toks = rl.lex(mac.text)
        # body = outermost { ... } after `=>`
        ob = None
        for i, t in enumerate(toks):
            if t.start >= m.end() - 1 and t.kind == "punct" and t.text == "{":
                ob = i
                break
        cb = rl.match_close(toks, ob)
        body_start = toks[ob].end
        body = mac.text[body_start:toks[cb].start]
        for k, v in args.items():
            if "\n" in v:
                raise LostAnchor("macro argument with newline")
            body = re.sub(r"\$" + re.escape(k) + r"\b", lambda _m: v, body)
        if re.search(r"\$[A-Za-z_]", body):
            raise LostAnchor("macro %s: unsubstituted metavariable remains" % name)
        btoks = rl.lex(body)
        bcode = rl.code_toks(btoks)
        # impl header
        hdr = None
        for k, ti in enumerate(bcode):
            t = btoks[ti]
            if t.kind == "ident" and t.text == "impl" and t.depth == 0:
                for ti2 in bcode[k + 1:]:
                    if btoks[ti2].kind == "punct" and btoks[ti2].text == "{" and btoks[ti2].depth == 0:
                        hdr = body[t.start:btoks[ti2].end]
                        break
                break
        if hdr is None:
            raise LostAnchor("macro %s: no impl block in body" % name)
        fstart = fend = None
        for k, ti in enumerate(bcode[:-1]):
            t = btoks[ti]
            if t.kind == "ident" and t.text == "fn" and t.depth == 1 and btoks[bcode[k + 1]].text == fn_name:
                fstart = t.start
                for ti2 in bcode[k + 1:]:
                    t2 = btoks[ti2]
                    if t2.kind == "punct" and t2.text == "{" and t2.depth == 1:
                        fend = btoks[rl.match_close(btoks, ti2)].end
                        break
                break
        if fstart is None or fend is None:
            raise LostAnchor("macro %s: fn %s not found in body" % (name, fn_name))
        line = mac.line + mac.text.count("\n", 0, body_start) + body.count("\n", 0, fstart)
        text = body[fstart:fend]
        ty = re.match(r"impl\s*(<.*?>)?\s*([A-Za-z_]\w*)", " ".join(hdr.split())).group(2)
        it = Item(self.rel, "method", "%s::%s" % (ty, fn_name), text, mac.start, mac.end, line, line + text.count("\n"),
                  impl_header=hdr, impl_key=" ".join(hdr.split())).finish()
        return it

    def span_between(self, name, start_pat, end_pat, within_item=None):
        """verbatim statement slice: text strictly between the first occurrence of
        start_pat and the following occurrence of end_pat (both literal), inside
        `within_item` if given."""
        lo, hi = (within_item.start, within_item.end) if within_item else (0, len(self.src))
        a = self.src.find(start_pat, lo, hi)
        if a < 0:
            raise LostAnchor("slice %s: start pattern not found in %s" % (name, self.rel))
        a += len(start_pat)
        b = self.src.find(end_pat, a, hi)
        if b < 0:
            raise LostAnchor("slice %s: end pattern not found in %s" % (name, self.rel))
        return self._mk("slice", name, a, b)


def extract(repo_root, spec, cache):
    """spec: dict with file, kind, name [, impl] -> Item"""
    rel = spec["file"]
    if rel not in cache:
        cache[rel] = SourceFile(repo_root, rel)
    sf = cache[rel]
    kind = spec["kind"]
    if kind in ("fn", "const", "static", "enum", "struct", "type", "trait"):
        return sf.top_item(kind, spec["name"])
    if kind == "method":
        return sf.method(spec["impl"], spec["name"], spec.get("trait"))
    if kind == "implblock":
        return sf.impl_block(spec["impl"], spec["trait"])
    if kind == "macro":
        return sf.macro_rules(spec["name"])
    if kind == "macro_inst":
        return sf.macro_instance(spec["name"], spec["args"], spec["fn"])
    if kind == "slice":
        within = None
        if "within" in spec:
            within = extract(repo_root, spec["within"], cache)
        return sf.span_between(spec["name"], spec["start"], spec["end"], within)
    raise LostAnchor("unknown item kind %r" % kind)
