"""Thorough-tier guards (DESIGN 3.6):
 (a) vacuity canaries -- `assert(false)` woven at the entry of every function under contract must FAIL; if it
     verifies, that function's precondition (or the prelude) is contradictory and every pass would be vacuous;
 (b) must-fail mutants -- committed one-line mutations of the EXTRACTED text (units/<U>/mutants.json; /repo is not
     touched) must each make an obligation of the named function fail."""
import json
import os

from . import pipeline as pl

VERIF = os.path.dirname(os.path.dirname(os.path.abspath(__file__)))


def _canaries(unit):
    u = pl.Unit(unit, canary=True, tag="-canary")
    out = {"unit": unit, "functions": 0, "failed_as_expected": 0, "vacuous": []}
    try:
        u.build()
        res = u.run()
    except pl.Undecided as e:
        out["error"] = "%s %s" % (e.reason, e.detail[:200])
        return out
    cls = u.classify(res)
    hit = set()
    lines = u.woven.split("\n")
    for f in cls["failures"]:
        wl = f["woven_line"]
        if f["message"].startswith("assertion failed") and 0 < wl <= len(lines) and "vx-canary" in lines[wl - 1]:
            hit.add(f["fn"])
    from .weave import parse_contracts
    targets = set()
    for cf in u.spec.get("contracts", ["contracts.vrs"]):
        for s in parse_contracts(os.path.join(u.dir, cf)):
            if s.kind == "sig":
                targets.add(s.target)
    present = {f[2] for f in u.fn_table}
    for t in sorted(targets & present):
        out["functions"] += 1
        if t in hit:
            out["failed_as_expected"] += 1
        else:
            out["vacuous"].append(t)
    if cls["status"] == "undecided":
        out["error"] = cls.get("reason")
    return out


def _mutants(unit):
    p = os.path.join(VERIF, "units", unit, "mutants.json")
    out = {"unit": unit, "mutants": 0, "killed": 0, "survived": [], "details": []}
    if not os.path.exists(p):
        return out
    for m in json.load(open(p)):
        out["mutants"] += 1
        u = pl.Unit(unit, mutant=m, tag="-mut")
        try:
            u.build()
            res = u.run()
            cls = u.classify(res)
        except pl.Undecided as e:
            out["survived"].append({"id": m["id"], "why": "undecided: %s %s" % (e.reason, e.detail[:160])})
            continue
        fns = sorted({f["fn"] for f in cls["failures"]})
        killed = cls["status"] == "violation" and (not m.get("expect_fn") or m["expect_fn"] in fns)
        out["details"].append({"id": m["id"], "what": m.get("what", ""), "status": cls["status"], "failing_functions": fns})
        if killed:
            out["killed"] += 1
        else:
            out["survived"].append({"id": m["id"], "why": "status %s, failing %s" % (cls["status"], fns)})
    return out


def run(prop, units):
    rep = {"canaries": [], "mutants": [], "problems": []}
    for unit in units:
        c = _canaries(unit)
        rep["canaries"].append(c)
        if c.get("vacuous"):
            rep["problems"].append({"unit": unit, "kind": "vacuous-contract", "detail": "assert(false) verified at the entry of: " + ", ".join(c["vacuous"])})
        if c.get("error"):
            rep["problems"].append({"unit": unit, "kind": "canary-run", "detail": str(c["error"])})
        m = _mutants(unit)
        rep["mutants"].append(m)
        if m["survived"]:
            rep["problems"].append({"unit": unit, "kind": "mutant-survived", "detail": json.dumps(m["survived"])[:400]})
    return rep
