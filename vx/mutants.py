def run(prop, units):
    return {"canaries": [], "mutants": [], "problems": []}
