"""Scalar statement slices decided by Kani/CBMC.  The slice text is cut verbatim from /repo's working tree on every run
and pasted into a generated stand-alone crate; the harness is loop-free over full-domain symbolic scalars, so a pass
is a complete proof over that domain (DESIGN 5, unit RPX)."""
import json
import os
import re
import shutil
import subprocess
import time

from .extract import LostAnchor, extract

VERIF = os.path.dirname(os.path.dirname(os.path.abspath(__file__)))
REPO = os.environ.get("VX_REPO", "/repo")


def _run_harness(crate, name, timeout=300):
    env = dict(os.environ, CARGO_NET_OFFLINE="true", CARGO_TARGET_DIR=os.path.join(VERIF, ".cache", "kani-target"))
    cmd = ["cargo", "kani", "--harness", name, "--exact", "--solver", "cvc5", "-Z", "concrete-playback", "--concrete-playback=print"]
    t0 = time.time()
    try:
        p = subprocess.run(cmd, cwd=crate, env=env, capture_output=True, text=True, timeout=timeout)
    except subprocess.TimeoutExpired:
        return {"status": "undecided", "reason": "kani-timeout", "cmd": " ".join(cmd), "wall_s": timeout}
    out = p.stdout + p.stderr
    checks = len(re.findall(r"^Check \d+:", out, flags=re.M))
    failed = re.findall(r"^Failed Checks: (.*)$", out, flags=re.M)
    m = re.search(r"VERIFICATION:- (\w+)", out)
    vt = re.search(r"Verification Time: ([\d.]+)s", out)
    res = {"cmd": "cd %s && CARGO_NET_OFFLINE=true %s" % (crate, " ".join(cmd)), "wall_s": round(time.time() - t0, 2),
           "checks": checks, "failed": failed, "cbmc_s": float(vt.group(1)) if vt else None}
    if not m:
        res.update(status="undecided", reason="kani-error", detail=out[-1500:])
    elif m.group(1) == "SUCCESSFUL":
        res["status"] = "ok"
    else:
        res["status"] = "violation"
        # concrete values printed by Kani ("// <value>" lines inside the generated playback test)
        vals = re.findall(r"^\s*// (.+)$", out, flags=re.M)
        res["counterexample"] = [v for v in vals if not v.startswith("/")][:6]
        res["rendered"] = "\n".join(l for l in out.split("\n") if l.startswith("Failed Checks") or "File:" in l)[:1500]
    return res


def run(spec, unit_dir, tier):
    unit = spec["unit"]
    work = os.path.join(VERIF, ".work", unit, "kani")
    out = {"unit": unit, "obligations": 0, "discharged": 0, "failures": [], "functions": [], "assumptions": ["[%s] %s" % (unit, a) for a in spec.get("assumptions", [])],
           "samples": [], "status": "ok", "cmd": "", "backend": {"unit": unit, "verifier": "kani 0.68 / cbmc 6.11", "harnesses": []}}
    try:
        it = extract(REPO, spec["slice"], {})
    except LostAnchor as e:
        out.update(status="undecided", reason="lost-anchor", detail=str(e))
        return out
    shutil.rmtree(work, ignore_errors=True)
    os.makedirs(os.path.join(work, "src"))
    with open(os.path.join(work, "Cargo.toml"), "w") as f:
        f.write('[package]\nname = "vx_%s_slice"\nversion = "0.1.0"\nedition = "2021"\n[workspace]\n' % unit.lower())
    harness = open(os.path.join(unit_dir, spec["harness_file"])).read()
    if "/*SLICE*/" not in harness:
        raise ValueError("harness without /*SLICE*/ marker")
    with open(os.path.join(work, "src", "lib.rs"), "w") as f:
        f.write("// GENERATED: verbatim slice of %s lines %d-%d pasted at the SLICE marker\n" % (it.file, it.line, it.end_line))
        f.write(harness.replace("/*SLICE*/", it.text))
    out["functions"].append({"unit": unit, "fn": spec["slice"]["within"]["name"] + " (statement slice " + spec["slice"]["name"] + ")",
                             "repo_file": it.file, "lines": [it.line, it.end_line], "sha256_of_extracted_text": it.sha256,
                             "generated_wrapper": "fn slice(ss: &SS, has_sign: bool, value: f32) -> Token { <slice> t }"})
    cmds = []
    for h in spec["harnesses"]:
        r = _run_harness(work, h["name"])
        cmds.append(r.get("cmd", ""))
        out["backend"]["harnesses"].append({"harness": h["name"], "status": r["status"], "checks": r.get("checks"), "cbmc_s": r.get("cbmc_s"), "wall_s": r.get("wall_s")})
        out["samples"].append({"obligation": h["obligation"], "clause": h["clause"]})
        n = max(r.get("checks") or 0, 1)
        out["obligations"] += n
        if r["status"] == "ok":
            out["discharged"] += n
        elif r["status"] == "violation":
            out["status"] = "violation" if out["status"] != "undecided" else out["status"]
            out["failures"].append({"fn": h["obligation"], "message": "kani: " + "; ".join(r["failed"])[:200], "origin": "%s:%d" % (it.file, it.line),
                                    "source_text": h["clause"][:200], "clause": {"harness": h["name"], "counterexample": r.get("counterexample")},
                                    "rendered": r.get("rendered", ""), "class": "semantic", "witness": {"found": True, "input": "kani counterexample (f32 bit patterns): " + ", ".join(r.get("counterexample") or []),
                                                                                                       "observed": "; ".join(r["failed"])[:200], "expected": h["clause"][:200],
                                                                                                       "replay_args": ["KANI", unit, h["name"]]}})
        else:
            out["status"] = "undecided"
            out["reason"] = r.get("reason")
            out["detail"] = r.get("detail", "")
    out["cmd"] = " ; ".join(cmds)
    return out
