"""Scalar statement slices decided by Kani (loop-free => complete over the scalar domain). See units/RPX."""
import glob
import json
import os

VERIF = os.path.dirname(os.path.dirname(os.path.abspath(__file__)))


def run_for_property(prop, tier):
    out = []
    for sj in sorted(glob.glob(os.path.join(VERIF, "units", "*", "slice.json"))):
        spec = json.load(open(sj))
        if prop not in spec.get("tags", []) or spec.get("disabled"):
            continue
        from . import kani_slice
        out.append(kani_slice.run(spec, os.path.dirname(sj), tier))
    return out
