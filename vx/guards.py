"""Thorough-tier guards: vacuity canaries and must-fail mutants (DESIGN 3.6)."""
import json
import os

VERIF = os.path.dirname(os.path.dirname(os.path.abspath(__file__)))


def run(prop, units):
    from . import mutants
    return mutants.run(prop, units)
